#!/venv/bin/python
"""Runs every property check against every confirmed behaviour-preserving refactor in /verif/benign (in-memory
overlay) and lists the checks that report a NEW finding or cannot analyse the tree.  Any hit is a robustness bug of
the checker (false alarm / brittle matcher).  Updates meta.json (`reported_by`) and /verif/benign/MATRIX.md.
NOT part of any check."""
import json
import multiprocessing
import os
import sys

HERE = os.path.dirname(os.path.dirname(os.path.abspath(__file__)))
sys.path.insert(0, HERE)

from vzstatic import selftest  # noqa: E402
from vzstatic.__main__ import run_check  # noqa: E402
from vzstatic.source import AnalysisError, Source  # noqa: E402

BENIGN = os.path.join(HERE, 'benign')


def job(args):
  prop, name, overlay, base_keys = args
  r = selftest._run_one((prop, name, 'silent', None, overlay, base_keys))
  return prop, name, r[2], r[3]


def main():
  only = sys.argv[1:]
  props = selftest.all_props()
  base = {p: set(selftest._bad_keys(run_check(p, 'quick'))) for p in props}
  src = Source()
  items = []
  for name in sorted(os.listdir(BENIGN)):
    d = os.path.join(BENIGN, name)
    if not os.path.isfile(os.path.join(d, 'patch.diff')):
      continue
    if only and not any(name.startswith(o) for o in only):
      continue
    try:
      overlay = selftest.apply_unified_diff(src, open(os.path.join(d, 'patch.diff')).read())
    except AnalysisError as e:
      print(f'{name}: patch does not apply to the current tree ({e})')
      continue
    items.append((name, overlay))
  work = [(p, n, ov, base[p]) for n, ov in items for p in props]
  with multiprocessing.Pool(16) as pool:
    res = pool.map(job, work)
  hits = {}
  for prop, name, outcome, rules in res:
    if outcome in ('fired', 'fired-other-rule'):
      hits.setdefault(name, []).append(f'{prop}:{"/".join(rules)}')
    elif outcome in ('analysis-error', 'internal-error'):
      hits.setdefault(name, []).append(f'{prop}:!{outcome}:{rules[0][:90] if rules else ""}')
  lines = ['| behaviour-preserving refactor | anchored property | checks that (wrongly) report it |', '|---|---|---|']
  for name, _ in items:
    mp = os.path.join(BENIGN, name, 'meta.json')
    meta = json.load(open(mp))
    h = sorted(hits.get(name, []))
    meta['reported_by'] = h
    json.dump(meta, open(mp, 'w'), indent=1)
    lines.append(f"| {name} | {meta['property']} | {', '.join(x.split(':!')[0] + ('(!)' if ':!' in x else '') for x in h) or 'none (silent)'} |")
    print(f'{name:10s} -> {", ".join(h) or "silent"}')
  if not only:
    open(os.path.join(BENIGN, 'MATRIX.md'), 'w').write('\n'.join(lines) + '\n')


if __name__ == '__main__':
  main()
