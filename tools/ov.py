#!/venv/bin/python
"""tools/ov.py <seeded-or-benign name> <prop>: prints the findings a check reports on the overlaid tree that it
does not report on the clean tree (debugging aid, NOT part of any check)."""
import os
import sys
import traceback

HERE = os.path.dirname(os.path.dirname(os.path.abspath(__file__)))
sys.path.insert(0, HERE)
from vzstatic import selftest  # noqa: E402
from vzstatic.__main__ import run_check  # noqa: E402
from vzstatic.source import Source  # noqa: E402

name, prop = sys.argv[1], sys.argv[2]
kind = 'benign' if '-b' in name else 'seeded'
ov = selftest.apply_unified_diff(Source(), open(f'{HERE}/{kind}/{name}/patch.diff').read())
base = set(selftest._bad_keys(run_check(prop, 'quick')))
try:
  ctx = run_check(prop, 'quick', overlay=ov)
  ctx.vacuity()
except Exception:
  traceback.print_exc()
  sys.exit(2)
for k, o in selftest._bad_keys(ctx).items():
  if k not in base:
    print(k)
    print('   ', getattr(o, 'where', ''), '|', (getattr(o, 'detail', '') or getattr(o, 'message', ''))[:400])
