#!/venv/bin/python
"""Runs every property check against every seeded change (in-memory overlay)
and records which checks report a NEW finding.  Updates meta.json
(`detected_by`) and writes /verif/seeded/MATRIX.md.  NOT part of any check."""
import json
import multiprocessing
import os
import sys

HERE = os.path.dirname(os.path.dirname(os.path.abspath(__file__)))
sys.path.insert(0, HERE)

from vzstatic import selftest  # noqa: E402
from vzstatic.__main__ import run_check  # noqa: E402
from vzstatic.source import AnalysisError, Source  # noqa: E402


def job(args):
  prop, name, overlay, base_keys = args
  r = selftest._run_one((prop, name, 'fire', None, overlay, base_keys))
  return prop, name, r[2], r[3]


def main():
  props = selftest.all_props()
  only = sys.argv[1:]
  base = {}
  for p in props:
    try:
      base[p] = set(selftest._bad_keys(run_check(p, 'quick')))
    except Exception as e:  # noqa
      print('baseline of', p, 'failed:', e)
  src = Source()
  seeds = []
  for name in sorted(os.listdir(selftest.SEEDED_DIR)):
    d = os.path.join(selftest.SEEDED_DIR, name)
    if not os.path.isfile(os.path.join(d, 'patch.diff')):
      continue
    if only and not any(name.startswith(o) for o in only):
      continue
    try:
      overlay = selftest.apply_unified_diff(src, open(os.path.join(d, 'patch.diff')).read())
    except AnalysisError as e:
      print(f'{name}: patch does not apply to the current tree ({e})')
      continue
    seeds.append((name, overlay))
  work = [(p, n, ov, base[p]) for n, ov in seeds for p in base]
  with multiprocessing.Pool(16) as pool:
    res = pool.map(job, work)
  by_seed = {}
  for prop, name, outcome, rules in res:
    if outcome in ('fired', 'fired-other-rule'):
      by_seed.setdefault(name, []).append(f'{prop}:{"/".join(rules)}')
    elif outcome in ('analysis-error', 'internal-error'):
      by_seed.setdefault(name, []).append(f'{prop}:!{outcome}')
  lines = ['| seeded change | target property | checks reporting a new finding |', '|---|---|---|']
  for name, _ in seeds:
    mp = os.path.join(selftest.SEEDED_DIR, name, 'meta.json')
    meta = json.load(open(mp))
    det = sorted(by_seed.get(name, []))
    meta['detected_by'] = sorted({d.split(':')[0] for d in det if '!' not in d})
    meta['detected_rules'] = det
    json.dump(meta, open(mp, 'w'), indent=1)
    lines.append(f"| {name} | {meta['property']} | {', '.join(det) or '**none (missed)**'} |")
    print(f'{name:10s} -> {", ".join(det) or "MISSED"}')
  if not only:
    open(os.path.join(selftest.SEEDED_DIR, 'MATRIX.md'), 'w').write('\n'.join(lines) + '\n')


if __name__ == '__main__':
  main()
