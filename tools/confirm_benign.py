#!/venv/bin/python
"""Confirms sub-agent *behaviour-preserving* refactors and files them under /verif/benign/.

NOT part of any check.  For each /tmp/seed_<P>/benign/change_<k>/ it creates a fresh scratch worktree of /repo's
HEAD-compatible base, and confirms: (1) the patch applies; (2) check.py exits 0 on the pristine tree; (3) check.py
exits 0 with the patch; (4) the pinned baseline test files still pass with the patch.  Then the refactor is copied to
/verif/benign/<P>-b<k>/ with a meta.json.   usage: confirm_benign.py C01 [C04 ...]
"""
import json
import os
import shutil
import subprocess
import sys
import concurrent.futures as cf

sys.path.insert(0, os.path.dirname(os.path.abspath(__file__)))
from confirm_seed import BASELINE_FILES, sh  # noqa: E402


def confirm(prop, k, sub='benign'):
  src = f'/tmp/seed_{prop}/{sub}/change_{k}'
  name = f'{prop}-b{k}'
  if not os.path.isfile(f'{src}/patch.diff'):
    return name, False, 'no patch.diff'
  rc, base = sh('git rev-parse HEAD', cwd=f'/tmp/seed_{prop}')
  base = base.strip()
  wt = f'/tmp/confirmb_{name}'
  sh(f'git -C /repo worktree remove --force {wt}')
  rc, out = sh(f'git -C /repo worktree add --detach {wt} {base} -q')
  if rc:
    return name, False, 'worktree: ' + out
  try:
    sh(f'/venv/bin/python /verif/tools/genpb.py {wt}')
    os.makedirs(f'{wt}/_demo_shim', exist_ok=True)
    shutil.copy('/verif/tools/demo_shim/equinox.py', f'{wt}/_demo_shim/equinox.py')
    env = dict(os.environ, PYTHONPATH=f'{wt}:{wt}/_demo_shim')
    chk = f'{src}/check.py'
    if not os.path.isfile(chk):
      return name, False, 'no check.py'
    txt = open(chk).read().replace(f'/tmp/seed_{prop}', wt)
    os.makedirs(f'{wt}/benign', exist_ok=True)
    open(f'{wt}/benign/check.py', 'w').write(txt)
    run = '/venv/bin/python benign/check.py'
    if 'def test_' in txt and '__main__' not in txt:
      run = '/venv/bin/python -m pytest -q -p no:cacheprovider benign/check.py'
    rc0, out0 = sh(run, cwd=wt, env=env, timeout=900)
    if rc0 != 0:
      return name, False, 'check fails on pristine tree: ' + out0[-400:]
    rc, out = sh(f'git apply {src}/patch.diff', cwd=wt)
    if rc:
      return name, False, 'patch does not apply: ' + out
    rc1, out1 = sh(run, cwd=wt, env=env, timeout=900)
    if rc1 != 0:
      return name, False, 'check FAILS with the refactor applied: ' + out1[-400:]
    rcb, outb = sh('/venv/bin/python -m pytest -q -p no:cacheprovider --timeout=900 ' + ' '.join(BASELINE_FILES),
                   cwd=wt, env=env, timeout=1500)
    tail = outb.strip().splitlines()[-1] if outb.strip() else ''
    if rcb != 0 or '131 passed' not in tail:
      return name, False, 'baseline suite: ' + tail
    dst = f'/verif/benign/{name}'
    os.makedirs(dst, exist_ok=True)
    shutil.copy(f'{src}/patch.diff', f'{dst}/patch.diff')
    shutil.copy(chk, f'{dst}/check.py')
    if os.path.isfile(f'{src}/notes.md'):
      shutil.copy(f'{src}/notes.md', f'{dst}/notes.md')
    files = [l[6:].strip() for l in open(f'{src}/patch.diff') if l.startswith('+++ b/')]
    meta = {
        'property': prop, 'kind': 'behaviour-preserving refactor (must NOT be reported)',
        'origin': 'independent sub-agent given only the property text and a scratch worktree',
        'base_commit': base, 'files': files,
        'confirmed': {'patch_applies': True, 'check_on_pristine': 'exit 0', 'check_with_refactor': 'exit 0',
                      'baseline_suite_with_refactor': tail,
                      'how': 'tools/confirm_benign.py in a fresh scratch worktree; worktree removed afterwards'},
        'reported_by': [],
    }
    json.dump(meta, open(f'{dst}/meta.json', 'w'), indent=1)
    return name, True, f'confirmed ({tail})'
  finally:
    sh(f'git -C /repo worktree remove --force {wt}')


def main():
  jobs = []
  subs = [a[2:] for a in sys.argv[1:] if a.startswith('--')] or ['benign']
  for prop in [a for a in sys.argv[1:] if not a.startswith('--')]:
    for sub in subs:
      d = f'/tmp/seed_{prop}/{sub}'
      if not os.path.isdir(d):
        print(prop, f'no {sub} dir')
        continue
      for c in sorted(os.listdir(d)):
        if c.startswith('change_') and not os.path.isdir(f'/verif/benign/{prop}-b{c.split("_")[1]}'):
          jobs.append((prop, c.split('_')[1], sub))
  with cf.ThreadPoolExecutor(6) as ex:
    for name, ok, msg in ex.map(lambda j: confirm(*j), jobs):
      print(('OK   ' if ok else 'FAIL ') + name + ': ' + msg, flush=True)


if __name__ == '__main__':
  main()
