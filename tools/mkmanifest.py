#!/venv/bin/python
"""Regenerates /verif/MANIFEST.json from the per-rule-module metadata.

Each vzstatic/rules/Cxx.py defines MANIFEST = {technique, level_text,
level_note, design_ref}; a property without a rule module (or whose module
sets NOT_APPLICABLE = reason) is listed under not_applicable.
"""
import importlib
import json
import os
import sys

HERE = os.path.dirname(os.path.dirname(os.path.abspath(__file__)))
sys.path.insert(0, HERE)

BASELINE = ('cd /repo && /venv/bin/python -m pytest -ra -q -p no:cacheprovider '
            '--timeout=900 --continue-on-collection-errors')


def main():
  props = [json.loads(l) for l in open(os.path.join(HERE, 'properties.jsonl'))]
  checks, na = [], []
  for p in props:
    pid = p['id']
    path = os.path.join(HERE, 'vzstatic', 'rules', f'{pid}.py')
    mod = None
    if os.path.isfile(path):
      mod = importlib.import_module(f'vzstatic.rules.{pid}')
    if mod is None or getattr(mod, 'NOT_APPLICABLE', None):
      na.append({'property_id': pid,
                 'reason': getattr(mod, 'NOT_APPLICABLE', None) or
                 'static check not built yet (see DESIGN.md section 4 for the plan)'})
      continue
    m = mod.MANIFEST
    checks.append({
        'property_id': pid,
        'quick_cmd': f'/venv/bin/python -m vzstatic check {pid} --tier quick',
        'thorough_cmd': f'/venv/bin/python -m vzstatic check {pid} --tier thorough',
        'evidence_file': f'/verif/evidence/{pid}.json',
        'replay_cmd_template': '/venv/bin/python -m vzstatic explain {path}',
        'engine': 'vzstatic',
        'level_claimed': {
            'category': 'other',
            'text': m['level_text'],
            'design_ref': m.get('design_ref', f'DESIGN.md section 4, {pid}'),
        },
        'level_note': m['level_note'],
        'technique': m['technique'],
    })
  manifest = {
      'version': 1,
      'setup_cmd': 'true',
      'hooks': {
          'guard': 'GOOGLE_VIZIER_VERIF',
          'enable': ('none needed: the checks are static (they parse /repo, nothing is '
                     'built or instrumented); no hook commits exist'),
          'baseline_off_cmd': BASELINE,
          'source_commits': [],
          'add_only': True,
      },
      'engines': [{
          'name': 'vzstatic',
          'path': '/verif/vzstatic',
          'serves_properties': [c['property_id'] for c in checks],
          'kind_free_text': (
              'repository-specific static analysis in pure Python (ast): module/class '
              'index with import+alias resolution, per-function CFG with exception '
              'edges, reaching definitions / provenance, abstract interpretation over '
              'small finite domains, .proto schema parser; rules per property in '
              'vzstatic/rules/'),
      }],
      'checks': checks,
      'not_applicable': na,
      'notes': ('Exit codes: 0 held / 1 VIOLATION / 2 ANALYSIS-ERROR (checker cannot '
                'decide; never a violation). Known genuine defects are listed in '
                '/verif/known_findings.json and printed as KNOWN-FINDING lines. '
                'tools/ holds demo-only helpers (pb2 generation for scratch worktrees) '
                'that no check uses.'),
  }
  with open(os.path.join(HERE, 'MANIFEST.json'), 'w') as f:
    json.dump(manifest, f, indent=1)
  print(f'MANIFEST.json: {len(checks)} checks, {len(na)} not_applicable')


if __name__ == '__main__':
  main()
