#!/venv/bin/python
"""Regenerates the generated tables of DESIGN.md (between the BEGIN/END markers) from seeded/ and benign/ meta files.
NOT part of any check."""
import json
import os
import re

HERE = os.path.dirname(os.path.dirname(os.path.abspath(__file__)))


def title_of(d):
  n = os.path.join(d, 'notes.md')
  t = ''
  if os.path.exists(n):
    t = open(n).readline().strip().lstrip('# ').strip()
    t = re.sub(r'^(C\d\d\s*/?\s*)?([Cc]hange|benign)\s*\d+\s*[-—–:]+\s*', '', t)
  return t


def seeds():
  rows = ['| seeded change | what it does | checks reporting it (rule) |', '|---|---|---|']
  miss = 0
  total = 0
  for name in sorted(os.listdir(os.path.join(HERE, 'seeded'))):
    d = os.path.join(HERE, 'seeded', name)
    mp = os.path.join(d, 'meta.json')
    if not os.path.isfile(mp):
      continue
    m = json.load(open(mp))
    total += 1
    t = title_of(d) or 'change in ' + ', '.join(os.path.basename(f) for f in m.get('files', []))
    det = ', '.join(x for x in m.get('detected_rules', []) if '!' not in x)
    if not det:
      miss += 1
      det = '**missed**'
    rows.append(f'| {name} | {t[:120]} | {det} |')
  rows.append('')
  rows.append(f'{total} confirmed changes, {total - miss} reported by at least one check, {miss} missed.')
  return '\n'.join(rows)


def benign():
  rows = ['| refactor | what it does | verdict of all 20 checks |', '|---|---|---|']
  total = bad = 0
  for name in sorted(os.listdir(os.path.join(HERE, 'benign'))):
    d = os.path.join(HERE, 'benign', name)
    mp = os.path.join(d, 'meta.json')
    if not os.path.isfile(mp):
      continue
    m = json.load(open(mp))
    total += 1
    rep = m.get('reported_by', [])
    if rep:
      bad += 1
    rows.append(f"| {name} | {title_of(d)[:120]} | {'silent' if not rep else 'REPORTED by ' + ', '.join(r.split(':!')[0] for r in rep)} |")
  rows.append('')
  rows.append(f'{total} confirmed behaviour-preserving refactors, {total - bad} silent, {bad} wrongly reported.')
  return '\n'.join(rows)


def main():
  p = os.path.join(HERE, 'DESIGN.md')
  s = open(p).read()
  for tag, fn in (('SEED-TABLE', seeds), ('BENIGN-TABLE', benign)):
    a, b = f'<!-- {tag}-BEGIN -->', f'<!-- {tag}-END -->'
    if a in s and b in s:
      s = s[:s.index(a) + len(a)] + '\n' + fn() + '\n' + s[s.index(b):]
  open(p, 'w').write(s)


if __name__ == '__main__':
  main()
