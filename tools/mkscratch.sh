#!/bin/bash
# Creates a scratch git worktree of /repo at $1 with demo-only pb2 modules and
# an equinox stub (see tools/genpb.py, tools/demo_shim).  NOT part of any check.
set -e
WT="$1"
git -C /repo worktree add --detach "$WT" HEAD -q
/venv/bin/python /verif/tools/genpb.py "$WT" >/dev/null
mkdir -p "$WT/_demo_shim"
cp /verif/tools/demo_shim/equinox.py "$WT/_demo_shim/equinox.py"
echo "$WT ready"
