"""Demo-only stub of equinox (the installed 0.11.7 does not import under jax 0.11).

NOT part of any check.  Enough for importing vizier's service, policies and
non-GP designers in scratch worktrees: Module = auto-dataclass registered as a
jax pytree; filter_* = plain jax / identity.
"""
import abc
import dataclasses
import functools
import jax


def field(*, static=False, converter=None, **kw):
  md = dict(kw.pop('metadata', {}) or {})
  md['static'] = static
  return dataclasses.field(metadata=md, **kw)


class _Meta(abc.ABCMeta):
  def __new__(mcs, name, bases, ns, **kw):
    cls = super().__new__(mcs, name, bases, ns, **kw)
    if name == 'Module' and not bases:
      return cls
    cls = dataclasses.dataclass(frozen=False, eq=False, repr=True)(cls)
    fs = dataclasses.fields(cls)
    dyn = [f.name for f in fs if not f.metadata.get('static')]
    sta = [f.name for f in fs if f.metadata.get('static')]
    def flat(x):
      return [getattr(x, n, None) for n in dyn], tuple(getattr(x, n, None) for n in sta)
    def unflat(aux, ch):
      o = object.__new__(cls)
      for n, v in zip(dyn, ch):
        object.__setattr__(o, n, v)
      for n, v in zip(sta, aux):
        object.__setattr__(o, n, v)
      return o
    try:
      jax.tree_util.register_pytree_node(cls, flat, unflat)
    except ValueError:
      pass
    return cls


class Module(metaclass=_Meta):
  pass


def filter_jit(f=None, **kw):
  if f is None:
    return lambda g: g
  return f


def filter_vmap(f=None, **kw):
  if f is None:
    return lambda g: jax.vmap(g)
  return jax.vmap(f)


def filter_value_and_grad(f=None, **kw):
  if f is None:
    return lambda g: jax.value_and_grad(g, **kw)
  return jax.value_and_grad(f, **kw)


Partial = functools.partial


def tree_pformat(x, **kw):
  return repr(x)
