#!/venv/bin/python
"""tools/mutate_benign.py <benign-name> <old-text> <new-text> <prop>...: applies a behaviour-preserving refactor
from /verif/benign as an in-memory overlay, then a textual mutation on top of it, and prints what the named
checks report that they do not report on the clean tree.  Used to confirm that a rule generalised for a
refactored form still detects breakage in that form.  NOT part of any check."""
import os
import sys

HERE = os.path.dirname(os.path.dirname(os.path.abspath(__file__)))
sys.path.insert(0, HERE)

from vzstatic import selftest  # noqa: E402
from vzstatic.__main__ import run_check  # noqa: E402
from vzstatic.source import Source  # noqa: E402


def main():
  name, old, new, props = sys.argv[1], sys.argv[2], sys.argv[3], sys.argv[4:]
  src = Source()
  overlay = selftest.apply_unified_diff(src, open(os.path.join(HERE, 'benign', name, 'patch.diff')).read()) if name != '-' else {}
  hit = 0
  for rel, text in list(overlay.items()):
    if old in text:
      overlay[rel] = text.replace(old, new)
      hit += text.count(old)
  if name == '-':
    for rel in src.py_files():
      t = src.read(rel)
      if old in t and '_test' not in rel:
        overlay[rel] = t.replace(old, new)
        hit += t.count(old)
  print(f'mutation applied at {hit} place(s)')
  for p in props:
    base = set(selftest._bad_keys(run_check(p, 'quick')))
    r = selftest._run_one((p, name, 'fires', None, overlay, base))
    print(p, r[2], r[3][:6])


if __name__ == '__main__':
  main()
