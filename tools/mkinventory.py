#!/venv/bin/python
"""Regenerates vzstatic/anchor_inventory.json from /repo's current (pinned) tree: for every non-test file that
defines a name the rules use as an anchor, the private functions (with structural signature) and the private
self-attributes (with use profile).  Consulted by vzstatic/renorm.py only when an anchor is missing.
NOT part of any check; rerun after a `fix:` commit that touches an anchor."""
import ast
import json
import os
import sys

HERE = os.path.dirname(os.path.dirname(os.path.abspath(__file__)))
sys.path.insert(0, HERE)
from vzstatic import inline, renorm  # noqa: E402
from vzstatic.source import Source  # noqa: E402

src = Source()
anch = inline.anchors()
inv = {}
for rel in src.py_files():
  tree = ast.parse(src.read(rel))
  sc = renorm.scan(tree)
  if any(k.rsplit('.', 1)[-1] in anch for k in list(sc['funcs']) + list(sc['attrs'])):
    inv[rel] = sc
json.dump(inv, open(os.path.join(HERE, 'vzstatic', 'anchor_inventory.json'), 'w'), indent=0, sort_keys=True)
print(len(inv), 'files', sum(len(v['funcs']) + len(v['attrs']) for v in inv.values()), 'names')
