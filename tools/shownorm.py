#!/venv/bin/python
"""tools/shownorm.py <benign/seeded name or -> <repo file> <function name>: prints the normalised (renamed, inlined,
unrolled, scalar-replaced) source of one function as the rules see it.  Debugging aid."""
import ast
import os
import sys
HERE = os.path.dirname(os.path.dirname(os.path.abspath(__file__)))
sys.path.insert(0, HERE)
from vzstatic import selftest  # noqa: E402
from vzstatic.source import Source  # noqa: E402
name, rel, fn = sys.argv[1:4]
ov = {}
if name != '-':
  kind = 'benign' if '-b' in name else 'seeded'
  ov = selftest.apply_unified_diff(Source(), open(f'{HERE}/{kind}/{name}/patch.diff').read())
tree = Source(overlay=ov).parse(rel)
for x in ast.walk(tree):
  if isinstance(x, ast.FunctionDef) and x.name == fn:
    print(ast.unparse(x))
