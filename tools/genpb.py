#!/venv/bin/python
"""Generates *_pb2.py / *_pb2_grpc.py for a scratch worktree WITHOUT protoc.

NOT part of any check.  The sandbox has neither protoc nor grpc_tools, so the
service code cannot be imported.  This helper builds FileDescriptorProtos from
vzstatic's own .proto parser and writes loader modules, so that *demonstrations
of seeded changes* can be executed in scratch worktrees (never in /repo).

usage: genpb.py <worktree root>
"""

import os
import sys

sys.path.insert(0, os.path.dirname(os.path.dirname(os.path.abspath(__file__))))

from google.protobuf import descriptor_pb2  # noqa: E402

from vzstatic import protoschema  # noqa: E402
from vzstatic.source import Source  # noqa: E402

FD = descriptor_pb2.FieldDescriptorProto
SCALAR = {
    'double': FD.TYPE_DOUBLE, 'float': FD.TYPE_FLOAT, 'int32': FD.TYPE_INT32,
    'int64': FD.TYPE_INT64, 'uint32': FD.TYPE_UINT32, 'uint64': FD.TYPE_UINT64,
    'bool': FD.TYPE_BOOL, 'string': FD.TYPE_STRING, 'bytes': FD.TYPE_BYTES,
}
DEP_FILES = {
    'google.protobuf.Timestamp': ('google/protobuf/timestamp.proto', 'google.protobuf', 'timestamp_pb2'),
    'google.protobuf.Duration': ('google/protobuf/duration.proto', 'google.protobuf', 'duration_pb2'),
    'google.protobuf.DoubleValue': ('google/protobuf/wrappers.proto', 'google.protobuf', 'wrappers_pb2'),
    'google.protobuf.Int64Value': ('google/protobuf/wrappers.proto', 'google.protobuf', 'wrappers_pb2'),
    'google.protobuf.StringValue': ('google/protobuf/wrappers.proto', 'google.protobuf', 'wrappers_pb2'),
    'google.protobuf.Any': ('google/protobuf/any.proto', 'google.protobuf', 'any_pb2'),
    'google.protobuf.Empty': ('google/protobuf/empty.proto', 'google.protobuf', 'empty_pb2'),
    'google.protobuf.Value': ('google/protobuf/struct.proto', 'google.protobuf', 'struct_pb2'),
    'google.longrunning.Operation': ('google/longrunning/operations.proto', 'google.longrunning', 'operations_pb2'),
    'google.longrunning.GetOperationRequest': ('google/longrunning/operations.proto', 'google.longrunning', 'operations_pb2'),
}


def build_message(schema, m, deps, local_files, this_file):
  dp = descriptor_pb2.DescriptorProto(name=m.full_name.rsplit('.', 1)[1])
  oneof_index = {}
  for oname in m.oneofs:
    oneof_index[oname] = len(dp.oneof_decl)
    dp.oneof_decl.add(name=oname)
  synthetic = []
  for f in m.fields.values():
    fd = dp.field.add(name=f.name, number=f.number)
    fd.label = FD.LABEL_REPEATED if f.repeated else FD.LABEL_OPTIONAL
    if f.type in SCALAR:
      fd.type = SCALAR[f.type]
    elif f.type in schema.enums:
      fd.type = FD.TYPE_ENUM
      fd.type_name = '.' + f.type
    else:
      fd.type = FD.TYPE_MESSAGE
      fd.type_name = '.' + f.type
    if fd.type_name:
      t = f.type
      if t in DEP_FILES:
        deps.add(DEP_FILES[t])
      else:
        owner = schema.messages.get(t)
        # enum: find the file of the enclosing message
        fname = owner.file if owner else None
        if fname is None:
          for mm in schema.messages.values():
            if t in [e.full_name for e in mm.enums.values()]:
              fname = mm.file
        if fname and fname != this_file and fname != '<well-known>':
          local_files.add(os.path.basename(fname))
    if f.oneof:
      fd.oneof_index = oneof_index[f.oneof]
    if f.optional:
      synthetic.append(fd)
    fd.json_name = ''.join(p if i == 0 else p.capitalize() for i, p in enumerate(f.name.split('_')))
  for fd in synthetic:
    fd.proto3_optional = True
    fd.oneof_index = len(dp.oneof_decl)
    dp.oneof_decl.add(name='_' + fd.name)
  for e in m.enums.values():
    ed = dp.enum_type.add(name=e.full_name.rsplit('.', 1)[1])
    for k, v in e.values.items():
      ed.value.add(name=k, number=v)
  for s in m.nested.values():
    dp.nested_type.append(build_message(schema, s, deps, local_files, this_file))
  return dp


def main(root):
  src = Source(root=root)
  schema = protoschema.Schema(src)
  outdir = os.path.join(root, protoschema.PROTO_DIR)
  for fn in protoschema.PROTO_FILES:
    p = schema.files[fn]
    rel = f'{protoschema.PROTO_DIR}/{fn}'
    fdp = descriptor_pb2.FileDescriptorProto(name=fn, package=p.package, syntax='proto3')
    deps, local_files = set(), set()
    for m in p.messages.values():
      fdp.message_type.append(build_message(schema, m, deps, local_files, rel))
    for e in p.enums.values():
      ed = fdp.enum_type.add(name=e.full_name.rsplit('.', 1)[1])
      for k, v in e.values.items():
        ed.value.add(name=k, number=v)
    for s in p.services.values():
      sd = fdp.service.add(name=s.name)
      for r in s.rpcs.values():
        def full(t):
          if t.startswith('google.'):
            deps.add(DEP_FILES[t])
            return '.' + t
          owner = schema.messages[f'vizier.{t}']
          if owner.file != rel:
            local_files.add(os.path.basename(owner.file))
          return f'.vizier.{t}'
        sd.method.add(name=r.name, input_type=full(r.request), output_type=full(r.response))
    for d in sorted(deps):
      fdp.dependency.append(d[0])
    for lf in sorted(local_files):
      fdp.dependency.append(lf)
    base = fn[:-len('.proto')]
    lines = [
        '# Generated by /verif/tools/genpb.py (no protoc in this sandbox). DO NOT COMMIT.',
        'from google.protobuf import descriptor_pool as _descriptor_pool',
        'from google.protobuf import symbol_database as _symbol_database',
        'from google.protobuf.internal import builder as _builder',
    ]
    for d in sorted(deps):
      lines.append(f'from {d[1]} import {d[2]}  # noqa')
    for lf in sorted(local_files):
      lines.append(f'from vizier._src.service import {lf[:-6]}_pb2  # noqa')
    lines += [
        '_sym_db = _symbol_database.Default()',
        f'DESCRIPTOR = _descriptor_pool.Default().AddSerializedFile({fdp.SerializeToString()!r})',
        '_globals = globals()',
        '_builder.BuildMessageAndEnumDescriptors(DESCRIPTOR, _globals)',
        f"_builder.BuildTopDescriptorsAndMessages(DESCRIPTOR, '{base}_pb2', _globals)",
        '',
    ]
    with open(os.path.join(outdir, f'{base}_pb2.py'), 'w') as f:
      f.write('\n'.join(lines))
    # grpc module
    g = ['# Generated by /verif/tools/genpb.py. DO NOT COMMIT.', 'import grpc']
    mods = set()

    def pyref(t):
      if t.startswith('google.'):
        d = DEP_FILES[t]
        mods.add(f'from {d[1]} import {d[2]}')
        return f"{d[2]}.{t.rsplit('.', 1)[1]}"
      owner = schema.messages[f'vizier.{t}']
      ob = os.path.basename(owner.file)[:-6]
      mods.add(f'from vizier._src.service import {ob}_pb2')
      return f'{ob}_pb2.{t}'

    body = []
    for s in p.services.values():
      body.append(f'\n\nclass {s.name}Stub(object):\n  def __init__(self, channel):')
      for r in s.rpcs.values():
        body.append(
            f"    self.{r.name} = channel.unary_unary('/{p.package}.{s.name}/{r.name}', "
            f'request_serializer={pyref(r.request)}.SerializeToString, '
            f'response_deserializer={pyref(r.response)}.FromString)')
      body.append(f'\n\nclass {s.name}Servicer(object):')
      for r in s.rpcs.values():
        body.append(
            f'  def {r.name}(self, request, context):\n'
            f'    context.set_code(grpc.StatusCode.UNIMPLEMENTED)\n'
            f"    context.set_details('Method not implemented!')\n"
            f"    raise NotImplementedError('Method not implemented!')")
      body.append(f'\n\ndef add_{s.name}Servicer_to_server(servicer, server):\n  rpc_method_handlers = {{')
      for r in s.rpcs.values():
        body.append(
            f"    '{r.name}': grpc.unary_unary_rpc_method_handler(servicer.{r.name}, "
            f'request_deserializer={pyref(r.request)}.FromString, '
            f'response_serializer={pyref(r.response)}.SerializeToString),')
      body.append('  }')
      body.append(
          f"  generic_handler = grpc.method_handlers_generic_handler('{p.package}.{s.name}', rpc_method_handlers)\n"
          f'  server.add_generic_rpc_handlers((generic_handler,))')
    g.extend(sorted(mods))
    g.extend(body)
    with open(os.path.join(outdir, f'{base}_pb2_grpc.py'), 'w') as f:
      f.write('\n'.join(g) + '\n')
  print('generated pb2 modules in', outdir)


if __name__ == '__main__':
  main(sys.argv[1])
