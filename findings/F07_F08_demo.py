"""F07 / F08 witnesses (RAM vs SQL divergence).

  cd <wt> && PYTHONPATH=<wt>:<wt>/_demo_shim /venv/bin/python /verif/findings/F07_F08_demo.py
F07: UpdateMetadata naming a missing trial must report an error and change
     nothing on both backends.
F08: DeleteStudy + CreateStudy of the same name must start from scratch on
     both backends (operation numbering, no stale operations).
Exit 1 if either diverges.
"""
import sys
from vizier._src.service import vizier_service, vizier_service_pb2, study_pb2, key_value_pb2, constants
from vizier.service import pyvizier as vz

def mk(url):
  s = vizier_service.VizierServicer(database_url=url)
  cfg = vz.StudyConfig(algorithm='RANDOM_SEARCH')
  cfg.search_space.root.add_float_param('x', 0.0, 1.0)
  cfg.metric_information.append(vz.MetricInformation(name='m', goal=vz.ObjectiveMetricGoal.MAXIMIZE))
  def create():
    return s.CreateStudy(vizier_service_pb2.CreateStudyRequest(
        parent='owners/o', study=study_pb2.Study(display_name='s', study_spec=cfg.to_proto())))
  return s, create

bad = False
out = {}
for label, url in (('ram', None), ('sql', constants.SQL_MEMORY_URL)):
  s, create = mk(url)
  st = create()
  s.CreateTrial(vizier_service_pb2.CreateTrialRequest(parent=st.name, trial=study_pb2.Trial()))
  # F07
  delta = [vizier_service_pb2.UnitMetadataUpdate(metadatum=key_value_pb2.KeyValue(key='a', ns='', value='1')),
           vizier_service_pb2.UnitMetadataUpdate(trial_id='99', metadatum=key_value_pb2.KeyValue(key='b', ns='', value='2'))]
  try:
    r = s.UpdateMetadata(vizier_service_pb2.UpdateMetadataRequest(name=st.name, delta=delta))
    res = 'error_details' if r.error_details else 'OK(no error!)'
  except Exception as e:  # noqa
    res = 'raised ' + type(e).__name__
  md = [(k.key, k.value) for k in s.GetStudy(vizier_service_pb2.GetStudyRequest(name=st.name)).study_spec.metadata]
  out[label] = [res, md]
  # F08
  op1 = s.SuggestTrials(vizier_service_pb2.SuggestTrialsRequest(parent=st.name, suggestion_count=1, client_id='w'))
  s.DeleteStudy(vizier_service_pb2.DeleteStudyRequest(name=st.name))
  st = create()
  op2 = s.SuggestTrials(vizier_service_pb2.SuggestTrialsRequest(parent=st.name, suggestion_count=1, client_id='w'))
  out[label] += [op1.name.rsplit('/', 1)[-1], op2.name.rsplit('/', 1)[-1]]
  print(label, out[label])
if out['ram'] != out['sql']:
  print('DEFECT: backends diverge'); bad = True
if out['ram'][0] != 'error_details' or out['ram'][1]:
  print('DEFECT (F07): failed metadata update on RAM was not reported cleanly or was applied partially'); bad = True
if out['sql'][3] != out['sql'][2]:
  print('DEFECT (F08): SQL operation numbering continues after delete + re-create'); bad = True
sys.exit(1 if bad else 0)
