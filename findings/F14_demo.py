"""F14 witness: a completed trial whose objective is NaN is always reported optimal.

  cd <wt> && PYTHONPATH=<wt>:<wt>/_demo_shim /venv/bin/python /verif/findings/F14_demo.py
"""
import sys
from vizier._src.service import vizier_service, vizier_service_pb2, study_pb2
from vizier.service import pyvizier as vz
s = vizier_service.VizierServicer(database_url=None)
cfg = vz.StudyConfig(algorithm='RANDOM_SEARCH')
cfg.search_space.root.add_float_param('x', 0.0, 1.0)
cfg.metric_information.append(vz.MetricInformation(name='m', goal=vz.ObjectiveMetricGoal.MAXIMIZE))
st = s.CreateStudy(vizier_service_pb2.CreateStudyRequest(parent='owners/o', study=study_pb2.Study(display_name='s', study_spec=cfg.to_proto())))
for v in (1.0, float('nan'), 3.0):
  t = study_pb2.Trial(state=study_pb2.Trial.State.SUCCEEDED)
  t.final_measurement.metrics.add(metric_id='m', value=v)
  s.CreateTrial(vizier_service_pb2.CreateTrialRequest(parent=st.name, trial=t))
opt = s.ListOptimalTrials(vizier_service_pb2.ListOptimalTrialsRequest(parent=st.name)).optimal_trials
vals = [t.final_measurement.metrics[0].value for t in opt]
print('optimal objective values:', vals)
sys.exit(0 if vals == [3.0] else 1)
