"""F01 witness: over a real gRPC server, a failed guard does not stop the RPC.

Run in a scratch worktree prepared by tools/mkscratch.sh:
  cd <wt> && PYTHONPATH=<wt>:<wt>/_demo_shim /venv/bin/python /verif/findings/F01_demo.py
Exits 1 on the pinned tree (completed trial overwritten), 0 after the fix.
"""
import sys
import grpc
from vizier._src.service import vizier_server, vizier_service_pb2, study_pb2, stubs_util

server = vizier_server.DefaultVizierServer(database_url=None)
stub = stubs_util.create_vizier_server_stub(server.endpoint)
study = study_pb2.Study(display_name='s')
study = stub.CreateStudy(vizier_service_pb2.CreateStudyRequest(parent='owners/o', study=study))
t = stub.CreateTrial(vizier_service_pb2.CreateTrialRequest(parent=study.name, trial=study_pb2.Trial()))
# REQUESTED trial: completing it is illegal.
m = study_pb2.Measurement(metrics=[study_pb2.Measurement.Metric(metric_id='x', value=1.0)])
code = None
try:
  stub.CompleteTrial(vizier_service_pb2.CompleteTrialRequest(name=t.name, final_measurement=m))
except grpc.RpcError as e:
  code = e.code()
after = stub.GetTrial(vizier_service_pb2.GetTrialRequest(name=t.name))
print('status code seen by client:', code)
print('stored state after the failed call:', study_pb2.Trial.State.Name(after.state))
if after.state != study_pb2.Trial.State.REQUESTED:
  print('DEFECT: the illegal CompleteTrial was reported as failed but was applied')
  sys.exit(1)
print('ok: failed call left the trial unchanged')
