"""F10 / F11 / F22 witnesses (wire-format round trips).

  cd <wt> && PYTHONPATH=<wt>:<wt>/_demo_shim /venv/bin/python /verif/findings/F10_F11_F22_demo.py
F10: a falsy default value (0.0 / 0 / '') is dropped by ParameterConfigConverter.from_proto.
F11: fractional elapsed_secs of a Measurement is truncated (nanos written, never read).
F22: conditional children at depth >= 2 are lost by ParameterConfigConverter.to_proto.
"""
import sys
from vizier import pyvizier as vz
from vizier._src.pyvizier.oss import proto_converters as pc

bad = []
p = vz.ParameterConfig.factory('x', bounds=(-1.0, 1.0), default_value=0.0)
back = pc.ParameterConfigConverter.from_proto(pc.ParameterConfigConverter.to_proto(p))
print('F10 default_value:', p.default_value, '->', back.default_value)
if back.default_value != 0.0: bad.append('F10')

m = vz.Measurement(metrics={'a': 1.0}, elapsed_secs=1.5, steps=3)
mb = pc.MeasurementConverter.from_proto(pc.MeasurementConverter.to_proto(m))
print('F11 elapsed_secs:', m.elapsed_secs, '->', mb.elapsed_secs)
if mb.elapsed_secs != 1.5: bad.append('F11')

grand = vz.ParameterConfig.factory('g', bounds=(0.0, 1.0))
child = vz.ParameterConfig.factory('c', feasible_values=['u', 'v'], children=[(['u'], grand)])
root = vz.ParameterConfig.factory('r', feasible_values=['a', 'b'], children=[(['a'], child)])
proto = pc.ParameterConfigConverter.to_proto(root)
rb = pc.ParameterConfigConverter.from_proto(proto)
depth2 = [gc.name for c in rb.child_parameter_configs for gc in c.child_parameter_configs]
print('F22 grandchildren after round trip:', depth2)
if depth2 != ['g']: bad.append('F22')
print('DEFECTS:', bad)
sys.exit(1 if bad else 0)
