"""F20 witness: two infeasible-experimenter wrappers return their problem statement by reference.

  cd <wt> && PYTHONPATH=<wt>:<wt>/_demo_shim /venv/bin/python /verif/findings/F20_demo.py
"""
import sys
from vizier import pyvizier as vz
from vizier._src.benchmarks.experimenters import infeasible_experimenter, numpy_experimenter
import numpy as np
p = vz.ProblemStatement()
p.search_space.root.add_float_param('x', 0.0, 1.0)
p.metric_information.append(vz.MetricInformation(name='m', goal=vz.ObjectiveMetricGoal.MAXIMIZE))
base = numpy_experimenter.NumpyExperimenter(lambda a: float(np.sum(a)), p)
bad = []
for e in (infeasible_experimenter.HashingInfeasibleExperimenter(base, infeasible_prob=0.1, seed=0),
          infeasible_experimenter.ParamRegionInfeasibleExperimenter(base, 'x')):
  ps = e.problem_statement()
  ps.metric_information.item().goal = vz.ObjectiveMetricGoal.MINIMIZE   # caller edits its copy
  after = e.problem_statement().metric_information.item().goal
  print(type(e).__name__, 'goal seen by the next caller:', after)
  if after != vz.ObjectiveMetricGoal.MAXIMIZE: bad.append(type(e).__name__)
sys.exit(1 if bad else 0)
