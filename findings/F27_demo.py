"""Witness for F27: HyperCubeExperimenter loses the infeasibility of the wrapped experimenter's evaluation."""
import numpy as np
from vizier import pyvizier as vz
from vizier._src.benchmarks.experimenters import numpy_experimenter, normalizing_experimenter, infeasible_experimenter
from vizier._src.benchmarks.experimenters.synthetic import bbob

dim = 2
base = numpy_experimenter.NumpyExperimenter(bbob.Sphere, bbob.DefaultBBOBProblemStatement(dim))
infeasible = infeasible_experimenter.HashingInfeasibleExperimenter(base, infeasible_prob=1.0, seed=0)
cube = normalizing_experimenter.HyperCubeExperimenter(infeasible)
t_direct = vz.Trial(parameters={'x0': 1.0, 'x1': 2.0})
infeasible.evaluate([t_direct])
t_cube = vz.Trial(parameters={'x0': 0.6, 'x1': 0.7})
cube.evaluate([t_cube])
print('direct: infeasible =', t_direct.infeasible, 'status', t_direct.status)
print('through HyperCube: infeasible =', t_cube.infeasible, 'status', t_cube.status, 'final_measurement', t_cube.final_measurement)
import sys
sys.exit(0 if (t_direct.infeasible and t_cube.infeasible) else 1)
