"""F18 witness: an out-of-bounds default value of a DOUBLE parameter becomes a suggestion.

  cd <wt> && PYTHONPATH=<wt>:<wt>/_demo_shim /venv/bin/python /verif/findings/F18_demo.py
get_subspace_deepcopy ("Validates the feasibility of value") returned early for
continuous parameters, so SequentialParameterBuilder / get_default_parameters
never validated the value. Exit 1 if an out-of-domain default is handed out.
"""
import sys
from vizier import pyvizier as vz
from vizier._src.pythia import suggest_default
space = vz.SearchSpace()
space.root.add_float_param('x', 0.0, 1.0, default_value=5.0)
try:
  params = suggest_default.get_default_parameters(space)
  print('default suggestion:', dict(params.as_dict()), 'contained in space:', space.contains(params))
  sys.exit(0 if space.contains(params) else 1)
except ValueError as e:
  print('refused:', e)
  sys.exit(0)
