"""F13 witness: Namespace.encode is not injective (backslash is not escaped).

  PYTHONPATH=/repo /venv/bin/python /verif/findings/F13_demo.py    (imports only common.py)
The pinned test common_test.MetadataNamespaceTest.test_escape fixes the format
(a backslash not followed by ':' must be emitted as is), so an escape of the
escape character cannot be introduced without editing that test.
"""
import sys
from vizier._src.pyvizier.shared import common
a = common.Namespace(('a\\', 'b'))
b = common.Namespace(('a:b',))
print(repr(a.encode()), repr(b.encode()), 'decode(encode(a)) =', tuple(common.Namespace.decode(a.encode())))
sys.exit(1 if a.encode() == b.encode() and a != b else 0)
