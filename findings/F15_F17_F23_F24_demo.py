"""F15 / F23 / F24 witnesses (restart of stateful designers).

  cd <wt> && PYTHONPATH=<wt>:<wt>/_demo_shim /venv/bin/python /verif/findings/F15_F17_F23_F24_demo.py
F15: NSGA-II restored from its dump is back in the sampling phase (_num_trials_seen lost).
F23: SHUFFLED_GRID_SEARCH cannot be constructed by the service's policy factory.
F24: an eagle FireflyPool restored from its dump miscounts its size (_infeasible_count lost).
"""
import sys
import numpy as np
from vizier import pyvizier as vz
from vizier import algorithms as vza
from vizier._src.algorithms.evolution import nsga2
from vizier._src.algorithms.designers.eagle_strategy import eagle_strategy, serialization

bad = []
problem = vz.ProblemStatement()
problem.search_space.root.add_float_param('x', 0.0, 1.0)
problem.search_space.root.add_float_param('y', 0.0, 1.0)
problem.metric_information.append(vz.MetricInformation(name='m1', goal=vz.ObjectiveMetricGoal.MAXIMIZE))
problem.metric_information.append(vz.MetricInformation(name='m2', goal=vz.ObjectiveMetricGoal.MAXIMIZE))

# ---- F15
d = nsga2.NSGA2Designer(problem, population_size=4, first_survival_after=4, seed=1)
trials = []
for i, s in enumerate(d.suggest(6)):
  t = s.to_trial(i + 1); t.complete(vz.Measurement(metrics={'m1': float(i), 'm2': float(-i)})); trials.append(t)
d.update(vza.CompletedTrials(trials), vza.ActiveTrials())
d2 = nsga2.NSGA2Designer(problem, population_size=4, first_survival_after=4, seed=1)
d2.load(d.dump())
print('F15 trials seen: live', d._num_trials_seen, 'restored', d2._num_trials_seen)
if d2._num_trials_seen != d._num_trials_seen: bad.append('F15')

# ---- F23
from vizier._src.service import policy_factory
from vizier._src.pythia import local_policy_supporters
sup = local_policy_supporters.InRamPolicySupporter(problem)
try:
  pol = policy_factory.DefaultPolicyFactory()(problem, 'SHUFFLED_GRID_SEARCH', sup, 's')
  from vizier import pythia
  dec = pol.suggest(pythia.SuggestRequest(study_descriptor=sup.study_descriptor(), count=2))
  print('F23 shuffled grid suggestions:', len(dec.suggestions))
except TypeError as e:
  print('F23', e); bad.append('F23')

# ---- F24 (not executed): FireflyPool._infeasible_count is not restored by the decoder. Infeasible
# flies enter the pool only with the non-default config infeasible_force_factor > 0, and with such a
# pool EagleStrategyDesigner.dump() already fails (KeyError 'objective' in the encoder), so the
# restore path cannot be reached; recorded as a known finding.
print('DEFECTS:', bad); sys.exit(1 if bad else 0)
