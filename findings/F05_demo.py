"""F05 witness: SuggestTrials and CreateTrial allocate trial ids under different locks.

Run in a scratch worktree (tools/mkscratch.sh):
  cd <wt> && PYTHONPATH=<wt>:<wt>/_demo_shim /venv/bin/python /verif/findings/F05_demo.py
Exit 1 on the tree without the fix (two creators read the same max id; the
loser's create_trial raises AlreadyExistsError inside SuggestTrials, whose
operation stays done=False), exit 0 with it.
"""
import sys
import threading
from vizier._src.service import vizier_service, vizier_service_pb2, study_pb2
from vizier.service import pyvizier as vz

servicer = vizier_service.VizierServicer(database_url=None)
cfg = vz.StudyConfig(algorithm='RANDOM_SEARCH')
cfg.search_space.root.add_float_param('x', 0.0, 1.0)
cfg.metric_information.append(vz.MetricInformation(name='m', goal=vz.ObjectiveMetricGoal.MAXIMIZE))
study = servicer.CreateStudy(vizier_service_pb2.CreateStudyRequest(
    parent='owners/o', study=study_pb2.Study(display_name='s', study_spec=cfg.to_proto())))

ds = servicer.datastore
orig_max = ds.max_trial_id
paused = threading.Event()
resume = threading.Event()
state = {'armed': True}

def hooked_max(name):
  v = orig_max(name)
  if threading.current_thread().name == 'suggester' and state['armed'] and \
      sys._getframe(1).f_code.co_name == 'SuggestTrials' and sys._getframe(1).f_lineno > 430:
    state['armed'] = False
    paused.set()
    resume.wait(5)
  return v
ds.max_trial_id = hooked_max

result = {}
def suggest():
  try:
    result['op'] = servicer.SuggestTrials(vizier_service_pb2.SuggestTrialsRequest(
        parent=study.name, suggestion_count=1, client_id='w'))
  except Exception as e:  # noqa
    result['exc'] = e
t = threading.Thread(target=suggest, name='suggester')
t.start()
if not paused.wait(20):
  print('could not pause SuggestTrials at its id allocation'); sys.exit(2)
# SuggestTrials has read max id and not created yet: run a full CreateTrial now.
done = {}
def create():
  done['trial'] = servicer.CreateTrial(vizier_service_pb2.CreateTrialRequest(
      parent=study.name, trial=study_pb2.Trial()))
c = threading.Thread(target=create); c.start(); c.join(2)
blocked = c.is_alive()   # with the fix CreateTrial waits for the study lock
resume.set(); t.join(20); c.join(20)
trials = servicer.ListTrials(vizier_service_pb2.ListTrialsRequest(parent=study.name)).trials
ids = sorted(x.id for x in trials)
print('CreateTrial blocked until SuggestTrials finished its allocation:', blocked)
print('trial ids stored:', ids, ' SuggestTrials raised:', repr(result.get('exc')))
ops = ds.list_suggestion_operations(study.name, 'w')
print('suggestion operations done flags:', [o.done for o in ops])
if 'exc' in result or len(ids) != len(set(ids)) or len(ids) != 2 or not all(o.done for o in ops):
  print('DEFECT: concurrent SuggestTrials/CreateTrial collided on a trial id')
  sys.exit(1)
print('ok')
