"""F19 witness: TransformToGaussian(use_rank=True) uses argsort as if it were a rank.

  cd <wt> && PYTHONPATH=<wt>:<wt>/_demo_shim /venv/bin/python /verif/findings/F19_demo.py
argsort([3,1,2]) == [1,2,0]: the warped labels do not follow the order of the
observed values (order of two observed values is reversed). Exit 1 if so.
"""
import sys
import numpy as np
from vizier._src.algorithms.designers.gp import output_warpers as ow
labels = np.array([[3.0], [1.0], [2.0], [10.0]])
w = ow.TransformToGaussian(use_rank=True).warp(labels).flatten()
print('labels', labels.flatten(), '-> warped', np.round(w, 3))
ok = all((labels[i, 0] < labels[j, 0]) == (w[i] < w[j]) for i in range(4) for j in range(4) if i != j)
print('order preserved:', ok)
sys.exit(0 if ok else 1)
