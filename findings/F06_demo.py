"""F06 witness: metadata merges are not serialised with whole-row trial updates.

  cd <wt> && PYTHONPATH=<wt>:<wt>/_demo_shim /venv/bin/python /verif/findings/F06_demo.py
CompleteTrial is paused between its get_trial and update_trial; UpdateMetadata
(trial metadata) runs to completion; CompleteTrial then writes the whole row
back. Exit 1 if the acknowledged metadata is gone, 0 otherwise.
"""
import sys
import threading
from vizier._src.service import vizier_service, vizier_service_pb2, study_pb2, key_value_pb2
from vizier.service import pyvizier as vz

servicer = vizier_service.VizierServicer(database_url=None)
cfg = vz.StudyConfig(algorithm='RANDOM_SEARCH')
cfg.search_space.root.add_float_param('x', 0.0, 1.0)
cfg.metric_information.append(vz.MetricInformation(name='m', goal=vz.ObjectiveMetricGoal.MAXIMIZE))
study = servicer.CreateStudy(vizier_service_pb2.CreateStudyRequest(
    parent='owners/o', study=study_pb2.Study(display_name='s', study_spec=cfg.to_proto())))
op = servicer.SuggestTrials(vizier_service_pb2.SuggestTrialsRequest(parent=study.name, suggestion_count=1, client_id='w'))
trial = vizier_service_pb2.SuggestTrialsResponse.FromString(op.response.value).trials[0]

ds = servicer.datastore
orig_update = ds.update_trial
paused, resume = threading.Event(), threading.Event()
def hooked(t):
  if threading.current_thread().name == 'completer':
    paused.set(); resume.wait(5)
  return orig_update(t)
ds.update_trial = hooked

m = study_pb2.Measurement(metrics=[study_pb2.Measurement.Metric(metric_id='m', value=1.0)])
t = threading.Thread(name='completer', target=lambda: servicer.CompleteTrial(
    vizier_service_pb2.CompleteTrialRequest(name=trial.name, final_measurement=m)))
t.start()
assert paused.wait(10)
resp = {}
def upd():
  resp['r'] = servicer.UpdateMetadata(vizier_service_pb2.UpdateMetadataRequest(
      name=study.name, delta=[vizier_service_pb2.UnitMetadataUpdate(
          trial_id=trial.id, metadatum=key_value_pb2.KeyValue(key='k', ns='', value='v'))]))
u = threading.Thread(target=upd); u.start(); u.join(2)
blocked = u.is_alive()
resume.set(); t.join(10); u.join(10)
stored = servicer.GetTrial(vizier_service_pb2.GetTrialRequest(name=trial.name))
print('UpdateMetadata waited for CompleteTrial:', blocked, ' response error_details:', repr(resp['r'].error_details))
print('stored state:', study_pb2.Trial.State.Name(stored.state), ' metadata:', [(k.key, k.value) for k in stored.metadata])
if not any(k.key == 'k' and k.value == 'v' for k in stored.metadata):
  print('DEFECT: UpdateMetadata was acknowledged but its entry was overwritten by CompleteTrial (lost update)')
  sys.exit(1)
print('ok')
