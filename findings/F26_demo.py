"""F26 witness: HalfRankComponent.warp of a single label leaves the inverse of an earlier call in place.

  cd <wt> && PYTHONPATH=<wt>:<wt>/_demo_shim /venv/bin/python /verif/findings/F26_demo.py
warp() returns a one-element array unchanged without touching self._unwarper, so
unwarp(warp([1.5])) on a component that warped [1,2,3,10] before gives 2.316..., and on
a fresh component it raises "warp() needs to be called" although warp() was called.
Exit 1 if un-warping the warped value does not return the original value.
"""
import sys
import numpy as np
from vizier._src.algorithms.designers.gp import output_warpers as ow
ok = True
h = ow.HalfRankComponent()
h.warp(np.array([[1.0], [2.0], [3.0], [10.0]]))
b = np.array([[1.5]])
back = h.unwarp(h.warp(b)).flatten()
print('reused component: unwarp(warp([1.5])) =', back)
ok &= bool(np.allclose(back, [1.5]))
try:
  h2 = ow.HalfRankComponent()
  back2 = h2.unwarp(h2.warp(b)).flatten()
  print('fresh component : unwarp(warp([1.5])) =', back2)
  ok &= bool(np.allclose(back2, [1.5]))
except ValueError as e:
  print('fresh component : unwarp raised', e)
  ok = False
sys.exit(0 if ok else 1)
