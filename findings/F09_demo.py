"""F09 witness: Study.get_trial on a missing trial, local vs gRPC deployment.

  cd <wt> && PYTHONPATH=<wt>:<wt>/_demo_shim /venv/bin/python /verif/findings/F09_demo.py
client_abc promises ResourceNotFoundError. Exit 1 if the two deployments raise
different classes.
"""
import sys
from vizier._src.service import clients, vizier_server, constants
from vizier.service import pyvizier as vz

def run():
  cfg = vz.StudyConfig(algorithm='RANDOM_SEARCH')
  cfg.search_space.root.add_float_param('x', 0.0, 1.0)
  cfg.metric_information.append(vz.MetricInformation(name='m', goal=vz.ObjectiveMetricGoal.MAXIMIZE))
  study = clients.Study.from_study_config(cfg, owner='o', study_id='s')
  try:
    study.get_trial(99)
    return 'no error'
  except Exception as e:  # noqa
    return type(e).__name__

clients.environment_variables.servicer_kwargs['database_url'] = None
local = run()
server = vizier_server.DefaultVizierServer(database_url=None)
clients.environment_variables.server_endpoint = server.endpoint
remote = run()
print('in-process:', local, ' gRPC:', remote)
sys.exit(0 if local == remote == 'ResourceNotFoundError' else 1)
