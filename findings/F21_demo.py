"""F21 witness: BOCS / Harmonica accept a boolean parameter restricted to one value
and can then suggest the other (infeasible) one.

  cd <wt> && PYTHONPATH=<wt>:<wt>/_demo_shim /venv/bin/python /verif/findings/F21_demo.py
Exit 1 if a designer accepts the space (and, where it runs, suggests outside it).
"""
import sys
from vizier import pyvizier as vz
from vizier import algorithms as vza
bad = []
for modname, clsname in (('bocs', 'BOCSDesigner'), ('harmonica', 'HarmonicaDesigner')):
  mod = __import__(f'vizier._src.algorithms.designers.{modname}', fromlist=[clsname])
  problem = vz.ProblemStatement()
  problem.search_space.root.add_bool_param('a', feasible_values=[True])
  problem.search_space.root.add_bool_param('b')
  problem.metric_information.append(vz.MetricInformation(name='m', goal=vz.ObjectiveMetricGoal.MAXIMIZE))
  try:
    d = getattr(mod, clsname)(problem)
  except ValueError as e:
    print(clsname, 'refused:', e)
    continue
  print(clsname, 'accepted a boolean parameter whose only feasible value is True')
  bad.append(clsname)
  try:
    trials = []
    for i in range(12):
      s = d.suggest(1)[0]
      ok = problem.search_space.contains(s.parameters)
      if not ok:
        print('  out-of-domain suggestion:', s.parameters.as_dict()); break
      t = s.to_trial(i + 1); t.complete(vz.Measurement(metrics={'m': float(i % 3)})); trials.append(t)
      d.update(vza.CompletedTrials([t]), vza.ActiveTrials())
  except Exception as e:  # the optimiser stack may not run in every sandbox
    print('  (suggest loop not runnable here:', type(e).__name__, str(e)[:80], ')')
sys.exit(1 if bad else 0)
