"""F25 witness: the vectorised optimiser can return a result strictly worse than the best
prior point it was seeded with (C19: "never returns a result worse than the best of the
prior points").  The best-results table is initialised with -inf and only ever merged
with freshly suggested batches; prior features go to the strategy only (random strategy:
dropped; eagle: used to seed the pool).

  cd <wt> && PYTHONPATH=<wt>:<wt>/_demo_shim /venv/bin/python /verif/findings/F25_demo.py
Exit 1 if the returned best reward is below the score of the best prior point.
"""
import sys
import jax
import jax.numpy as jnp
import numpy as np
from vizier import pyvizier as vz
from vizier._src.algorithms.optimizers import eagle_strategy as es
from vizier._src.algorithms.optimizers import random_vectorized_optimizer as rvo
from vizier._src.algorithms.optimizers import vectorized_base as vb
from vizier.pyvizier import converters

problem = vz.ProblemStatement()
for i in range(3):
  problem.search_space.root.add_float_param(f'x{i}', 0.0, 1.0)
problem.metric_information.append(vz.MetricInformation(name='m', goal=vz.ObjectiveMetricGoal.MAXIMIZE))
converter = converters.TrialToModelInputConverter.from_problem(problem)

peak = jnp.array([0.123456, 0.654321, 0.333333])
def score_fn(x, seed=None):  # a needle: 1 at the prior point, 0 elsewhere
  d = jnp.max(jnp.abs(x.continuous.padded_array[..., :3] - peak), axis=-1)
  return jnp.where(d < 1e-7, 1.0, 0.0)

pt = vz.Trial(parameters={f'x{i}': float(peak[i]) for i in range(3)})
pf = converter.to_features([pt])  # ModelInput of PaddedArrays, the documented prior_features format
bad = []
for name, opt in (
    ('random', rvo.create_random_optimizer(converter, max_evaluations=200, suggestion_batch_size=10)),
    ('eagle', vb.VectorizedOptimizerFactory(strategy_factory=es.VectorizedEagleStrategyFactory(),
                                             max_evaluations=500, suggestion_batch_size=10)(converter)),
):
  try:
    res = opt(score_fn, count=1, prior_features=pf, seed=jax.random.PRNGKey(0))
  except Exception as e:
    print(name, 'not runnable here:', type(e).__name__, str(e)[:200]); continue
  best = float(jnp.max(res.rewards))
  print(f'{name}: score(best prior) = 1.0, best returned reward = {best}')
  if best < 1.0:
    bad.append(name)
sys.exit(1 if bad else 0)
