"""Path conditions over a function CFG, decided by truth tables over their atomic comparisons.

`paths(g, starts, target)` enumerates the acyclic paths of one loop iteration (or of the whole function) that reach
`target`.  `conditions(g, path)` turns a path into the list of branch decisions taken on it, with locals that were
assigned on the path substituted into later tests (so a flag or a hoisted sub-expression does not hide the test).
`implies(decisions, formula)` checks by enumeration over the atoms (comparisons, calls, names) that every truth
assignment consistent with the decisions satisfies `formula` — a Python predicate over an `Atoms` view.

Everything is finite and syntactic: no program is run and no solver is used.
"""

from __future__ import annotations

import ast
import copy
import itertools
from typing import Callable, Dict, List, Optional, Sequence, Set, Tuple

from vzstatic import cfg as cfgmod
from vzstatic.source import AnalysisError, unparse

Decision = Tuple[ast.AST, bool]


def paths(g: cfgmod.CFG, starts: Sequence[cfgmod.Node], target: cfgmod.Node, stop: Sequence[cfgmod.Node] = (),
          limit: int = 4000) -> List[List[Tuple[cfgmod.Node, object]]]:
  """Acyclic paths [(node, label of the edge taken out of it), ...] from a start to `target` (target excluded).
  Exception edges are not followed; nodes in `stop` (e.g. a loop header) end a path without success."""
  out: List[List[Tuple[cfgmod.Node, object]]] = []
  stop_ids = {s.id for s in stop}

  def dfs(n: cfgmod.Node, acc: List[Tuple[cfgmod.Node, object]], seen: Set[int]):
    if len(out) > limit:
      raise AnalysisError('too many paths')
    if n is target:
      out.append(list(acc))
      return
    if n.id in seen or n.id in stop_ids:
      return
    seen = seen | {n.id}
    for m, lab in n.succs:
      if isinstance(lab, tuple) and lab and lab[0] == 'exc':
        continue
      dfs(m, acc + [(n, lab)], seen)
  for s in starts:
    dfs(s, [], set())
  return out


class _Sub(ast.NodeTransformer):

  def __init__(self, env: Dict[str, ast.AST]):
    self.env = env

  def visit_Name(self, node: ast.Name):
    if isinstance(node.ctx, ast.Load) and node.id in self.env:
      return ast.copy_location(copy.deepcopy(self.env[node.id]), node)
    return node


def conditions(path: List[Tuple[cfgmod.Node, object]]) -> List[Decision]:
  """Branch decisions along `path`; locals assigned on the path are substituted into later tests."""
  env: Dict[str, ast.AST] = {}
  out: List[Decision] = []
  for n, lab in path:
    a = n.ast
    if n.kind == 'test' and lab in ('T', 'F'):
      for w in ast.walk(a):
        if isinstance(w, ast.NamedExpr) and isinstance(w.target, ast.Name):
          env[w.target.id] = _Sub(env).visit(copy.deepcopy(w.value))
      out.append((_Sub(env).visit(copy.deepcopy(a)), lab == 'T'))
    elif n.kind == 'stmt' and isinstance(a, ast.Assign) and len(a.targets) == 1 and isinstance(a.targets[0], ast.Name):
      v = _Sub(env).visit(copy.deepcopy(a.value))
      # only side-effect free right-hand sides are propagated
      if not any(isinstance(x, (ast.Call, ast.Await, ast.Yield, ast.NamedExpr)) and not _pure_call(x) for x in ast.walk(v)):
        env[a.targets[0].id] = v
      else:
        env.pop(a.targets[0].id, None)
    elif n.kind == 'stmt' and isinstance(a, (ast.AugAssign, ast.AnnAssign)):
      t = a.target
      if isinstance(t, ast.Name):
        env.pop(t.id, None)
    elif n.kind == 'for':
      for x in ast.walk(a.target):
        if isinstance(x, ast.Name):
          env.pop(x.id, None)
  return out


def _pure_call(c: ast.AST) -> bool:
  if not isinstance(c, ast.Call):
    return True
  f = c.func
  if isinstance(f, ast.Name) and f.id in ('len', 'isinstance', 'bool', 'int', 'float', 'str', 'tuple', 'set', 'frozenset', 'sorted', 'min', 'max', 'abs'):
    return True
  if isinstance(f, ast.Attribute) and f.attr in ('get', 'HasField', 'issubset', 'keys', 'values', 'items', 'startswith', 'endswith'):
    return True
  return False


# ----------------------------------------------------------------------------- boolean structure
def atom_key(e: ast.AST) -> Tuple[str, bool]:
  """(canonical text of the positive atom, polarity) for a leaf test."""
  if isinstance(e, ast.Compare) and len(e.ops) == 1:
    op = e.ops[0]
    l, r = unparse(e.left, 0), unparse(e.comparators[0], 0)
    if isinstance(op, ast.NotIn):
      return f'{l} in {r}', False
    if isinstance(op, ast.In):
      return f'{l} in {r}', True
    if isinstance(op, ast.IsNot):
      return f'{l} is {r}', False
    if isinstance(op, ast.Is):
      return f'{l} is {r}', True
    if isinstance(op, ast.NotEq):
      a, b = sorted([l, r])
      return f'{a} == {b}', False
    if isinstance(op, ast.Eq):
      a, b = sorted([l, r])
      return f'{a} == {b}', True
    if isinstance(op, ast.GtE):
      return f'{l} < {r}', False
    if isinstance(op, ast.Lt):
      return f'{l} < {r}', True
    if isinstance(op, ast.LtE):
      return f'{r} < {l}', False
    if isinstance(op, ast.Gt):
      return f'{r} < {l}', True
  return unparse(e, 0), True


_LITERALS = (ast.List, ast.ListComp, ast.Dict, ast.DictComp, ast.Set, ast.SetComp, ast.Tuple, ast.JoinedStr, ast.GeneratorExp)


def const_value(e: ast.AST) -> Optional[bool]:
  """Truth value of a test that does not depend on the state: `None is None`, `<list literal> is None`, a constant."""
  if isinstance(e, ast.Constant):
    return bool(e.value)
  if isinstance(e, ast.Compare) and len(e.ops) == 1 and isinstance(e.ops[0], (ast.Is, ast.IsNot)):
    l, r = e.left, e.comparators[0]
    def none_ness(x):
      if isinstance(x, ast.Constant):
        return x.value is None
      if isinstance(x, _LITERALS):
        return False
      return None
    nl, nr = none_ness(l), none_ness(r)
    if nl is not None and nr is not None and (nl or nr):
      same = nl and nr
      return same if isinstance(e.ops[0], ast.Is) else not same
  return None


def atoms_of(e: ast.AST, acc: Optional[Set[str]] = None) -> Set[str]:
  acc = set() if acc is None else acc
  if const_value(e) is not None and not isinstance(e, ast.Constant):
    return acc
  if isinstance(e, ast.BoolOp):
    for v in e.values:
      atoms_of(v, acc)
  elif isinstance(e, ast.UnaryOp) and isinstance(e.op, ast.Not):
    atoms_of(e.operand, acc)
  elif isinstance(e, ast.IfExp):
    atoms_of(e.test, acc)
    atoms_of(e.body, acc)
    atoms_of(e.orelse, acc)
  elif isinstance(e, ast.Constant) and isinstance(e.value, bool):
    pass
  elif isinstance(e, ast.Constant) and e.value is None:
    pass
  else:
    acc.add(atom_key(e)[0])
  return acc


def beval(e: ast.AST, val: Dict[str, bool]) -> bool:
  if isinstance(e, ast.BoolOp):
    vs = [beval(v, val) for v in e.values]
    return all(vs) if isinstance(e.op, ast.And) else any(vs)
  if isinstance(e, ast.UnaryOp) and isinstance(e.op, ast.Not):
    return not beval(e.operand, val)
  if isinstance(e, ast.IfExp):
    return beval(e.body, val) if beval(e.test, val) else beval(e.orelse, val)
  if isinstance(e, ast.Constant) and isinstance(e.value, bool):
    return e.value
  if isinstance(e, ast.Constant) and e.value is None:
    return False
  c = const_value(e)
  if c is not None:
    return c
  k, pol = atom_key(e)
  return val[k] if pol else not val[k]


class Atoms:
  """Read access to one truth assignment by *pattern*: `a.any(pred)` is the value of the (single) atom whose canonical
  text satisfies pred; missing atoms read as `default`."""

  def __init__(self, val: Dict[str, bool]):
    self.val = val

  def get(self, pred: Callable[[str], bool], default: Optional[bool] = None) -> Optional[bool]:
    ks = [k for k in self.val if pred(k)]
    if not ks:
      return default
    if len(ks) > 1:
      # several syntactic variants of one fact: they must agree in this assignment to be meaningful
      vs = {self.val[k] for k in ks}
      return vs.pop() if len(vs) == 1 else default
    return self.val[ks[0]]


def implies(decisions: Sequence[Decision], formula: Callable[[Atoms], Optional[bool]], extra_atoms: Sequence[str] = ()) -> Tuple[bool, Optional[Dict[str, bool]]]:
  """True iff every assignment of the atoms that makes all decisions come out as taken satisfies `formula`.
  Returns (verdict, counterexample assignment)."""
  atoms: Set[str] = set(extra_atoms)
  for t, _ in decisions:
    atoms_of(t, atoms)
  names = sorted(atoms)
  if len(names) > 16:
    raise AnalysisError(f'{len(names)} atoms on one path')
  for bits in itertools.product((False, True), repeat=len(names)):
    val = dict(zip(names, bits))
    if all(beval(t, val) == pol for t, pol in decisions):
      f = formula(Atoms(val))
      if f is not True:
        return False, val
  return True, None


def substitute_on_path(path: List[Tuple[cfgmod.Node, object]], expr: ast.AST) -> ast.AST:
  """`expr` (evaluated after the last node of `path`) with the locals assigned on the path substituted."""
  env: Dict[str, ast.AST] = {}
  for n, lab in path:
    a = n.ast
    if n.kind == 'test':
      for w in ast.walk(a):
        if isinstance(w, ast.NamedExpr) and isinstance(w.target, ast.Name):
          env[w.target.id] = _Sub(env).visit(copy.deepcopy(w.value))
    if n.kind == 'stmt' and isinstance(a, ast.Assign) and len(a.targets) == 1:
      t = a.targets[0]
      v = _Sub(env).visit(copy.deepcopy(a.value))
      if isinstance(t, ast.Name):
        env[t.id] = v
      elif isinstance(t, (ast.Tuple, ast.List)) and isinstance(v, (ast.Tuple, ast.List)) and len(t.elts) == len(v.elts):
        for te, ve in zip(t.elts, v.elts):
          if isinstance(te, ast.Name):
            env[te.id] = ve
      elif isinstance(t, (ast.Tuple, ast.List)):
        for i, te in enumerate(t.elts):
          if isinstance(te, ast.Name):
            env[te.id] = ast.Subscript(value=v, slice=ast.Constant(value=i), ctx=ast.Load())
  return _Sub(env).visit(copy.deepcopy(expr))


class LookupFailed(Exception):
  """A subscript on a model table / list has no such key (KeyError / IndexError in the interpreted code)."""


class NoValue(Exception):
  pass


def dotted_name(e: ast.AST) -> str:
  parts = []
  while isinstance(e, ast.Attribute):
    parts.append(e.attr)
    e = e.value
  if isinstance(e, ast.Name):
    parts.append(e.id)
    return '.'.join(reversed(parts))
  return ''


_STR_METHODS = {'startswith', 'endswith', 'split', 'rsplit', 'join', 'translate', 'replace', 'removeprefix', 'removesuffix', 'strip',
                'lstrip', 'rstrip', 'lower', 'upper', 'partition', 'rpartition', 'find', 'index', 'count', 'isidentifier'}


def _lookup_failed(key: str) -> Exception:
  class _LF(NoValue, LookupFailed):
    pass
  return _LF(key)


def neval(e: ast.AST, env: Dict[str, object]):
  """Numeric evaluation of a closed arithmetic/comparison expression over `env` (unparsed name -> python value)."""
  key = unparse(e, 0)
  if key in env:
    return env[key]
  if isinstance(e, ast.Constant):
    return e.value
  if isinstance(e, ast.NamedExpr):
    return neval(e.value, env)
  if isinstance(e, ast.Tuple):
    return tuple(neval(x, env) for x in e.elts)
  if isinstance(e, ast.Subscript) and isinstance(e.slice, ast.Slice):
    base = neval(e.value, env)
    lo, hi, st_ = (neval(x, env) if x is not None else None for x in (e.slice.lower, e.slice.upper, e.slice.step))
    try:
      return base[lo:hi:st_]
    except TypeError:
      raise NoValue(key)
  if isinstance(e, ast.Call) and dotted_name(e.func) == 'str.maketrans' and len(e.args) == 1 and not e.keywords:
    d_ = neval(e.args[0], env)
    if isinstance(d_, dict):
      try:
        return str.maketrans(d_)
      except (TypeError, ValueError):
        raise NoValue(key)
  if isinstance(e, ast.Call) and isinstance(e.func, ast.Attribute) and not e.keywords and e.func.attr in _STR_METHODS:
    try:
      recv = neval(e.func.value, env)
    except NoValue:
      recv = None
    if isinstance(recv, str):
      args_ = [neval(a, env) for a in e.args]
      if e.func.attr == 'join' and args_:
        args_ = [list(args_[0])] + args_[1:]
      try:
        return getattr(recv, e.func.attr)(*args_)
      except (TypeError, ValueError):
        raise NoValue(key)
  if isinstance(e, ast.Subscript) and isinstance(e.slice, ast.Constant):
    try:
      return neval(e.value, env)[e.slice.value]
    except (KeyError, IndexError):
      raise _lookup_failed(key)
    except TypeError:
      raise NoValue(key)
  if isinstance(e, ast.Subscript) and not isinstance(e.slice, ast.Slice):
    base, idx = neval(e.value, env), neval(e.slice, env)
    try:
      return base[idx]
    except (KeyError, IndexError):
      raise _lookup_failed(key)
    except TypeError:
      raise NoValue(key)
  if isinstance(e, ast.BinOp):
    l, r = neval(e.left, env), neval(e.right, env)
    ops = {ast.Add: lambda: l + r, ast.Sub: lambda: l - r, ast.Mult: lambda: l * r, ast.Div: lambda: l / r,
           ast.Pow: lambda: l ** r, ast.FloorDiv: lambda: l // r, ast.Mod: lambda: l % r}
    if type(e.op) in ops:
      return ops[type(e.op)]()
  if isinstance(e, ast.UnaryOp):
    v = neval(e.operand, env)
    if isinstance(e.op, ast.USub):
      return -v
    if isinstance(e.op, ast.Not):
      return not v
  if isinstance(e, ast.Call) and isinstance(e.func, ast.Name) and isinstance(env.get(e.func.id), _Closure) and not e.keywords:
    clo = env[e.func.id]
    params = [a.arg for a in clo.node.args.args]
    if len(params) != len(e.args):
      raise NoValue(key)
    inner = dict(clo.env)
    for p_, a_ in zip(params, e.args):
      inner[p_] = neval(a_, env)
    return run_concrete(clo.node, inner, tolerant=True)
  if isinstance(e, ast.Lambda):
    fn_ = ast.FunctionDef(name='<lambda>', args=e.args, body=[ast.Return(value=e.body)], decorator_list=[])
    return _Closure(fn_, env)
  if isinstance(e, ast.Call) and '__callhook__' in env:
    r = env['__callhook__'](e, env)
    if r is not NotImplemented:
      return r
  if isinstance(e, ast.Call) and isinstance(e.func, ast.Name) and e.func.id in ('abs', 'min', 'max', 'float', 'int', 'range', 'list', 'tuple', 'len', 'sorted', 'reversed', 'set', 'frozenset', 'bool', 'str', 'dict') and not e.keywords:
    fn_ = {'abs': abs, 'min': min, 'max': max, 'float': float, 'int': int, 'range': lambda *a: list(range(*a)), 'list': list,
           'tuple': tuple, 'len': len, 'sorted': sorted, 'reversed': lambda x: list(reversed(x)), 'set': set, 'frozenset': frozenset,
           'bool': bool, 'str': str, 'dict': dict}[e.func.id]
    try:
      return fn_(*[neval(a, env) for a in e.args])
    except (TypeError, ValueError):
      raise NoValue(key)
  if isinstance(e, ast.Call) and dotted_name(e.func) in ('math.ceil', 'math.floor', 'np.ceil', 'np.floor', 'round') and len(e.args) == 1 and not e.keywords:
    import math as _m
    v_ = neval(e.args[0], env)
    try:
      return {'ceil': _m.ceil, 'floor': _m.floor, 'round': round}[dotted_name(e.func).rsplit('.', 1)[-1]](v_)
    except (TypeError, ValueError):
      raise NoValue(key)
  if isinstance(e, ast.Call) and isinstance(e.func, ast.Attribute) and e.func.attr in ('items', 'keys', 'values', 'get') and not e.keywords:
    try:
      base = neval(e.func.value, env)
    except NoValue:
      base = None
    if isinstance(base, dict):
      if e.func.attr == 'get' and len(e.args) in (1, 2):
        k_ = neval(e.args[0], env)
        try:
          if k_ in base:
            return base[k_]
        except TypeError:
          raise NoValue(key)
        return neval(e.args[1], env) if len(e.args) == 2 else None
      if not e.args:
        return {'items': lambda: list(base.items()), 'keys': lambda: list(base.keys()), 'values': lambda: list(base.values())}[e.func.attr]()
  if isinstance(e, ast.DictComp) and all(not g.is_async for g in e.generators):
    pairs = neval(ast.ListComp(elt=ast.Tuple(elts=[e.key, e.value], ctx=ast.Load()), generators=e.generators), env)
    try:
      return dict(pairs)
    except TypeError:
      raise NoValue(key)
  if isinstance(e, ast.Dict) and all(k is not None for k in e.keys):
    try:
      return {neval(k, env): neval(v, env) for k, v in zip(e.keys, e.values)}
    except TypeError:
      raise NoValue(key)
  if isinstance(e, ast.Call) and not e.keywords and (
      (isinstance(e.func, ast.Name) and e.func.id in ('enumerate', 'zip')) or dotted_name(e.func).endswith('itertools.compress')):
    try:
      args = [list(neval(a, env)) for a in e.args]
    except TypeError:
      raise NoValue(key)
    if isinstance(e.func, ast.Name) and e.func.id == 'enumerate' and len(args) == 1:
      return [(i, v) for i, v in enumerate(args[0])]
    if isinstance(e.func, ast.Name) and e.func.id == 'zip':
      return [tuple(t) for t in zip(*args)]
    if len(args) == 2:
      return [v for v, b in zip(args[0], args[1]) if b]
    raise NoValue(key)
  if isinstance(e, (ast.ListComp, ast.GeneratorExp)) and all(not g.is_async for g in e.generators) and (
      len(e.generators) > 1 or not isinstance(e.generators[0].target, ast.Name)):
    out = []

    def bind(t, v, env2):
      if isinstance(t, ast.Name):
        env2[t.id] = v
      elif isinstance(t, (ast.Tuple, ast.List)):
        try:
          vs = list(v)
        except TypeError:
          raise NoValue(key)
        if len(vs) != len(t.elts):
          raise NoValue(key)
        for tt, vv in zip(t.elts, vs):
          bind(tt, vv, env2)
      else:
        raise NoValue(key)

    def gen(i, env2):
      if i == len(e.generators):
        out.append(neval(e.elt, env2))
        return
      g = e.generators[i]
      try:
        items = list(neval(g.iter, env2))
      except TypeError:
        raise NoValue(key)
      for v in items:
        env3 = dict(env2)
        bind(g.target, v, env3)
        if all(neval(c, env3) for c in g.ifs):
          gen(i + 1, env3)
    gen(0, dict(env))
    return out
  if isinstance(e, (ast.ListComp, ast.GeneratorExp)) and len(e.generators) == 1 and isinstance(e.generators[0].target, ast.Name) and not e.generators[0].is_async:
    gen = e.generators[0]
    out = []
    for v in neval(gen.iter, env):
      env2 = dict(env)
      env2[gen.target.id] = v
      if all(neval(c, env2) for c in gen.ifs):
        out.append(neval(e.elt, env2))
    return out
  if isinstance(e, ast.Name) and e.id in env:
    return env[e.id]
  if isinstance(e, ast.Attribute):
    try:
      base = neval(e.value, env)
    except NoValue:
      raise NoValue(key)
    if isinstance(base, dict) and e.attr in base:
      return base[e.attr]
    if hasattr(base, '__dict__') and e.attr in vars(base):
      return getattr(base, e.attr)
    raise NoValue(key)
  if isinstance(e, ast.Compare):
    l = neval(e.left, env)
    for op, c in zip(e.ops, e.comparators):
      r = neval(c, env)
      if isinstance(op, (ast.Is, ast.IsNot)):
        ok = (l is r) if isinstance(op, ast.Is) else (l is not r)
      elif isinstance(op, (ast.Eq, ast.NotEq)):
        ok = (l == r) if isinstance(op, ast.Eq) else (l != r)
      elif isinstance(op, (ast.In, ast.NotIn)):
        try:
          ok = (l in r) if isinstance(op, ast.In) else (l not in r)
        except TypeError:
          raise NoValue(key)
      else:
        try:
          ok = {ast.Lt: lambda: l < r, ast.LtE: lambda: l <= r, ast.Gt: lambda: l > r, ast.GtE: lambda: l >= r}[type(op)]()
        except (KeyError, TypeError):
          raise NoValue(key)
      if not ok:
        return False
      l = r
    return True
  if isinstance(e, ast.BoolOp):
    # short-circuit, python value semantics
    v = None
    for x in e.values:
      v = neval(x, env)
      if (isinstance(e.op, ast.And) and not v) or (isinstance(e.op, ast.Or) and v):
        return v
    return v
  if isinstance(e, ast.IfExp):
    return neval(e.body, env) if neval(e.test, env) else neval(e.orelse, env)
  if isinstance(e, (ast.Set, ast.List)):
    return [neval(x, env) for x in e.elts] if isinstance(e, ast.List) else {neval(x, env) for x in e.elts}
  raise NoValue(key)


class Raised(Exception):
  """The interpreted body executed a raise statement."""


class _Closure:
  """A nested function met while interpreting: called with the defining environment plus its arguments."""

  def __init__(self, node, env):
    self.node, self.env = node, env


class _Continue(Exception):
  pass


class _Break(Exception):
  pass


class _Ret(Exception):

  def __init__(self, v):
    self.v = v


def method_hook(methods: Dict[str, ast.AST], depth: int = 0):
  """Call hook for `neval`: `self._m(args)` / `_m(args)` naming a loop-free function of `methods` is interpreted on
  the caller's environment with the parameters bound to the argument values."""
  def hook(c: ast.Call, env: Dict[str, object]):
    f = c.func
    name = f.attr if isinstance(f, ast.Attribute) and isinstance(f.value, ast.Name) and f.value.id in ('self', 'cls') else \
        f.id if isinstance(f, ast.Name) else None
    if name not in methods or depth > 4 or c.keywords:
      return NotImplemented
    callee = methods[name]
    params = [a.arg for a in callee.args.args if a.arg not in ('self', 'cls')]
    if len(params) != len(c.args):
      return NotImplemented
    inner = {k: v for k, v in env.items() if k.startswith(('self.', '__'))}
    for p_, a in zip(params, c.args):
      # attribute paths of an argument stay visible under the parameter's name
      akey = unparse(a, 0)
      for k, v in env.items():
        if k == akey or k.startswith(akey + '.'):
          inner[p_ + k[len(akey):]] = v
      if akey not in env:
        try:
          inner[p_] = neval(a, env)
        except NoValue:
          pass
    inner['__callhook__'] = method_hook(methods, depth + 1)
    return run_concrete(callee, inner)
  return hook


def _as_load(t: ast.AST) -> ast.AST:
  t = copy.deepcopy(t)
  for x in ast.walk(t):
    if isinstance(x, (ast.Name, ast.Subscript, ast.Attribute)) and isinstance(getattr(x, 'ctx', None), ast.Store):
      x.ctx = ast.Load()
  return t


def run_concrete(fn: ast.AST, env: Dict[str, object], tolerant: bool = False):
  """Interprets a loop-free function body (assignments to names, if/else, return, bare expressions) on a concrete
  environment (unparsed expression -> value) with `neval`; returns the returned value.  NoValue if the body leaves
  that fragment or an expression cannot be evaluated."""
  env = dict(env)

  def block(stmts):
    for st in stmts:
      if isinstance(st, ast.Return):
        raise _Ret(neval(st.value, env) if st.value is not None else None)
      if isinstance(st, ast.If):
        try:
          tv = neval(st.test, env)
        except NoValue:
          # tolerant mode: an undecidable guard whose body only raises is taken as "passed"
          if tolerant and not st.orelse and st.body and isinstance(st.body[-1], ast.Raise):
            continue
          raise
        block(st.body if tv else st.orelse)
      elif isinstance(st, ast.Assign) and len(st.targets) == 1 and isinstance(st.targets[0], ast.Name):
        try:
          env[st.targets[0].id] = neval(st.value, env)
        except NoValue:
          if not tolerant:
            raise
          env.pop(st.targets[0].id, None)  # unknown from here on

      elif isinstance(st, ast.Assign) and len(st.targets) == 1 and isinstance(st.targets[0], ast.Tuple) \
          and all(isinstance(t, ast.Name) for t in st.targets[0].elts):
        v = neval(st.value, env)
        try:
          vs = list(v)
        except TypeError:
          raise NoValue(unparse(st.value, 0))
        if len(vs) != len(st.targets[0].elts):
          raise NoValue(unparse(st.value, 0))
        for t, x in zip(st.targets[0].elts, vs):
          env[t.id] = x
      elif isinstance(st, ast.AugAssign) and isinstance(st.op, (ast.Add, ast.Sub, ast.Mult)) and isinstance(st.target, (ast.Name, ast.Subscript)):
        cur = neval(ast.copy_location(_as_load(st.target), st), env)
        rhs = neval(st.value, env)
        try:
          val = cur + rhs if isinstance(st.op, ast.Add) else cur - rhs if isinstance(st.op, ast.Sub) else cur * rhs
        except TypeError:
          raise NoValue(unparse(st, 0))
        if isinstance(st.target, ast.Name):
          env[st.target.id] = val
        else:
          cont = neval(st.target.value, env)
          idx = neval(st.target.slice, env)
          try:
            cont[idx] = val
          except (TypeError, IndexError, KeyError):
            raise NoValue(unparse(st, 0))
      elif isinstance(st, ast.Assign) and len(st.targets) == 1 and isinstance(st.targets[0], ast.Subscript) \
          and isinstance(st.targets[0].value, ast.Name) and isinstance(env.get(st.targets[0].value.id), (list, dict)):
        try:
          env[st.targets[0].value.id][neval(st.targets[0].slice, env)] = neval(st.value, env)
        except (TypeError, IndexError):
          raise NoValue(unparse(st, 0))
      elif isinstance(st, ast.Raise):
        raise Raised(unparse(st.exc, 60) if st.exc is not None else 'raise')
      elif isinstance(st, ast.For) and not st.orelse and (isinstance(st.target, ast.Name) or (
          isinstance(st.target, ast.Tuple) and all(isinstance(t, ast.Name) for t in st.target.elts))):
        try:
          items = list(neval(st.iter, env))
        except NoValue:
          if not tolerant:
            raise
          # tolerant mode: a loop over something outside the model is skipped; whatever it binds is unknown afterwards
          for x in ast.walk(st):
            if isinstance(x, ast.Name) and isinstance(x.ctx, ast.Store):
              env.pop(x.id, None)
          continue
        for v in items:
          if isinstance(st.target, ast.Name):
            env[st.target.id] = v
          else:
            try:
              vs_ = list(v)
            except TypeError:
              raise NoValue(unparse(st.target, 0))
            if len(vs_) != len(st.target.elts):
              raise NoValue(unparse(st.target, 0))
            for t_, x_ in zip(st.target.elts, vs_):
              env[t_.id] = x_
          try:
            block(st.body)
          except _Continue:
            continue
          except _Break:
            break
      elif isinstance(st, ast.Continue):
        raise _Continue()
      elif isinstance(st, ast.Break):
        raise _Break()
      elif isinstance(st, ast.Expr) and isinstance(st.value, ast.Call) and isinstance(st.value.func, ast.Attribute) \
          and st.value.func.attr in ('append', 'add') and isinstance(st.value.func.value, ast.Name) \
          and isinstance(env.get(st.value.func.value.id), (list, set)) and len(st.value.args) == 1:
        tgt = env[st.value.func.value.id]
        val = neval(st.value.args[0], env)
        tgt.append(val) if isinstance(tgt, list) else tgt.add(val)
      elif isinstance(st, ast.FunctionDef):
        env[st.name] = _Closure(st, env)
      elif tolerant and isinstance(st, ast.Expr):
        continue
      elif isinstance(st, ast.AnnAssign) and isinstance(st.target, ast.Name) and st.value is not None:
        env[st.target.id] = neval(st.value, env)
      elif isinstance(st, ast.Expr) and isinstance(st.value, ast.Constant):
        continue
      elif isinstance(st, ast.Pass):
        continue
      else:
        raise NoValue(f'statement {type(st).__name__} at line {getattr(st, "lineno", "?")}')
  try:
    block(fn.body)
  except _Ret as r:
    return r.v
  return None
