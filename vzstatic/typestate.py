"""Typestate abstract interpretation for protos fetched from the datastore.

Domain: for every tracked local variable a set of pairs (orig, cur) — the
state the object had when it was loaded from the datastore (or 'FRESH' for a
request payload / algorithm output) and the state it has now.  Branch
conditions on `<var>.state` refine `cur`; `<var>.state = K` rewrites it.  The
pseudo-variable `$study` stands for the state of the study the request names
and is refined by calls to servicer helpers whose *summary* is a study-state
test (derived from the helper's body, e.g. `_study_is_immutable`).
"""

from __future__ import annotations

import ast
import dataclasses
from typing import Dict, FrozenSet, List, Optional, Set, Tuple

from vzstatic import cfg as cfgmod
from vzstatic import flow
from vzstatic.index import FuncInfo, dotted
from vzstatic.svc import Svc

TRIAL_ENUM = 'vizier.Trial.State'
STUDY_ENUM = 'vizier.Study.State'
FRESH = 'FRESH'

Pairs = FrozenSet[Tuple[str, str]]


@dataclasses.dataclass(frozen=True)
class Val:
  kind: str  # 'trial' | 'study'
  is_list: bool
  pairs: Pairs

  def cur(self) -> Set[str]:
    return {c for _, c in self.pairs}

  def orig(self) -> Set[str]:
    return {o for o, _ in self.pairs}


@dataclasses.dataclass
class Event:
  kind: str  # state_write field_write ds_call
  node: cfgmod.Node
  var: Optional[str]
  val: Optional[Val]
  data: object = None
  study: Optional[Val] = None
  env: object = None


SOURCES = {
    'get_trial': ('trial', False), 'list_trials': ('trial', True),
    'load_study': ('study', False), 'list_studies': ('study', True),
}
MUTATING_PROTO_CALLS = {'CopyFrom', 'MergeFrom', 'extend', 'append', 'add',
                        'Clear', 'ClearField', 'insert', 'remove', 'pop',
                        'ParseFromString', 'MergeFromString', 'sort', 'reverse'}


class TypeState:

  def __init__(self, svc: Svc, fi: FuncInfo):
    self.svc = svc
    self.fi = fi
    self.mi = fi.module
    self.cls = fi.cls
    self.cfg = svc.rpc_cfg(fi)
    self.enums = {
        'trial': frozenset(svc.schema.enums[TRIAL_ENUM].values),
        'study': frozenset(svc.schema.enums[STUDY_ENUM].values),
    }
    self.enum_name = {'trial': TRIAL_ENUM, 'study': STUDY_ENUM}
    self.events: List[Event] = []
    self._summaries: Dict[str, Optional[FrozenSet[str]]] = {}
    self.guard_tests: List[Tuple[cfgmod.Node, str]] = []
    self.unknown_tests: List[cfgmod.Node] = []
    self.state: Dict[int, Dict[str, Val]] = {}

  # --------------------------------------------------------------- helpers
  def all_pairs(self, kind: str, stored: bool = True) -> Pairs:
    if stored:
      # A stored trial is never STATE_UNSPECIFIED: rule C01.R1 checks that every
      # create_trial site stores one of REQUESTED/ACTIVE/SUCCEEDED.
      return frozenset((s, s) for s in self.enums[kind]
                       if not (kind == 'trial' and s == 'STATE_UNSPECIFIED'))
    return frozenset((FRESH, s) for s in self.enums[kind])

  def consts(self, expr: ast.AST, kind: str) -> Optional[FrozenSet[str]]:
    return self.svc.enum_values(self.mi, expr, self.enum_name[kind], self.cls)

  def study_test_summary(self, call: ast.Call) -> Optional[Tuple[FrozenSet[str], ast.AST]]:
    """If `call` is self.<helper>(name) whose body returns a study-state test on
    load_study(<its parameter>), returns (states for which it returns True, arg)."""
    d = dotted(call.func)
    if not (d and d.startswith('self.') and d.count('.') == 1 and self.cls is not None):
      return None
    m = self.svc.index.find_method(self.cls, d[5:])
    if m is None or len(call.args) + len(call.keywords) != 1:
      return None
    arg = call.args[0] if call.args else call.keywords[0].value
    if m.qualname not in self._summaries:
      self._summaries[m.qualname] = self._summarise(m)
    s = self._summaries[m.qualname]
    if s is None:
      return None
    return s, arg

  def _summarise(self, m: FuncInfo) -> Optional[FrozenSet[str]]:
    params = [p for p in m.params if p != 'self']
    if len(params) != 1:
      return None
    body = [s for s in m.node.body
            if not (isinstance(s, ast.Expr) and isinstance(s.value, ast.Constant))]
    loaded: Dict[str, bool] = {}
    ret = None
    for st in body:
      if (isinstance(st, ast.Assign) and len(st.targets) == 1 and isinstance(st.targets[0], ast.Name)
          and isinstance(st.value, ast.Call) and self.svc.ds_call(st.value) == 'load_study'
          and len(st.value.args) == 1 and isinstance(st.value.args[0], ast.Name)
          and st.value.args[0].id == params[0]):
        loaded[st.targets[0].id] = True
      elif isinstance(st, ast.Return) and st.value is not None and ret is None:
        ret = st.value
      else:
        return None
    if ret is None:
      return None
    return self._eval_compare(ret, lambda name: 'study' if name in loaded else None, m)

  def _eval_compare(self, e: ast.AST, kind_of, m: Optional[FuncInfo] = None) -> Optional[FrozenSet[str]]:
    """States for which a comparison on `<var>.state` (var of kind study) is True."""
    if isinstance(e, ast.UnaryOp) and isinstance(e.op, ast.Not):
      inner = self._eval_compare(e.operand, kind_of, m)
      return None if inner is None else self.enums['study'] - inner
    if not (isinstance(e, ast.Compare) and len(e.ops) == 1):
      return None
    left, op, right = e.left, e.ops[0], e.comparators[0]
    subj = None
    if isinstance(left, ast.Attribute) and left.attr == 'state':
      if isinstance(left.value, ast.Name) and kind_of(left.value.id) == 'study':
        subj = left.value.id
      elif (isinstance(left.value, ast.Call) and self.svc.ds_call(left.value) == 'load_study'):
        subj = '$inline'
    if subj is None:
      return None
    mi = m.module if m is not None else self.mi
    cls = m.cls if m is not None else self.cls
    cs = self.svc.enum_values(mi, right, STUDY_ENUM, cls)
    if cs is None:
      return None
    allv = self.enums['study']
    if isinstance(op, (ast.Eq, ast.In)):
      return frozenset(cs)
    if isinstance(op, (ast.NotEq, ast.NotIn)):
      return allv - cs
    return None

  # ------------------------------------------------------------ refinement
  def refine(self, env: Dict[str, Val], test: ast.AST, branch: bool, node=None) -> Optional[Dict[str, Val]]:
    """Environment on the `branch` outcome of `test`; None if infeasible."""
    if isinstance(test, ast.UnaryOp) and isinstance(test.op, ast.Not):
      return self.refine(env, test.operand, not branch, node)
    if isinstance(test, ast.BoolOp):
      if (isinstance(test.op, ast.And) and branch) or (isinstance(test.op, ast.Or) and not branch):
        cur = env
        for v in test.values:
          cur = self.refine(cur, v, branch, node)
          if cur is None:
            return None
        return cur
      return env
    if isinstance(test, ast.Call):
      s = self.study_test_summary(test)
      if s is not None:
        true_states, arg = s
        if node is not None:
          self.guard_tests.append((node, ast.unparse(arg)))
        keep = true_states if branch else self.enums['study'] - true_states
        return self._refine_var(env, '$study', keep)
      return env
    if isinstance(test, ast.Compare) and len(test.ops) == 1:
      left, op, right = test.left, test.ops[0], test.comparators[0]
      if isinstance(left, ast.Attribute) and left.attr == 'state' and isinstance(left.value, ast.Name):
        var = left.value.id
        v = env.get(var)
        if v is not None and not v.is_list:
          cs = self.consts(right, v.kind)
          if cs is None:
            return env
          allv = self.enums[v.kind]
          if isinstance(op, (ast.Eq, ast.In)):
            keep = cs if branch else allv - cs
          elif isinstance(op, (ast.NotEq, ast.NotIn)):
            keep = allv - cs if branch else cs
          else:
            return env
          return self._refine_var(env, var, keep)
      # inline study test: self.datastore.load_study(x).state ...
      if (isinstance(left, ast.Attribute) and left.attr == 'state' and isinstance(left.value, ast.Call)
          and self.svc.ds_call(left.value) == 'load_study'):
        ts = self._eval_compare(test, lambda n: None)
        if ts is not None:
          keep = ts if branch else self.enums['study'] - ts
          return self._refine_var(env, '$study', keep)
    return env

  def _refine_var(self, env, var, keep) -> Optional[Dict[str, Val]]:
    v = env.get(var)
    if v is None:
      return env
    pairs = frozenset(p for p in v.pairs if p[1] in keep)
    if not pairs:
      return None
    out = dict(env)
    out[var] = Val(v.kind, v.is_list, pairs)
    return out

  # -------------------------------------------------------------- transfer
  def _eval(self, env: Dict[str, Val], e: ast.AST) -> Optional[Val]:
    if isinstance(e, ast.Name):
      return env.get(e.id)
    if isinstance(e, ast.Call):
      m = self.svc.ds_call(e)
      if m in SOURCES:
        kind, is_list = SOURCES[m]
        return Val(kind, is_list, self.all_pairs(kind))
      if isinstance(e.func, ast.Attribute) and e.func.attr == 'pop' and isinstance(e.func.value, ast.Name):
        lv = env.get(e.func.value.id)
        if lv is not None and lv.is_list:
          return Val(lv.kind, False, lv.pairs)
      d = dotted(e.func)
      if d in ('list', 'sorted', 'reversed', 'copy.deepcopy', 'copy.copy', 'tuple', 'itertools.islice', 'islice', 'iter') and len(e.args) >= 1:
        return self._eval(env, e.args[0])
      return None
    if isinstance(e, ast.Subscript):
      base = self._eval(env, e.value)
      if base is not None and base.is_list:
        if isinstance(e.slice, ast.Slice):
          return base
        return Val(base.kind, False, base.pairs)
      return None
    if isinstance(e, (ast.ListComp, ast.GeneratorExp)) and len(e.generators) == 1:
      g = e.generators[0]
      src = self._eval(env, g.iter)
      if src is not None and src.is_list and isinstance(g.target, ast.Name) and isinstance(e.elt, ast.Name) \
          and e.elt.id == g.target.id:
        inner = dict(env)
        inner[g.target.id] = Val(src.kind, False, src.pairs)
        cur: Optional[Dict[str, Val]] = inner
        for cond in g.ifs:
          cur = self.refine(cur, cond, True)
          if cur is None:
            return Val(src.kind, True, frozenset())
        return Val(src.kind, True, cur[g.target.id].pairs)
      return None
    if isinstance(e, ast.Attribute):
      # request.trial : fresh trial payload of a request parameter
      if isinstance(e.value, ast.Name) and e.value.id in self.fi.params and e.value.id != 'self':
        ann = self._param_message(e.value.id)
        if ann:
          f = self.svc.schema.field_type(ann, e.attr)
          if f is not None and f.type == 'vizier.Trial':
            return Val('trial', f.repeated, self.all_pairs('trial', stored=False))
          if f is not None and f.type == 'vizier.Study':
            return Val('study', f.repeated, self.all_pairs('study', stored=False))
      return None
    if isinstance(e, ast.IfExp):
      a, b = self._eval(env, e.body), self._eval(env, e.orelse)
      if a is not None and b is not None and a.kind == b.kind and a.is_list == b.is_list:
        return Val(a.kind, a.is_list, a.pairs | b.pairs)
    return None

  def _param_message(self, pname: str) -> Optional[str]:
    a = self.fi.node.args
    for p in a.posonlyargs + a.args + a.kwonlyargs:
      if p.arg == pname and p.annotation is not None:
        d = dotted(p.annotation)
        if d and '.' in d:
          mod, _, name = d.partition('.')
          imp = self.mi.imports.get(mod, '')
          if imp.endswith('_pb2'):
            return self.svc.schema.py_name_to_full(imp.rsplit('.', 1)[-1], name)
    return None

  def _stmt(self, n: cfgmod.Node, env: Dict[str, Val]) -> Dict[str, Val]:
    a = n.ast
    env = dict(env)
    study = env.get('$study')
    if n.kind == 'for':
      src = self._eval(env, a.iter)
      for name, _ in flow.target_names(a.target):
        env.pop(name, None)
      if src is not None and src.is_list and isinstance(a.target, ast.Name):
        env[a.target.id] = Val(src.kind, False, src.pairs)
      elif (isinstance(a.iter, ast.Call) and dotted(a.iter.func) == 'enumerate' and a.iter.args
            and isinstance(a.target, ast.Tuple) and len(a.target.elts) == 2
            and isinstance(a.target.elts[1], ast.Name)):
        src = self._eval(env, a.iter.args[0])
        if src is not None and src.is_list:
          env[a.target.elts[1].id] = Val(src.kind, False, src.pairs)
      return env
    if n.kind != 'stmt':
      self._scan_calls(n, env)
      return env
    # ---- calls inside the statement (datastore calls, proto mutators)
    self._scan_calls(n, env)
    if isinstance(a, ast.Assign):
      for t in a.targets:
        if isinstance(t, ast.Name):
          v = self._eval(env, a.value)
          if v is None:
            env.pop(t.id, None)
          else:
            env[t.id] = v
        elif isinstance(t, (ast.Tuple, ast.List)):
          for name, _ in flow.target_names(t):
            env.pop(name, None)
        elif isinstance(t, ast.Attribute):
          self._attr_store(n, env, t, a.value)
        elif isinstance(t, ast.Subscript):
          r = flow.root_name(t)
          if r in env and not env[r].is_list:
            fld = self._first_field(t, r)
            self.events.append(Event('field_write', n, r, env[r], fld, study))
    elif isinstance(a, ast.AnnAssign) and a.value is not None:
      if isinstance(a.target, ast.Name):
        v = self._eval(env, a.value)
        if v is None:
          env.pop(a.target.id, None)
        else:
          env[a.target.id] = v
      elif isinstance(a.target, ast.Attribute):
        self._attr_store(n, env, a.target, a.value)
    elif isinstance(a, ast.AugAssign):
      if isinstance(a.target, ast.Name):
        env.pop(a.target.id, None)
      else:
        r = flow.root_name(a.target)
        if r in env and not env[r].is_list:
          self.events.append(Event('field_write', n, r, env[r], self._first_field(a.target, r), study))
    elif isinstance(a, ast.Delete):
      for t in a.targets:
        r = flow.root_name(t)
        if isinstance(t, ast.Name):
          env.pop(t.id, None)
        elif r in env and not env[r].is_list:
          self.events.append(Event('field_write', n, r, env[r], self._first_field(t, r), study))
    return env

  @staticmethod
  def _first_field(t: ast.AST, root: str) -> str:
    """a.b.c[0].d  (root a) -> 'b'."""
    chain = []
    e = t
    while True:
      if isinstance(e, ast.Attribute):
        chain.append(e.attr)
        e = e.value
      elif isinstance(e, ast.Subscript):
        e = e.value
      elif isinstance(e, ast.Call):
        e = e.func
      else:
        break
    return chain[-1] if chain else ''

  def _attr_store(self, n, env, t: ast.Attribute, value: ast.AST) -> None:
    r = flow.root_name(t)
    study = env.get('$study')
    if r is None:
      return
    direct_state = isinstance(t.value, ast.Name) and t.attr == 'state'
    v = env.get(r)
    if direct_state:
      if v is None:
        # untracked object whose state is being set: becomes a tracked fresh one
        cs = self.consts(value, 'trial')
        if cs is not None and len(cs) == 1:
          k = next(iter(cs))
          env[r] = Val('trial', False, frozenset([(FRESH, k)]))
          self.events.append(Event('state_write', n, r, None, k, study))
        return
      if v.is_list:
        return
      cs = self.consts(value, v.kind)
      if cs is not None and len(cs) == 1:
        k = next(iter(cs))
        self.events.append(Event('state_write', n, r, v, k, study))
        env[r] = Val(v.kind, False, frozenset((o, k) for o, _ in v.pairs))
      else:
        self.events.append(Event('state_write', n, r, v, None, study))
        env[r] = Val(v.kind, False, frozenset((o, s) for o, _ in v.pairs for s in self.enums[v.kind]))
      return
    if v is not None and not v.is_list:
      self.events.append(Event('field_write', n, r, v, self._first_field(t, r), study))

  def _scan_calls(self, n: cfgmod.Node, env: Dict[str, Val]) -> None:
    study = env.get('$study')
    for c in flow.node_calls(n):
      m = self.svc.ds_call(c)
      if m is not None:
        argvar = None
        val = None
        if c.args and isinstance(c.args[0], ast.Name):
          argvar = c.args[0].id
          val = env.get(argvar)
        self.events.append(Event('ds_call', n, argvar, val, (m, c), study, dict(env)))
        continue
      if isinstance(c.func, ast.Attribute):
        r = flow.root_name(c.func.value)
        if r in env and c.func.attr in MUTATING_PROTO_CALLS:
          v = env[r]
          if v.is_list:
            # list bookkeeping: L.append(x)
            if c.func.attr == 'append' and isinstance(c.func.value, ast.Name) and c.args:
              xv = self._eval(env, c.args[0])
              if xv is not None and not xv.is_list and xv.kind == v.kind:
                env[r] = Val(v.kind, True, v.pairs | xv.pairs)
            continue
          if isinstance(c.func.value, ast.Name):
            # x.ClearField('f') / x.CopyFrom(..)
            fld = ''
            if c.func.attr == 'ClearField' and c.args and isinstance(c.args[0], ast.Constant):
              fld = str(c.args[0].value)
            elif c.func.attr in ('CopyFrom', 'MergeFrom', 'Clear', 'ParseFromString', 'MergeFromString'):
              fld = '*'
            else:
              continue
          else:
            fld = self._first_field(c.func.value, r)
          self.events.append(Event('field_write', n, r, v, fld, study))

  # ------------------------------------------------------------------- run
  def run(self) -> None:
    init: Dict[str, Val] = {'$study': Val('study', False, self.all_pairs('study'))}

    def transfer(node, env, succ, label):
      if node.kind == 'test':
        if label in ('T', 'F'):
          return self.refine(env, node.ast, label == 'T', node)
        return env
      if node.kind in ('entry', 'exit', 'raise'):
        return env
      return self._stmt_cached(node, env)

    def join(a, b):
      out = {}
      for k in a:
        if k in b and a[k].kind == b[k].kind and a[k].is_list == b[k].is_list:
          out[k] = Val(a[k].kind, a[k].is_list, a[k].pairs | b[k].pairs)
      return out

    # events are collected in a final pass over the fixpoint
    self._collect = False
    self.state = cfgmod.forward(self.cfg, init, transfer, join)
    self._collect = True
    self.events = []
    self.guard_tests = []
    for n in self.cfg.nodes:
      if n.id in self.state and n.kind not in ('entry', 'exit', 'raise'):
        if n.kind == 'test':
          self.refine(self.state[n.id], n.ast, True, n)
          self._scan_calls(n, dict(self.state[n.id]))
        else:
          self._stmt(n, self.state[n.id])

  def _stmt_cached(self, node, env):
    saved = self.events
    self.events = []
    try:
      return self._stmt(node, env)
    finally:
      self.events = saved
