"""Typed access-path extraction over proto converter functions.

Given a function and a binding of some of its names to proto *references*
(message type + path from a root), records which field paths are written and
which are read.  Types come from the parsed .proto schema; helper functions of
the same module/class are inlined with their parameters bound to the caller's
references (depth bound 3); a message handed to any other callee is recorded
as a whole-subtree access (never an alarm).

Access kinds:
  write   value written            (assignment, constructor kwarg, add/append/extend/CopyFrom)
  read    value read               (load of a scalar leaf, iteration, whole-subtree hand-off)
  present presence test only       (HasField / WhichOneof / truthiness)
  truthy  truthiness of a scalar   (used by the wrapper-presence rule)
"""

from __future__ import annotations

import ast
import dataclasses
from typing import Dict, List, Optional, Set, Tuple

from vzstatic import flow
from vzstatic.index import ClassInfo, FuncInfo, Index, ModuleInfo, dotted
from vzstatic.protoschema import SCALARS, Schema


@dataclasses.dataclass(frozen=True)
class Ref:
  root: str  # message type of the root object
  path: Tuple[str, ...]
  types: Tuple[str, ...]  # possible types of the referenced value (oneof wildcard => several)
  repeated: bool = False

  @property
  def type(self) -> str:
    return self.types[0]


@dataclasses.dataclass(frozen=True)
class Access:
  kind: str  # write read present truthy
  root: str
  path: Tuple[str, ...]
  subtree: bool
  node: ast.AST = dataclasses.field(compare=False, hash=False, default=None)
  func: str = dataclasses.field(compare=False, hash=False, default='')


class Extractor:

  def __init__(self, index: Index, schema: Schema, max_depth: int = 6):
    self.index = index
    self.schema = schema
    self.max_depth = max_depth
    self.accesses: List[Access] = []
    self.unresolved: List[Tuple[str, ast.AST]] = []
    self._stack: Set = set()
    self._builds: Dict[str, bool] = {}
    self.functions_seen: Set[str] = set()

  # ------------------------------------------------------------- type names
  def pb_type(self, mi: ModuleInfo, expr: ast.AST) -> Optional[str]:
    """Full proto type named by an annotation / constructor expression."""
    if isinstance(expr, ast.Subscript):  # Optional[X], Iterable[X], List[X]
      return self.pb_type(mi, expr.slice)
    if isinstance(expr, ast.Constant) and isinstance(expr.value, str):
      try:
        return self.pb_type(mi, ast.parse(expr.value, mode='eval').body)
      except SyntaxError:
        return None
    d = dotted(expr)
    if d is None:
      return None
    parts = d.split('.')
    head = parts[0]
    if head in mi.assigns and dotted(mi.assigns[head]) and dotted(mi.assigns[head]) != d:
      return self.pb_type(mi, ast.parse(dotted(mi.assigns[head]) + ''.join('.' + p for p in parts[1:]), mode='eval').body)
    imp = mi.imports.get(head, '')
    if imp.endswith('_pb2') and len(parts) > 1:
      return self.schema.py_name_to_full(imp.rsplit('.', 1)[-1], '.'.join(parts[1:]))
    return None

  def field(self, ref: Ref, name: str) -> Optional[Ref]:
    types = []
    rep = False
    for t in ref.types:
      f = self.schema.field_type(t, name)
      if f is not None:
        types.append(f.type)
        rep = f.repeated
    if not types:
      return None
    return Ref(ref.root, ref.path + (name,), tuple(dict.fromkeys(types)), rep)

  def is_msg(self, ref: Ref) -> bool:
    return any(self.schema.is_message(t) for t in ref.types)

  # ------------------------------------------------------------------ record
  def rec(self, kind: str, ref: Ref, node: ast.AST, fi: FuncInfo, subtree: Optional[bool] = None) -> None:
    if subtree is None:
      subtree = self.is_msg(ref)
    self.accesses.append(Access(kind, ref.root, ref.path, subtree, node, fi.qualname))

  # ---------------------------------------------------------------- analysis
  def analyse(self, fi: FuncInfo, bindings: Dict[str, Ref], depth: int = 0) -> Optional[Ref]:
    """Walks `fi` with parameter bindings; returns the Ref of its return value if a message."""
    self.functions_seen.add(fi.qualname)
    env: Dict[str, Ref] = dict(bindings)
    oneof_vars: Dict[str, Tuple[Ref, str]] = {}  # name -> (message ref, oneof name)
    mi = fi.module
    # parameters with pb2 annotations not already bound
    a = fi.node.args
    for p in a.posonlyargs + a.args + a.kwonlyargs:
      if p.arg not in env and p.annotation is not None:
        t = self.pb_type(mi, p.annotation)
        if t and self.schema.is_message(t):
          rep = isinstance(p.annotation, ast.Subscript) and (dotted(p.annotation.value) or '') in (
              'Iterable', 'List', 'Sequence', 'list', 'typing.Iterable', 'typing.List')
          env[p.arg] = Ref(t, (), (t,), rep)
    ret: List[Optional[Ref]] = []

    def resolve(e: ast.AST) -> Optional[Ref]:
      if isinstance(e, ast.Name):
        return env.get(e.id)
      if isinstance(e, ast.BoolOp):
        for v in e.values:
          r = resolve(v)
          if r is not None:
            return r
        return None
      if isinstance(e, ast.Attribute):
        if isinstance(e.value, ast.Name) and e.value.id in ('self', 'cls') and fi.cls is not None:
          for c_ in self.index.mro(fi.cls):
            if e.attr in c_.annotations:
              t = self.pb_type(c_.module, c_.annotations[e.attr])
              if t and self.schema.is_message(t):
                return Ref(t, (), (t,), False)
          return None
        base = resolve(e.value)
        if base is None:
          return None
        return self.field(base, e.attr)
      if isinstance(e, ast.Subscript):
        base = resolve(e.value)
        if base is None:
          return None
        if isinstance(e.slice, ast.Slice):
          return base
        return Ref(base.root, base.path, base.types, False)
      if isinstance(e, ast.Call):
        d = dotted(e.func) or ''
        if d == 'getattr' and len(e.args) >= 2:
          base = resolve(e.args[0])
          if base is None:
            return None
          k = e.args[1]
          if isinstance(k, ast.Constant) and isinstance(k.value, str):
            return self.field(base, k.value)
          if isinstance(k, ast.Name) and k.id in oneof_vars:
            mref, oname = oneof_vars[k.id]
            members = []
            for t in mref.types:
              m = self.schema.message(t)
              if m and oname in m.oneofs:
                members = m.oneofs[oname]
            types = []
            for mem in members:
              f = self.field(base, mem)
              if f:
                types.extend(f.types)
            if types:
              return Ref(base.root, base.path + (f'<oneof:{oname}>',), tuple(dict.fromkeys(types)), False)
          return None
        if d in ('list', 'sorted', 'tuple', 'reversed', 'iter', 'enumerate', 'copy.deepcopy', 'copy.copy') and e.args:
          return resolve(e.args[0])
        # constructor
        t = self.pb_type(mi, e.func)
        if t and self.schema.is_message(t):
          return Ref(t, (), (t,), False)
      return None

    def visit_store(target: ast.AST, value: Optional[ast.AST], node: ast.AST) -> None:
      if isinstance(target, ast.Name):
        if value is None:
          return
        r = resolve(value)
        if r is not None and (self.is_msg(r)):
          env[target.id] = r
        elif target.id in env and r is None:
          # rebinding to a non-proto value
          if not (isinstance(value, ast.Call) and self._callee(fi, value) is not None):
            env.pop(target.id, None)
        # x = proto.WhichOneof('o')
        if isinstance(value, ast.Call) and isinstance(value.func, ast.Attribute) and value.func.attr == 'WhichOneof' \
            and value.args and isinstance(value.args[0], ast.Constant):
          m = resolve(value.func.value)
          if m is not None:
            oneof_vars[target.id] = (m, value.args[0].value)
        if isinstance(value, ast.BoolOp) and isinstance(value.op, ast.Or) and value.values \
            and isinstance(value.values[0], ast.Call) and isinstance(value.values[0].func, ast.Attribute) \
            and value.values[0].func.attr == 'WhichOneof':
          m = resolve(value.values[0].func.value)
          if m is not None and value.values[0].args and isinstance(value.values[0].args[0], ast.Constant):
            oneof_vars[target.id] = (m, value.values[0].args[0].value)
        return
      if isinstance(target, (ast.Tuple, ast.List)):
        for el in target.elts:
          visit_store(el, None, node)
        return
      r = resolve(target if not isinstance(target, ast.Subscript) else target.value)
      if r is not None and r.path:
        self.rec('write', r, node, fi)
      elif r is None:
        # a store into a non-proto object: the sub-expressions of the target are loads
        if isinstance(target, ast.Subscript):
          visit_expr(target.value)
          visit_expr(target.slice)
        elif isinstance(target, ast.Attribute):
          visit_expr(target.value)

    def visit_expr(e: ast.AST, load_ctx: str = 'read') -> None:
      """Records reads inside expression e."""
      if e is None:
        return
      if isinstance(e, ast.Attribute):
        r = resolve(e)
        if r is not None:
          if r.path:
            self.rec(load_ctx, r, e, fi, subtree=self.is_msg(r) and load_ctx == 'read')
          return
        visit_expr(e.value, load_ctx)
        return
      if isinstance(e, ast.Call):
        visit_call(e)
        return
      if isinstance(e, ast.Name):
        return
      if isinstance(e, (ast.ListComp, ast.SetComp, ast.GeneratorExp, ast.DictComp)):
        for g in e.generators:
          it = resolve(g.iter)
          if it is not None and isinstance(g.target, ast.Name):
            env[g.target.id] = Ref(it.root, it.path, it.types, False)
            if it.path:
              self.rec('present', it, g.iter, fi, subtree=False)
          else:
            visit_expr(g.iter)
          for c in g.ifs:
            visit_test(c)
        if isinstance(e, ast.DictComp):
          visit_expr(e.key)
          visit_expr(e.value)
        else:
          visit_expr(e.elt)
        return
      if isinstance(e, ast.IfExp):
        visit_test(e.test)
        visit_expr(e.body)
        visit_expr(e.orelse)
        return
      if isinstance(e, ast.Lambda):
        return
      for c in ast.iter_child_nodes(e):
        if isinstance(c, ast.expr):
          visit_expr(c, load_ctx)
        elif isinstance(c, ast.keyword):
          visit_expr(c.value, load_ctx)

    def visit_test(t: ast.AST) -> None:
      if isinstance(t, ast.BoolOp):
        for v in t.values:
          visit_test(v)
        return
      if isinstance(t, ast.UnaryOp) and isinstance(t.op, ast.Not):
        visit_test(t.operand)
        return
      r = resolve(t) if isinstance(t, (ast.Attribute, ast.Name, ast.Call, ast.Subscript)) else None
      if r is not None and r.path and not (isinstance(t, ast.Call) and not (dotted(t.func) == 'getattr')):
        # bare truthiness of a field
        scalar = not self.is_msg(r)
        self.rec('truthy' if scalar and not r.repeated else 'present', r, t, fi, subtree=False)
        return
      visit_expr(t)

    def visit_call(c: ast.Call) -> None:
      d = dotted(c.func) or ''
      f = c.func
      # ---- methods on a proto reference
      if isinstance(f, ast.Attribute):
        recv = resolve(f.value)
        if recv is not None:
          m = f.attr
          if m == 'HasField' and c.args and isinstance(c.args[0], ast.Constant):
            fr = self.field(recv, c.args[0].value)
            if fr is not None:
              self.rec('present', fr, c, fi, subtree=False)
            return
          if m in ('WhichOneof',):
            return
          if m == 'ClearField':
            return
          if m == 'add':
            for k in c.keywords:
              fr = self.field(Ref(recv.root, recv.path, recv.types, False), k.arg) if k.arg else None
              if fr is not None:
                self.rec('write', fr, c, fi)
              visit_expr(k.value)
            if not c.keywords and recv.path:
              self.rec('write', recv, c, fi, subtree=True)
            return
          if m in ('append', 'extend', 'CopyFrom', 'MergeFrom', 'Pack', 'insert'):
            if recv.path:
              self.rec('write', recv, c, fi, subtree=True)
            for a_ in c.args:
              visit_expr(a_)
            return
          if m in ('SerializeToString', 'FromString', 'Unpack', 'Name', 'Value', 'items', 'keys', 'values'):
            if recv.path:
              self.rec('read', recv, c, fi, subtree=True)
            return
      # ---- getattr(proto, x) as a value
      if d == 'getattr':
        r = resolve(c)
        if r is not None and r.path:
          self.rec('read', r, c, fi, subtree=self.is_msg(r))
        return
      # ---- constructor of a message: kwargs are writes on a fresh root
      t = self.pb_type(mi, c.func)
      if t and self.schema.is_message(t):
        base = Ref(t, (), (t,), False)
        for k in c.keywords:
          if k.arg:
            fr = self.field(base, k.arg)
            if fr is not None:
              self.rec('write', fr, c, fi)
          visit_expr(k.value)
        for a_ in c.args:
          visit_expr(a_)
        return
      # ---- calls to repo functions with proto arguments
      callee = self._callee(fi, c)
      args = list(c.args) + [k.value for k in c.keywords]
      proto_args = [(i, a_, resolve(a_)) for i, a_ in enumerate(c.args)]
      kw_proto = [(k.arg, k.value, resolve(k.value)) for k in c.keywords]
      has_proto = any(r is not None for _, _, r in proto_args) or any(r is not None for _, _, r in kw_proto)
      if callee is not None and depth < self.max_depth and self._inlinable(fi, callee) \
          and (has_proto or self._builds_protos(callee)):
        params = [p for p in callee.params if p not in ('self', 'cls')]
        b: Dict[str, Ref] = {}
        for i, a_, r in proto_args:
          if r is not None and i < len(params):
            b[params[i]] = r
        for name, v, r in kw_proto:
          if r is not None and name in params:
            b[name] = r
        key = (callee.qualname, tuple(sorted((k, v.root, v.path) for k, v in b.items())))
        if key not in self._stack:
          self._stack.add(key)
          try:
            self.analyse(callee, b, depth + 1)
          finally:
            self._stack.discard(key)
        for a_ in args:
          if resolve(a_) is None or isinstance(a_, ast.Call):
            visit_expr(a_)
        return
      if has_proto:
        # handed to another converter / unresolved callee: whole-subtree access
        for _, a_, r in proto_args + [(0, v, r) for _, v, r in kw_proto]:
          if r is not None:
            if r.path:
              self.rec('read', r, c, fi, subtree=True)
              self.rec('write-maybe', r, c, fi, subtree=True)
        if callee is None:
          self.unresolved.append((fi.qualname, c))
      for a_ in args:
        if resolve(a_) is None or isinstance(a_, ast.Call):
          visit_expr(a_)
      if isinstance(f, ast.Attribute) and resolve(f.value) is None:
        visit_expr(f.value)

    def visit_stmt(st: ast.stmt) -> None:
      if isinstance(st, ast.Assign):
        visit_expr(st.value)
        for t in st.targets:
          visit_store(t, st.value, st)
      elif isinstance(st, ast.AnnAssign):
        if st.value is not None:
          visit_expr(st.value)
          visit_store(st.target, st.value, st)
      elif isinstance(st, ast.AugAssign):
        visit_expr(st.value)
        visit_store(st.target, None, st)
      elif isinstance(st, ast.Expr):
        visit_expr(st.value)
      elif isinstance(st, ast.Return):
        if st.value is not None:
          visit_expr(st.value)
          ret.append(resolve(st.value))
      elif isinstance(st, ast.If):
        visit_test(st.test)
        for s in st.body + st.orelse:
          visit_stmt(s)
      elif isinstance(st, ast.For):
        it = resolve(st.iter)
        if it is not None and isinstance(st.target, ast.Name):
          env[st.target.id] = Ref(it.root, it.path, it.types, False)
          if it.path:
            self.rec('present', it, st.iter, fi, subtree=False)
        else:
          visit_expr(st.iter)
        for s in st.body + st.orelse:
          visit_stmt(s)
      elif isinstance(st, ast.While):
        visit_test(st.test)
        for s in st.body + st.orelse:
          visit_stmt(s)
      elif isinstance(st, ast.Try):
        for s in st.body + st.orelse + st.finalbody:
          visit_stmt(s)
        for h in st.handlers:
          for s in h.body:
            visit_stmt(s)
      elif isinstance(st, ast.With):
        for s in st.body:
          visit_stmt(s)
      elif isinstance(st, ast.Raise):
        pass  # error messages may print whole protos; not a conversion read
      elif isinstance(st, ast.Assert):
        visit_test(st.test)

    for st in fi.node.body:
      visit_stmt(st)
    rs = [r for r in ret if r is not None]
    return rs[0] if rs else None

  def _callee(self, fi: FuncInfo, c: ast.Call) -> Optional[FuncInfo]:
    d = dotted(c.func)
    if d is None:
      return None
    parts = d.split('.')
    if parts[0] in ('cls', 'self') and len(parts) == 2 and fi.cls is not None:
      return self.index.find_method(fi.cls, parts[1])
    sym = self.index.resolve(fi.module, d)
    if isinstance(sym, FuncInfo):
      return sym
    return None

  def _builds_protos(self, callee: FuncInfo) -> bool:
    """Does the callee (syntactically) construct or annotate pb2 messages?"""
    if callee.qualname not in self._builds:
      v = False
      for x in ast.walk(callee.node):
        d = dotted(x) if isinstance(x, ast.Attribute) else None
        if d and d.split('.')[0] in callee.module.imports and callee.module.imports[d.split('.')[0]].endswith('_pb2'):
          v = True
          break
      if not v:
        for c in flow.calls_in(callee.node):
          cc = self._callee(callee, c)
          if cc is not None and cc.qualname != callee.qualname and cc.module.name.endswith(('proto_converters', 'metadata_util')):
            v = True
            break
      self._builds[callee.qualname] = v
    return self._builds[callee.qualname]

  def _inlinable(self, fi: FuncInfo, callee: FuncInfo) -> bool:
    """Helpers (private functions / same-class private methods / metadata_util) are inlined;
    public converter entry points (to_proto/from_proto of other classes) are hand-offs."""
    if callee.qualname == fi.qualname:
      return False
    if callee.name.startswith('_') and not callee.name.startswith('__'):
      return True
    if callee.module.name.endswith(('metadata_util', 'proto_converters')):
      return True
    return False
