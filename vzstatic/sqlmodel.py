"""A small symbolic model of SQLAlchemy query construction inside one function.

Evaluates the expressions that build a statement — `table.delete()`, `sqla.delete(table)`, `sqla.select(..)`,
`.where(a, b)`, chained or re-assigned (`q = q.where(..)`), table aliases (`trials = self._trials_table`), predicates
bound to locals — to (kind, table attribute, where clauses), so that rules do not depend on how a query is spelled.
"""

from __future__ import annotations

import ast
import dataclasses
from typing import Dict, List, Optional, Set, Tuple

from vzstatic import flow
from vzstatic.index import dotted


@dataclasses.dataclass
class Query:
  kind: str  # select | insert | update | delete | unknown
  table: Optional[str]  # attribute name on self, e.g. '_trials_table'
  wheres: List[ast.AST]
  tables_mentioned: Set[str]
  shaping: List[Tuple[str, ast.Call]]  # order_by / limit / offset / distinct / group_by


def _table_of(fn: ast.AST, e: ast.AST) -> Optional[str]:
  e = flow.resolve_local(fn, e)
  d = dotted(e) or ''
  if d.startswith('self.') and d.endswith('_table') and d.count('.') == 1:
    return d[5:]
  return None


def _tables_in(fn: ast.AST, e: ast.AST) -> Set[str]:
  out = set()
  for x in ast.walk(e):
    if isinstance(x, (ast.Attribute, ast.Name)):
      t = _table_of(fn, x)
      if t:
        out.add(t)
  return out


class SqlModel:

  def __init__(self, fn: ast.AST):
    self.fn = fn
    # all assignments per local, in source order (queries are built by re-assignment)
    self.assigns: Dict[str, List[ast.AST]] = {}
    for n in ast.walk(fn):
      if isinstance(n, ast.Assign) and len(n.targets) == 1 and isinstance(n.targets[0], ast.Name):
        self.assigns.setdefault(n.targets[0].id, []).append(n)
    for v in self.assigns.values():
      v.sort(key=lambda a: (a.lineno, a.col_offset))

  def eval(self, e: ast.AST, upto: Optional[ast.AST] = None, depth: int = 0) -> Optional[Query]:
    if depth > 12:
      return None
    if isinstance(e, ast.Name):
      defs = self.assigns.get(e.id, [])
      if upto is not None:
        defs = [d for d in defs if (d.lineno, d.col_offset) < (getattr(upto, 'lineno', 10**9), getattr(upto, 'col_offset', 0))] or defs
      if not defs:
        return None
      return self.eval(defs[-1].value, defs[-1], depth + 1)
    if not isinstance(e, ast.Call):
      return None
    d = dotted(e.func) or ''
    last = d.rsplit('.', 1)[-1] if d else (e.func.attr if isinstance(e.func, ast.Attribute) else '')
    if isinstance(e.func, ast.Attribute) and e.func.attr in ('delete', 'insert', 'update', 'select') and not e.args:
      t = _table_of(self.fn, e.func.value)
      if t:
        return Query(e.func.attr, t, [], {t}, [])
    if d in ('sqla.delete', 'sqla.insert', 'sqla.update', 'sqlalchemy.delete', 'sqlalchemy.insert', 'sqlalchemy.update') and e.args:
      t = _table_of(self.fn, e.args[0])
      return Query(last, t, [], {t} if t else set(), [])
    if d in ('sqla.select', 'sqlalchemy.select'):
      tabs = set()
      for a in e.args:
        tabs |= _tables_in(self.fn, a)
      inner = None
      for a in e.args:
        q = self.eval(a, upto, depth + 1)
        if q is not None:
          inner = q
      if inner is not None:
        return Query('select', inner.table, list(inner.wheres), inner.tables_mentioned | tabs, list(inner.shaping))
      return Query('select', next(iter(tabs)) if len(tabs) == 1 else None, [], tabs, [])
    if d in ('sqla.exists', 'sqlalchemy.exists') and e.args:
      q = self.eval(e.args[0], upto, depth + 1)
      if q is not None:
        return Query('select', q.table, list(q.wheres), set(q.tables_mentioned), list(q.shaping))
    if isinstance(e.func, ast.Attribute):
      base = self.eval(e.func.value, upto if isinstance(e.func.value, ast.Name) else upto, depth + 1)
      if base is not None:
        m = e.func.attr
        if m in ('where', 'filter', 'having'):
          base.wheres.extend(flow.resolve_local(self.fn, a) for a in e.args)
        elif m in ('order_by', 'limit', 'offset', 'distinct', 'group_by'):
          base.shaping.append((m, e))
        for a in list(e.args) + [k.value for k in e.keywords]:
          base.tables_mentioned |= _tables_in(self.fn, a)
        return base
    return None

  def executed(self) -> List[Tuple[ast.Call, Query]]:
    """(execute call, query) for every statement handed to the connection / the write wrapper."""
    out = []
    for c in ast.walk(self.fn):
      if not isinstance(c, ast.Call):
        continue
      d = dotted(c.func) or ''
      last = d.rsplit('.', 1)[-1]
      if d.endswith('.execute') and c.args:
        args = [c.args[0]]
      elif last.startswith('_') and not last.startswith('__') and d in (last, f'self.{last}'):
        # a private wrapper handed a statement (the rollback wrapper, whatever it is called)
        args = [a for a in c.args if self.eval(a, c) is not None] or [a for a in c.args if isinstance(a, ast.Name)][-1:]
      else:
        continue
      if not args:
        continue
      a = args[0]
      cands = [a]
      if isinstance(a, ast.Name):
        # loop variable over a literal collection of queries
        from vzstatic.source import ancestors
        for anc in ancestors(c):
          if isinstance(anc, ast.For) and isinstance(anc.target, ast.Name) and anc.target.id == a.id:
            it = flow.resolve_local(self.fn, anc.iter)
            if isinstance(it, (ast.Tuple, ast.List)):
              cands = list(it.elts)
      for x in cands:
        q = self.eval(x, c)
        if q is not None:
          out.append((c, q))
    return out
