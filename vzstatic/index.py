"""Module / class / function index with import and alias resolution.

Resolution is lazy: a module is parsed the first time a name is looked up in
it.  Symbols are identified by dotted qualified names
(``vizier._src.service.grpc_util.handle_exception``).
"""

from __future__ import annotations

import ast
import dataclasses
from typing import Dict, Iterable, List, Optional, Tuple, Union

from vzstatic.source import AnalysisError, Source


@dataclasses.dataclass
class FuncInfo:
  qualname: str
  name: str
  node: Union[ast.FunctionDef, ast.Lambda]
  module: 'ModuleInfo'
  cls: Optional['ClassInfo'] = None

  @property
  def file(self) -> str:
    return self.module.file

  @property
  def decorators(self) -> List[str]:
    out = []
    for d in getattr(self.node, 'decorator_list', []):
      out.append(dotted(d.func if isinstance(d, ast.Call) else d) or '?')
    return out

  @property
  def params(self) -> List[str]:
    a = self.node.args
    return [x.arg for x in a.posonlyargs + a.args + a.kwonlyargs]

  def __hash__(self):
    return hash(self.qualname)

  def __eq__(self, other):
    return isinstance(other, FuncInfo) and other.qualname == self.qualname


@dataclasses.dataclass
class ClassInfo:
  qualname: str
  name: str
  node: ast.ClassDef
  module: 'ModuleInfo'
  methods: Dict[str, FuncInfo] = dataclasses.field(default_factory=dict)
  assigns: Dict[str, ast.expr] = dataclasses.field(default_factory=dict)
  annotations: Dict[str, ast.expr] = dataclasses.field(default_factory=dict)
  classes: Dict[str, 'ClassInfo'] = dataclasses.field(default_factory=dict)

  @property
  def file(self) -> str:
    return self.module.file

  def __hash__(self):
    return hash(self.qualname)

  def __eq__(self, other):
    return isinstance(other, ClassInfo) and other.qualname == self.qualname


@dataclasses.dataclass
class ModuleInfo:
  name: str
  file: str
  tree: ast.Module
  imports: Dict[str, str] = dataclasses.field(default_factory=dict)
  functions: Dict[str, FuncInfo] = dataclasses.field(default_factory=dict)
  classes: Dict[str, ClassInfo] = dataclasses.field(default_factory=dict)
  assigns: Dict[str, ast.expr] = dataclasses.field(default_factory=dict)

  def __hash__(self):
    return hash(self.name)


Symbol = Union[FuncInfo, ClassInfo, ModuleInfo]


def dotted(expr: ast.AST) -> Optional[str]:
  """'a.b.c' for Name/Attribute chains, else None."""
  parts = []
  while isinstance(expr, ast.Attribute):
    parts.append(expr.attr)
    expr = expr.value
  if isinstance(expr, ast.Name):
    parts.append(expr.id)
    return '.'.join(reversed(parts))
  return None


class Index:
  """Lazy symbol index over the repository."""

  def __init__(self, src: Source):
    self.src = src
    self._modules: Dict[str, Optional[ModuleInfo]] = {}
    self._by_file: Dict[str, ModuleInfo] = {}
    self._all_loaded = False

  # ---------------------------------------------------------------- modules
  def module_file(self, name: str) -> Optional[str]:
    base = name.replace('.', '/')
    for cand in (base + '.py', base + '/__init__.py'):
      if self.src.exists(cand):
        return cand
    return None

  @staticmethod
  def file_module(rel: str) -> str:
    n = rel[:-3] if rel.endswith('.py') else rel
    if n.endswith('/__init__'):
      n = n[: -len('/__init__')]
    return n.replace('/', '.')

  def module(self, name: str) -> Optional[ModuleInfo]:
    if name in self._modules:
      return self._modules[name]
    f = self.module_file(name)
    if f is None:
      self._modules[name] = None
      return None
    tree = self.src.parse(f)
    mi = ModuleInfo(name=name, file=f, tree=tree)
    self._modules[name] = mi
    self._by_file[f] = mi
    self._fill(mi)
    return mi

  def module_of_file(self, rel: str) -> ModuleInfo:
    mi = self.module(self.file_module(rel))
    if mi is None:
      raise AnalysisError(f'anchor file missing: {rel}')
    return mi

  def load_all(self, include_tests: bool = False) -> List[ModuleInfo]:
    out = []
    for f in self.src.py_files(include_tests=include_tests):
      mi = self.module(self.file_module(f))
      if mi is not None:
        out.append(mi)
    return out

  def _fill(self, mi: ModuleInfo) -> None:
    pkg = mi.name if mi.file.endswith('__init__.py') else mi.name.rpartition('.')[0]

    def add_imports(body):
      for st in body:
        if isinstance(st, ast.Import):
          for a in st.names:
            if a.asname:
              mi.imports[a.asname] = a.name
            else:
              mi.imports[a.name.split('.')[0]] = a.name.split('.')[0]
        elif isinstance(st, ast.ImportFrom):
          base = st.module or ''
          if st.level:
            parts = pkg.split('.')
            parts = parts[: len(parts) - (st.level - 1)]
            base = '.'.join(parts + ([st.module] if st.module else []))
          for a in st.names:
            mi.imports[a.asname or a.name] = f'{base}.{a.name}'
        elif isinstance(st, (ast.If, ast.Try)):
          add_imports(st.body)
          add_imports(getattr(st, 'orelse', []))
          for h in getattr(st, 'handlers', []):
            add_imports(h.body)

    add_imports(mi.tree.body)
    for st in mi.tree.body:
      if isinstance(st, ast.FunctionDef):
        mi.functions[st.name] = FuncInfo(f'{mi.name}.{st.name}', st.name, st, mi)
      elif isinstance(st, ast.ClassDef):
        mi.classes[st.name] = self._class(mi, st, mi.name)
      elif isinstance(st, ast.Assign):
        for t in st.targets:
          if isinstance(t, ast.Name):
            mi.assigns[t.id] = st.value
      elif isinstance(st, ast.AnnAssign) and isinstance(st.target, ast.Name) and st.value:
        mi.assigns[st.target.id] = st.value

  def _class(self, mi: ModuleInfo, node: ast.ClassDef, prefix: str) -> ClassInfo:
    ci = ClassInfo(f'{prefix}.{node.name}', node.name, node, mi)
    for st in node.body:
      if isinstance(st, ast.FunctionDef):
        ci.methods[st.name] = FuncInfo(f'{ci.qualname}.{st.name}', st.name, st, mi, ci)
      elif isinstance(st, ast.Assign):
        for t in st.targets:
          if isinstance(t, ast.Name):
            ci.assigns[t.id] = st.value
      elif isinstance(st, ast.AnnAssign) and isinstance(st.target, ast.Name):
        ci.annotations[st.target.id] = st.annotation
        if st.value is not None:
          ci.assigns[st.target.id] = st.value
      elif isinstance(st, ast.ClassDef):
        ci.classes[st.name] = self._class(mi, st, ci.qualname)
    return ci

  # ------------------------------------------------------------- resolution
  def lookup(self, qual: str) -> Optional[Symbol]:
    """Finds the symbol for a fully qualified dotted name, following re-exports."""
    return self._lookup(qual, 0)

  def _lookup(self, qual: str, depth: int) -> Optional[Symbol]:
    if depth > 12:
      return None
    parts = qual.split('.')
    # longest module prefix
    for i in range(len(parts), 0, -1):
      mname = '.'.join(parts[:i])
      if self.module_file(mname) is None:
        continue
      mi = self.module(mname)
      cur: Optional[Symbol] = mi
      rest = parts[i:]
      while rest and cur is not None:
        cur = self._member(cur, rest[0], depth)
        rest = rest[1:]
      if cur is not None:
        return cur
    return None

  def _member(self, sym: Symbol, name: str, depth: int) -> Optional[Symbol]:
    if isinstance(sym, ModuleInfo):
      if name in sym.classes:
        return sym.classes[name]
      if name in sym.functions:
        return sym.functions[name]
      if name in sym.imports:
        return self._lookup(sym.imports[name], depth + 1)
      if name in sym.assigns:
        d = dotted(sym.assigns[name])
        if d:
          return self.resolve(sym, d, depth + 1)
      # submodule
      sub = self.module(f'{sym.name}.{name}')
      return sub
    if isinstance(sym, ClassInfo):
      if name in sym.classes:
        return sym.classes[name]
      m = self.find_method(sym, name)
      if m is not None:
        return m
      for c in self.mro(sym):
        if name in c.assigns:
          d = dotted(c.assigns[name])
          if d:
            return self.resolve(c.module, d, depth + 1)
      return None
    return None

  def resolve(self, mi: ModuleInfo, name: str, depth: int = 0) -> Optional[Symbol]:
    """Resolves a dotted name as written inside module `mi`."""
    if depth > 12:
      return None
    parts = name.split('.')
    head = parts[0]
    cur: Optional[Symbol]
    if head in mi.classes:
      cur = mi.classes[head]
    elif head in mi.functions:
      cur = mi.functions[head]
    elif head in mi.assigns and dotted(mi.assigns[head]) and dotted(mi.assigns[head]) != name:
      cur = self.resolve(mi, dotted(mi.assigns[head]), depth + 1)
    elif head in mi.imports:
      target = mi.imports[head]
      cur = self._lookup(target, depth + 1)
      if cur is None:
        return None
    else:
      return None
    for p in parts[1:]:
      if cur is None:
        return None
      cur = self._member(cur, p, depth)
    return cur

  def resolve_external(self, mi: ModuleInfo, name: str) -> Optional[str]:
    """Dotted name with the import alias expanded (for non-repo symbols)."""
    parts = name.split('.')
    if parts[0] in mi.imports:
      return '.'.join([mi.imports[parts[0]]] + parts[1:])
    if parts[0] in mi.assigns:
      d = dotted(mi.assigns[parts[0]])
      if d and d != name:
        r = self.resolve_external(mi, d)
        if r:
          return '.'.join([r] + parts[1:])
    return None

  # ---------------------------------------------------------------- classes
  def bases(self, ci: ClassInfo) -> List[Union[ClassInfo, str]]:
    out: List[Union[ClassInfo, str]] = []
    for b in ci.node.bases:
      if isinstance(b, ast.Subscript):  # Generic[...]
        b = b.value
      d = dotted(b)
      if d is None:
        out.append(ast.unparse(b))
        continue
      # nested class scope
      sym = self.resolve(ci.module, d)
      if isinstance(sym, ClassInfo):
        out.append(sym)
      else:
        out.append(self.resolve_external(ci.module, d) or d)
    return out

  def mro(self, ci: ClassInfo) -> List[ClassInfo]:
    out: List[ClassInfo] = []
    seen = set()

    def go(c: ClassInfo):
      if c.qualname in seen:
        return
      seen.add(c.qualname)
      out.append(c)
      for b in self.bases(c):
        if isinstance(b, ClassInfo):
          go(b)

    go(ci)
    return out

  def external_bases(self, ci: ClassInfo) -> List[str]:
    out = []
    for c in self.mro(ci):
      for b in self.bases(c):
        if isinstance(b, str):
          out.append(b)
    return out

  def find_method(self, ci: ClassInfo, name: str) -> Optional[FuncInfo]:
    for c in self.mro(ci):
      if name in c.methods:
        return c.methods[name]
    return None

  def is_subclass(self, ci: ClassInfo, qual: str) -> bool:
    for c in self.mro(ci):
      if c.qualname == qual:
        return True
    return qual in self.external_bases(ci)

  def all_classes(self, include_tests: bool = False) -> Iterable[ClassInfo]:
    for mi in self.load_all(include_tests):
      stack = list(mi.classes.values())
      while stack:
        c = stack.pop()
        yield c
        stack.extend(c.classes.values())

  def subclasses(self, qual: str, include_tests: bool = False) -> List[ClassInfo]:
    return sorted(
        (c for c in self.all_classes(include_tests)
         if c.qualname != qual and self.is_subclass(c, qual)),
        key=lambda c: c.qualname)

  def all_functions(self, include_tests: bool = False) -> Iterable[FuncInfo]:
    for mi in self.load_all(include_tests):
      yield from mi.functions.values()
      stack = list(mi.classes.values())
      while stack:
        c = stack.pop()
        yield from c.methods.values()
        stack.extend(c.classes.values())

  # ------------------------------------------------------------ convenience
  def need_class(self, qual: str) -> ClassInfo:
    s = self.lookup(qual)
    if not isinstance(s, ClassInfo):
      raise AnalysisError(f'anchor class not found: {qual}')
    return s

  def need_func(self, qual: str) -> FuncInfo:
    s = self.lookup(qual)
    if not isinstance(s, FuncInfo):
      raise AnalysisError(f'anchor function not found: {qual}')
    return s

  def need_module(self, name: str) -> ModuleInfo:
    m = self.module(name)
    if m is None:
      raise AnalysisError(f'anchor module not found: {name}')
    return m


# ----------------------------------------------------------- exception lattice
_BUILTIN_EXC_PARENT = {
    'BaseException': None,
    'Exception': 'BaseException',
    'ArithmeticError': 'Exception',
    'ZeroDivisionError': 'ArithmeticError',
    'OverflowError': 'ArithmeticError',
    'AssertionError': 'Exception',
    'AttributeError': 'Exception',
    'LookupError': 'Exception',
    'IndexError': 'LookupError',
    'KeyError': 'LookupError',
    'NameError': 'Exception',
    'OSError': 'Exception',
    'IOError': 'Exception',
    'RuntimeError': 'Exception',
    'NotImplementedError': 'RuntimeError',
    'RecursionError': 'RuntimeError',
    'StopIteration': 'Exception',
    'TypeError': 'Exception',
    'ValueError': 'Exception',
    'UnicodeError': 'ValueError',
    'grpc.RpcError': 'Exception',
    'sqlalchemy.exc.IntegrityError': 'Exception',
    'sqla.exc.IntegrityError': 'Exception',
    'google.protobuf.message.DecodeError': 'Exception',
    'json.JSONDecodeError': 'ValueError',
}


class ExcLattice:
  """Subclass relation over exception classes (repo classes + frozen builtins)."""

  def __init__(self, index: Index):
    self.index = index

  def name_of(self, mi: ModuleInfo, expr: ast.AST) -> str:
    d = dotted(expr)
    if d is None:
      return ast.unparse(expr)
    sym = self.index.resolve(mi, d)
    if isinstance(sym, ClassInfo):
      return sym.qualname
    ext = self.index.resolve_external(mi, d)
    return ext or d

  def supers(self, name: str) -> List[str]:
    """All (transitive) superclasses including `name` itself."""
    out = []
    seen = set()
    stack = [name]
    while stack:
      n = stack.pop()
      if n in seen or n is None:
        continue
      seen.add(n)
      out.append(n)
      sym = self.index.lookup(n) if '.' in n else None
      if isinstance(sym, ClassInfo):
        for b in self.index.bases(sym):
          stack.append(b.qualname if isinstance(b, ClassInfo) else b)
      elif n in _BUILTIN_EXC_PARENT:
        stack.append(_BUILTIN_EXC_PARENT[n])
      else:
        short = n.rsplit('.', 1)[-1]
        if short in _BUILTIN_EXC_PARENT and short != n:
          stack.append(short)
        elif n not in ('BaseException',):
          # unknown class: assume it derives from Exception
          stack.append('Exception')
    return out

  def is_sub(self, name: str, ancestor: str) -> bool:
    return ancestor in self.supers(name)

  def handler_names(self, mi: ModuleInfo, h: ast.ExceptHandler) -> List[str]:
    if h.type is None:
      return ['BaseException']
    if isinstance(h.type, ast.Tuple):
      return [self.name_of(mi, e) for e in h.type.elts]
    return [self.name_of(mi, h.type)]

  def catches(self, mi: ModuleInfo, h: ast.ExceptHandler, exc: str) -> str:
    """'all' | 'may' | 'no' — does handler h catch raised class `exc`?

    `exc` == '*' means an arbitrary Exception subclass.
    """
    hs = self.handler_names(mi, h)
    if exc == '*':
      if any(x in ('Exception', 'BaseException') for x in hs):
        return 'all'
      return 'may'
    for hn in hs:
      if self.is_sub(exc, hn):
        return 'all'
    for hn in hs:
      if self.is_sub(hn, exc):
        return 'may'  # raised static class is a superclass of handler
    return 'no'
