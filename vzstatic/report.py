"""Obligations, findings, known-findings matching, evidence and exit codes."""

from __future__ import annotations

import ast
import dataclasses
import json
import os
import re
import time
from typing import Any, Dict, List, Optional

from vzstatic.index import ExcLattice, Index
from vzstatic.source import AnalysisError, Source, loc, unparse

VERIF_DIR = os.path.dirname(os.path.dirname(os.path.abspath(__file__)))
KNOWN_FILE = os.path.join(VERIF_DIR, 'known_findings.json')


@dataclasses.dataclass
class Obligation:
  rule: str
  instance: str
  where: str
  ok: bool
  detail: str = ''
  key: str = ''
  path: Optional[List[str]] = None
  info_only: bool = False

  def to_json(self) -> Dict[str, Any]:
    d = {'rule': self.rule, 'instance': self.instance, 'where': self.where,
         'verdict': 'ok' if self.ok else ('info' if self.info_only else 'VIOLATED'),
         'detail': self.detail}
    if not self.ok:
      d['key'] = self.key
    if self.path:
      d['path'] = self.path
    return d


def norm_construct(node_or_text) -> str:
  """Stable text of a construct: unparse, whitespace-normalised."""
  if isinstance(node_or_text, ast.AST):
    s = unparse(node_or_text, limit=0)
  else:
    s = str(node_or_text)
  return re.sub(r'\s+', ' ', s).strip()


class Ctx:
  """State of one check run."""

  def __init__(self, prop: str, tier: str = 'quick', src: Optional[Source] = None):
    self.prop = prop
    self.tier = tier
    self.src = src or Source()
    self.index = Index(self.src)
    self.lattice = ExcLattice(self.index)
    self.obligations: List[Obligation] = []
    self.infos: List[str] = []
    self.units: Dict[str, int] = {}
    self.trusted: List[str] = []
    self.assumptions: List[str] = []
    self.rules: Dict[str, str] = {}
    self.min_instances: Dict[str, int] = {}
    self.extra: Dict[str, Any] = {}
    self.t0 = time.time()

  # ---------------------------------------------------------------- record
  def rule(self, rid: str, text: str, min_instances: int = 1) -> None:
    self.rules[rid] = text
    self.min_instances[rid] = min_instances

  def ok(self, rule: str, instance: str, where, detail: str = '') -> None:
    self.obligations.append(Obligation(rule, instance, _where(where), True, detail))

  def bad(self, rule: str, instance: str, where, detail: str,
          construct=None, func: str = '', path=None) -> None:
    key = f'{self.prop}.{rule}|{func or instance}|{norm_construct(construct) if construct is not None else ""}'
    self.obligations.append(Obligation(
        rule, instance, _where(where), False, detail, key=key,
        path=[repr(p) if not isinstance(p, str) else p for p in path] if path else None))

  def check(self, cond: bool, rule: str, instance: str, where, detail_ok: str = '',
            detail_bad: str = '', construct=None, func: str = '', path=None) -> bool:
    if cond:
      self.ok(rule, instance, where, detail_ok)
    else:
      self.bad(rule, instance, where, detail_bad or detail_ok, construct, func, path)
    return cond

  def info(self, text: str) -> None:
    self.infos.append(text)

  def count(self, unit: str, n: int = 1) -> None:
    self.units[unit] = self.units.get(unit, 0) + n

  def trust(self, text: str) -> None:
    if text not in self.trusted:
      self.trusted.append(text)

  def assume(self, text: str) -> None:
    if text not in self.assumptions:
      self.assumptions.append(text)

  # ------------------------------------------------------- shared rules
  def import_rules(self, src_prop: str, rules, new_rule: str, text: str) -> None:
    """Re-uses rules of another property's module as rule `new_rule` of this check.

    Several properties rest on the same structural obligation (e.g. C01's "illegal calls change
    nothing" needs C04's guard-and-write-in-one-critical-section; C02's fresh ids need C07's
    max_trial_id contract).  The source module is run on the same Source (same overlay) and the
    obligations of the selected rules are copied.  Findings that are *known findings of the source
    property* are not copied (they are reported there); everything else keeps its construct key.
    """
    if getattr(self, '_importing', False):
      return  # a sub-run never imports again (no cycles)
    import importlib
    mod = importlib.import_module(f'vzstatic.rules.{src_prop}')
    cache = getattr(self.src, '_ctx_cache', None)
    if cache is None:
      cache = self.src._ctx_cache = {}
    sub = cache.get(src_prop)
    if sub is None:
      sub = Ctx(src_prop, self.tier, self.src)
      sub.index, sub.lattice = self.index, self.lattice
      sub._importing = True
      try:
        mod.run(sub)
        sub.vacuity()
      except AnalysisError as e:
        # the shared rules cannot be decided on this tree: the importing check goes on with its own rules and with
        # whatever the source module had established before it gave up (violations found there are real); if nothing
        # is violated the check ends as analysis-broken (exit 2), never as a silent pass
        sub.deferred_error = f'shared rules of {src_prop}: {e}'
      cache[src_prop] = sub
    if getattr(sub, 'deferred_error', None) and not getattr(self, 'deferred_error', None):
      self.deferred_error = sub.deferred_error
    known = load_known()
    n = 0
    for o in sub.obligations:
      if o.rule not in rules or o.info_only:
        continue
      if not o.ok and match_known(src_prop, o.key, known) is not None:
        continue
      n += 1
      key = o.key
      if key.startswith(f'{src_prop}.'):
        key = f'{self.prop}.{new_rule}<{src_prop}.{o.rule}>' + key[key.index('|'):]
      self.obligations.append(Obligation(new_rule, f'[{src_prop}.{o.rule}] {o.instance}', o.where, o.ok, o.detail,
                                         key=key if not o.ok else '', path=o.path))
    self.rules[new_rule] = f'{text} (shared: {src_prop}.{"/".join(sorted(rules))})'
    self.min_instances[new_rule] = max(1, n) if n else 1
    self.trusted.extend(t for t in sub.trusted if t not in self.trusted)

  # --------------------------------------------------------------- verdict
  def vacuity(self) -> None:
    if getattr(self, 'deferred_error', None) and any(not o.ok and not o.info_only for o in self.obligations):
      return  # violations are reported; the deferred analysis error is raised by finish() otherwise
    per_rule: Dict[str, int] = {}
    for o in self.obligations:
      per_rule[o.rule] = per_rule.get(o.rule, 0) + 1
    for rid, need in self.min_instances.items():
      got = per_rule.get(rid, 0)
      if got < need:
        raise AnalysisError(
            f'rule {rid} matched {got} instance(s), fewer than the {need} '
            f'confirmed by hand on the pinned tree (anchor moved?)')


def _where(w) -> str:
  if isinstance(w, str):
    return w
  if isinstance(w, ast.AST):
    return loc(w)
  if hasattr(w, 'ast') and w.ast is not None:
    return loc(w.ast)
  if hasattr(w, 'node'):
    return loc(w.node)
  return str(w)


# ------------------------------------------------------------- known findings
def load_known() -> List[Dict[str, Any]]:
  if not os.path.isfile(KNOWN_FILE):
    return []
  with open(KNOWN_FILE) as f:
    data = json.load(f)
  return data.get('findings', [])


def match_known(prop: str, key: str, known: List[Dict[str, Any]]):
  for k in known:
    if k.get('property') != prop or k.get('status') != 'known':
      continue
    if k.get('key') == key or key in k.get('keys', ()):
      return k
  return None


# -------------------------------------------------------------------- output
def finish(ctx: Ctx, selftest: Optional[Dict[str, Any]] = None) -> int:
  """Prints verdict lines, writes evidence, returns the exit code."""
  ctx.vacuity()
  known = load_known()
  violations = []
  known_hits = []
  for o in ctx.obligations:
    if o.ok or o.info_only:
      continue
    k = match_known(ctx.prop, o.key, known)
    if k is not None:
      known_hits.append((o, k))
    else:
      violations.append(o)

  ev_dir = os.path.join(VERIF_DIR, 'evidence')
  os.makedirs(os.path.join(ev_dir, 'replay'), exist_ok=True)
  # stale replay files of this property
  for fn in os.listdir(os.path.join(ev_dir, 'replay')):
    if fn.startswith(ctx.prop + '-'):
      os.remove(os.path.join(ev_dir, 'replay', fn))

  printed_known = set()
  for o, k in known_hits:
    if k['id'] in printed_known:
      continue
    printed_known.add(k['id'])
    print(f"KNOWN-FINDING: property={ctx.prop} [{k['id']}] {k['what']}")
  for i, o in enumerate(violations):
    rp = os.path.join(ev_dir, 'replay', f'{ctx.prop}-{i}.json')
    with open(rp, 'w') as f:
      json.dump({'property': ctx.prop, 'rule': o.rule,
                 'rule_text': ctx.rules.get(o.rule, ''), **o.to_json()}, f, indent=1)
    print(f'  {o.where}: [{ctx.prop}.{o.rule}] {o.instance}: {o.detail}')
    if o.path:
      for p in o.path[:12]:
        print(f'      via {p}')
    print(f'VIOLATION property={ctx.prop} replay={rp}')

  if getattr(ctx, 'deferred_error', None) and not violations:
    raise AnalysisError(ctx.deferred_error)
  n_ob = len([o for o in ctx.obligations if not o.info_only])
  n_ok = len([o for o in ctx.obligations if o.ok])
  distinct = len({(o.rule, o.instance, o.where) for o in ctx.obligations if not o.info_only})
  samples = [o.to_json() for o in ctx.obligations if not o.ok][:20]
  seen_rules = set()
  for o in ctx.obligations:
    if o.ok and o.rule not in seen_rules:
      seen_rules.add(o.rule)
      samples.append(o.to_json())
  for o in ctx.obligations:
    if len(samples) >= 60:
      break
    if o.ok and o.to_json() not in samples:
      samples.append(o.to_json())
  evidence = {
      'property_id': ctx.prop,
      'tier': ctx.tier,
      'seed': int(os.environ.get('VERIF_SEED', '0') or 0),
      'level': 'other',
      'coverage': {
          'explanation': (
              'Static analysis of /repo working tree (ast; no code executed). '
              'Each obligation is one (rule, instance) pair enumerated from the '
              'source; finite instance sets are enumerated completely. A pass '
              'means the structural necessary conditions listed under rules hold '
              'on every path examined; behaviour was not observed.'),
          'obligations': n_ob,
          'discharged': n_ok,
          'evaluations': max(n_ob, 1),
          'distinct_nontrivial': distinct,
          'rule': ('one evaluation = one (rule, instance) obligation; distinct = '
                   'distinct (rule, instance, location) triples'),
          'rules': ctx.rules,
          'per_rule': _per_rule(ctx),
          'samples': samples,
          'exhaustive': True,
          'units': {**ctx.units, 'private_helper_call_sites_inlined_before_analysis': sum(getattr(ctx.src, 'inlined', {}).values()),
                    'files_parsed': len(ctx.src.consulted)},
          'trusted_base': ctx.trusted,
          'information': ctx.infos[:80],
          'known_findings': sorted(printed_known),
          'files_digest': ctx.src.digest(),
          'files': sorted(ctx.src.consulted),
          **ctx.extra,
      },
      'assumptions': ctx.assumptions,
      'wall_s': round(time.time() - ctx.t0, 3),
      'violations': len(violations),
  }
  if selftest is not None:
    evidence['coverage']['selftest'] = selftest
  with open(os.path.join(ev_dir, f'{ctx.prop}.json'), 'w') as f:
    json.dump(evidence, f, indent=1, sort_keys=False)
  print(f'{ctx.prop} [{ctx.tier}]: {n_ok}/{n_ob} obligations discharged, '
        f'{len(printed_known)} known finding(s), {len(violations)} violation(s); '
        f'{evidence["wall_s"]}s')
  return 1 if violations else 0


def _per_rule(ctx: Ctx) -> Dict[str, Dict[str, int]]:
  out: Dict[str, Dict[str, int]] = {}
  for o in ctx.obligations:
    d = out.setdefault(o.rule, {'instances': 0, 'ok': 0})
    d['instances'] += 1
    d['ok'] += 1 if o.ok else 0
  return out
