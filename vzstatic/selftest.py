"""Self-test library: seeded variants analysed through the in-memory overlay.

For each property the rule module may define VARIANTS, a list of `Variant`s:
*break* variants (expect='fire') violate exactly one rule instance and still
compile; *benign* variants (expect='silent') are behaviour-preserving edits the
rule must tolerate.  In addition every /verif/seeded/<name>/ directory whose
meta.json names this property (independent sub-agent changes, confirmed at run
time) is applied as a unified diff.  Nothing is written to disk.

A variant whose `old` text no longer occurs exactly once in the current tree is
*skipped* (the repository moved on), never an error.
"""

from __future__ import annotations

import ast
import dataclasses
import json
import multiprocessing
import os
import re
from typing import Any, Dict, List, Optional, Tuple

from vzstatic import report
from vzstatic.source import AnalysisError, Source

SEEDED_DIR = os.path.join(report.VERIF_DIR, 'seeded')


@dataclasses.dataclass
class Variant:
  name: str
  file: str
  old: str
  new: str
  expect: str = 'fire'  # fire | silent
  rule: Optional[str] = None  # expected rule id prefix when firing
  count: int = 1  # occurrences of old expected (replace all)
  note: str = ''


def all_props() -> List[str]:
  d = os.path.join(os.path.dirname(__file__), 'rules')
  return sorted(f[:-3] for f in os.listdir(d) if re.fullmatch(r'C\d+\.py', f))


def _bad_keys(ctx) -> Dict[str, Any]:
  return {o.key: o for o in ctx.obligations if not o.ok and not o.info_only}


def _locate(old_lines, want, tgt, pos, modulo_ws):
  """Index where `want` matches old_lines (nearest to tgt), or None."""
  if not [w for w in want if w.strip()]:
    return None
  key = (lambda x: x.strip()) if modulo_ws else (lambda x: x)
  wk = [key(w) for w in want]
  for delta in sorted(range(-800, 801), key=abs):
    s0 = tgt + delta
    if s0 < pos or s0 + len(want) > len(old_lines):
      continue
    if [key(x) for x in old_lines[s0:s0 + len(want)]] == wk:
      return s0
  return None


def apply_unified_diff(src: Source, diff_text: str) -> Dict[str, str]:
  """Applies a git-style unified diff to the working-tree texts -> overlay.

  Like patch(1) it tolerates moved hunks and drops leading/trailing context
  lines when they no longer match; as a last resort it matches modulo leading
  whitespace (a region that was re-indented, e.g. wrapped in a `with`) and
  shifts the added lines by the same amount.
  """
  overlay: Dict[str, str] = {}
  for chunk in re.split(r'^diff --git .*$', diff_text, flags=re.M):
    m = re.search(r'^\+\+\+ (?:b/)?(\S+)', chunk, flags=re.M)
    mo = re.search(r'^--- (?:a/)?(\S+)', chunk, flags=re.M)
    if not m or m.group(1) == '/dev/null':
      continue
    path = m.group(1)
    old_lines: List[str] = [] if (mo and mo.group(1) == '/dev/null') else src.read(path).split('\n')
    new_lines: List[str] = []
    pos = 0
    hunks = list(re.finditer(r'^@@ -(\d+)(?:,(\d+))? \+(\d+)(?:,(\d+))? @@.*$', chunk, flags=re.M))
    for i, h in enumerate(hunks):
      start = int(h.group(1))
      body_end = hunks[i + 1].start() if i + 1 < len(hunks) else len(chunk)
      body = [l for l in chunk[h.end() + 1:body_end].split('\n') if not l.startswith('\\')]
      while body and body[-1] == '':
        body.pop()
      body = [l if l else ' ' for l in body]
      tgt = max(start - 1, 0)
      lead = 0
      while lead < len(body) and body[lead][:1] == ' ':
        lead += 1
      trail = 0
      while trail < len(body) - lead and body[len(body) - 1 - trail][:1] == ' ':
        trail += 1
      found = None
      shift = 0
      combos = sorted(((dl, dt) for dl in range(lead + 1) for dt in range(trail + 1)), key=lambda p: (p[0] + p[1], p))
      for modulo_ws in (False, True):
        for dl, dt in combos:
          sub = body[dl:len(body) - dt] if dt else body[dl:]
          want = [l[1:] for l in sub if l[:1] in (' ', '-')]
          f = _locate(old_lines, want, tgt + dl, pos, modulo_ws)
          if f is None:
            continue
          if modulo_ws:
            shifts = {(len(a) - len(a.lstrip())) - (len(b) - len(b.lstrip()))
                      for a, b in zip(old_lines[f:f + len(want)], want) if a.strip()}
            if len(shifts) != 1:
              continue
            shift = shifts.pop()
          found, body = f, sub
          break
        if found is not None:
          break
      if found is None:
        raise AnalysisError(f'patch hunk does not apply to {path} @ {start}')
      new_lines.extend(old_lines[pos:found])
      k = found
      for l in body:
        tag, txt = l[:1], l[1:]
        if tag == '+':
          if shift > 0 and txt.strip():
            txt = ' ' * shift + txt
          elif shift < 0 and txt[:-shift].strip() == '':
            txt = txt[-shift:]
          new_lines.append(txt)
        elif tag == ' ':
          new_lines.append(old_lines[k])
          k += 1
        elif tag == '-':
          k += 1
      pos = k
    new_lines.extend(old_lines[pos:])
    overlay[path] = '\n'.join(new_lines)
  return overlay


def seeded_for(prop: str) -> List[Tuple[str, str]]:
  out = []
  if not os.path.isdir(SEEDED_DIR):
    return out
  for name in sorted(os.listdir(SEEDED_DIR)):
    d = os.path.join(SEEDED_DIR, name)
    meta = os.path.join(d, 'meta.json')
    patch = os.path.join(d, 'patch.diff')
    if not (os.path.isfile(meta) and os.path.isfile(patch)):
      continue
    try:
      with open(meta) as f:
        m = json.load(f)
    except Exception:
      continue
    # the target property's own check is always expected to see the change;
    # other checks that were recorded as detecting it keep it as a regression case
    if prop == m.get('property') or prop in (m.get('detected_by') or []):
      out.append((name, patch))
  return out


def _run_one(job) -> Tuple[str, str, str, List[str]]:
  """(name, expect, outcome, new finding rules) ; outcome: fired|silent|skipped|error."""
  prop, name, expect, rule, overlay, base_keys = job
  from vzstatic.__main__ import run_check
  try:
    ctx = run_check(prop, 'quick', overlay=overlay)
    ctx.vacuity()
  except AnalysisError as e:
    # a variant that makes the analysis give up is "detected" only in the
    # sense that the check would not pass silently; report distinctly
    return name, expect, 'analysis-error', [str(e)]
  except Exception as e:
    return name, expect, 'internal-error', [f'{type(e).__name__}: {e}']
  new = [o for k, o in _bad_keys(ctx).items() if k not in base_keys]
  rules = sorted({o.rule for o in new})
  if new:
    if rule and not any(r.startswith(rule) for r in rules):
      return name, expect, 'fired-other-rule', rules
    return name, expect, 'fired', rules
  if getattr(ctx, 'deferred_error', None):
    return name, expect, 'analysis-error', [ctx.deferred_error]
  return name, expect, 'silent', []


def run_for(prop: str, jobs: int = 16, verbose: bool = False) -> Dict[str, Any]:
  import importlib
  from vzstatic.__main__ import run_check
  mod = importlib.import_module(f'vzstatic.rules.{prop}')
  variants: List[Variant] = list(getattr(mod, 'VARIANTS', []))
  base = run_check(prop, 'quick')
  base_keys = set(_bad_keys(base))
  src = Source()
  work = []
  skipped = []
  for v in variants:
    try:
      text = src.read(v.file)
    except AnalysisError:
      skipped.append(f'{v.name}: file missing')
      continue
    if text.count(v.old) != v.count:
      skipped.append(f'{v.name}: anchor text occurs {text.count(v.old)}x, expected {v.count}')
      continue
    new_text = text.replace(v.old, v.new)
    try:
      ast.parse(new_text)
    except SyntaxError as e:
      skipped.append(f'{v.name}: variant does not compile ({e})')
      continue
    work.append((prop, v.name, v.expect, v.rule, {v.file: new_text}, base_keys))
  for name, patch in seeded_for(prop):
    try:
      with open(patch) as f:
        overlay = apply_unified_diff(src, f.read())
    except AnalysisError as e:
      skipped.append(f'seeded/{name}: {e}')
      continue
    work.append((prop, f'seeded/{name}', 'fire', None, overlay, base_keys))
  if jobs > 1 and len(work) > 2:
    with multiprocessing.Pool(min(jobs, len(work))) as pool:
      results = pool.map(_run_one, work)
  else:
    results = [_run_one(w) for w in work]
  killed = 0
  missed = []
  benign = 0
  silent_ok = 0
  false_alarms = []
  details = []
  for name, expect, outcome, rules in results:
    details.append({'variant': name, 'expect': expect, 'outcome': outcome, 'rules': rules})
    if verbose:
      print(f'   {name}: expect={expect} outcome={outcome} {rules}')
    if expect == 'fire':
      if outcome == 'fired':
        killed += 1
      else:
        missed.append(f'{name} ({outcome} {rules})')
    else:
      benign += 1
      if outcome == 'silent':
        silent_ok += 1
      else:
        false_alarms.append(f'{name} ({outcome} {rules})')
  return {
      'variants': len([r for r in results if r[1] == 'fire']),
      'killed': killed,
      'benign': benign,
      'silent_on_benign': silent_ok,
      'missed': missed,
      'false_alarms': false_alarms,
      'skipped': skipped,
      'details': details,
  }
