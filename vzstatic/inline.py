"""AST normalisation: inlining of private helpers (extract-method refactors are undone before analysis).

Rules are written against the shape of a few anchored functions.  The most common maintenance edit — moving a
block into a private helper (`self._foo(...)`, module-level `_foo(...)`, a one-line private @property) — must not
change a verdict, so every parsed module is normalised first: calls to *suitable* private helpers defined in the
same class / module are replaced by the helper's body.  The transformation is semantics-preserving by construction:

  * only statement-level call forms are inlined:  `h(..)`,  `x = h(..)`,  `return h(..)`,  `if [not] h(..):`;
    a call buried inside a larger expression is left alone;
  * the helper must be plain: positional-or-keyword parameters, no *args/**kwargs, no decorator other than
    staticmethod/classmethod, no yield/global/nonlocal/nested def, no `return` inside a loop or a try/with;
  * early returns are put into tail position by sinking the continuation into the non-returning branches
    (`if c: return a` + REST  ==>  `if c: <a> else: REST`), then `return e` becomes `target = e`;
  * arguments that are simple (names, attribute chains, constants) replace the parameter directly when the helper
    never assigns it; other arguments are bound to a fresh local first (evaluation order is preserved: all argument
    bindings are emitted left to right before the body);
  * the helper's locals are renamed `<name>__<helper>` so they cannot capture the caller's names.

Helpers that the rules themselves name (anchors such as `_write_or_rollback`, `_study_is_immutable`,
`_validate_labels`) are never inlined: the set is collected from the string literals of the rule modules.
Helper definitions stay in the tree, so rules that analyse a helper on its own still find it.
"""

from __future__ import annotations

import ast
import copy
import os
import re
from typing import Dict, List, Optional, Set, Tuple

_MAX_PASSES = 3
_MAX_HELPER_STMTS = 60


def anchor_names() -> Set[str]:
  """Private identifiers mentioned in string literals of the rule/engine modules."""
  here = os.path.dirname(os.path.abspath(__file__))
  out: Set[str] = set()
  files = [os.path.join(here, f) for f in os.listdir(here) if f.endswith('.py') and f != 'inline.py']
  rules = os.path.join(here, 'rules')
  files += [os.path.join(rules, f) for f in os.listdir(rules) if f.endswith('.py')]
  for f in files:
    try:
      tree = ast.parse(open(f).read())
    except (OSError, SyntaxError):
      continue
    for n in ast.walk(tree):
      if isinstance(n, ast.Constant) and isinstance(n.value, str):
        for m in re.finditer(r'(?<![A-Za-z0-9])_[a-z][A-Za-z0-9_]*', n.value):
          out.add(m.group(0))
  # private names the known-findings file keys on (a consistent rename must keep matching the entry)
  try:
    import json
    kf = json.load(open(os.path.join(os.path.dirname(here), 'known_findings.json')))
    for f in kf.get('findings', []):
      if f.get('status') == 'known':
        for k in list(f.get('keys', [])) + ([f['key']] if f.get('key') else []):
          for m in re.finditer(r'(?<![A-Za-z0-9])_[a-z][A-Za-z0-9_]*', k.split('|', 1)[-1]):
            out.add(m.group(0))
  except (OSError, ValueError):
    pass
  return out


# anchors that rules recognise structurally (by return annotation / attribute type) rather than by a literal name
_EXTRA_ANCHORS = {'_select_pythia_service'}
_ANCHORS: Optional[Set[str]] = None


def anchors() -> Set[str]:
  global _ANCHORS
  if _ANCHORS is None:
    _ANCHORS = anchor_names() | _EXTRA_ANCHORS
  return _ANCHORS


# --------------------------------------------------------------------------- suitability
def _has_return_in(node: ast.AST) -> bool:
  for x in ast.walk(node):
    if isinstance(x, ast.Return):
      return True
  return False


def _kwarg_passthrough_only(fn: ast.FunctionDef) -> bool:
  """The `**kwargs` parameter is mentioned only as `**kwargs` in calls (passed on verbatim)."""
  kw = fn.args.kwarg.arg
  passed = {id(k.value) for x in ast.walk(fn) if isinstance(x, ast.Call) for k in x.keywords if k.arg is None
            and isinstance(k.value, ast.Name) and k.value.id == kw}
  names = [x for x in ast.walk(fn) if isinstance(x, ast.Name) and x.id == kw]
  return bool(names) and all(id(x) in passed for x in names)


def _suitable(fn: ast.FunctionDef) -> bool:
  if not isinstance(fn, ast.FunctionDef):
    return False
  for d in fn.decorator_list:
    if not (isinstance(d, ast.Name) and d.id in ('staticmethod', 'classmethod')):
      return False
  a = fn.args
  if a.vararg or a.posonlyargs:
    return False
  if a.kwarg and not _kwarg_passthrough_only(fn):
    return False
  for dflt in list(a.defaults) + [d for d in a.kw_defaults if d is not None]:
    if not isinstance(dflt, ast.Constant):
      return False
  n_stmts = 0
  for x in ast.walk(fn):
    if x is fn:
      continue
    if isinstance(x, (ast.Yield, ast.YieldFrom, ast.Global, ast.Nonlocal, ast.FunctionDef, ast.AsyncFunctionDef,
                      ast.ClassDef, ast.Await)):
      return False
    if isinstance(x, ast.stmt):
      n_stmts += 1
    if isinstance(x, ast.Try) and any(_has_return_in(s_) for s_ in x.finalbody):
      return False
    if isinstance(x, (ast.For, ast.While)) and any(_has_return_in(s_) for s_ in x.orelse):
      return False
    if isinstance(x, ast.Call) and isinstance(x.func, ast.Name) and x.func.id in ('locals', 'vars', 'super', 'eval', 'exec'):
      return False
  if n_stmts > _MAX_HELPER_STMTS:
    return False
  # continuation sinking duplicates code when both branches of a returning `if` fall through: keep it small
  if sum(1 for x in ast.walk(fn) if isinstance(x, ast.If) and _has_return_in(x)) > 8:
    return False
  # recursion
  for x in ast.walk(fn):
    if isinstance(x, ast.Call):
      f = x.func
      if (isinstance(f, ast.Name) and f.id == fn.name) or (isinstance(f, ast.Attribute) and f.attr == fn.name):
        return False
  return True


def _is_ctxmgr(fn: ast.FunctionDef) -> bool:
  """A private @contextlib.contextmanager generator with exactly one `yield`, either a top-level statement of the body or
  the last statement of the body of a top-level `try ... finally` (no except clauses)."""
  if not isinstance(fn, ast.FunctionDef):
    return False
  decs = [unparse_dec(d) for d in fn.decorator_list]
  if not any(d.endswith('contextmanager') for d in decs) or any(not (d.endswith('contextmanager') or d in ('staticmethod', 'classmethod')) for d in decs):
    return False
  a = fn.args
  if a.kwarg or a.posonlyargs:
    return False
  if a.vararg:
    va = a.vararg.arg
    starred = {id(x.value) for x in ast.walk(fn) if isinstance(x, ast.Starred) and isinstance(x.value, ast.Name) and x.value.id == va}
    names = [x for x in ast.walk(fn) if isinstance(x, ast.Name) and x.id == va]
    if not names or not all(id(x) in starred for x in names) or a.kwonlyargs:
      return False
  ys = [x for x in ast.walk(fn) if isinstance(x, (ast.Yield, ast.YieldFrom))]
  if len(ys) != 1 or isinstance(ys[0], ast.YieldFrom):
    return False
  if any(isinstance(x, (ast.Return, ast.Global, ast.Nonlocal, ast.FunctionDef, ast.ClassDef, ast.Await)) and x is not fn for x in ast.walk(fn)):
    return False
  body = _strip_doc(fn.body)

  def reach(stmts) -> bool:
    """the single yield is a statement of `stmts`, or sits (recursively) in the body of a `with` / finally-only `try`."""
    for st in stmts:
      if (isinstance(st, ast.Expr) and st.value is ys[0]) or (isinstance(st, ast.Assign) and st.value is ys[0]):
        return True
      if isinstance(st, ast.With) and reach(st.body):
        return True
      if isinstance(st, ast.Try) and not st.orelse and reach(st.body):
        return True
    return False
  return reach(body)


def _is_genhelper(fn: ast.FunctionDef) -> bool:
  """A private generator whose yields are plain statements (`yield X`), at most three of them, with no return value,
  no `yield from`, no nested scopes: it can be inlined into the `for` loop that consumes it."""
  if not isinstance(fn, ast.FunctionDef):
    return False
  for d in fn.decorator_list:
    if not (isinstance(d, ast.Name) and d.id in ('staticmethod', 'classmethod')):
      return False
  a = fn.args
  if a.vararg or a.kwarg or a.posonlyargs:
    return False
  ys = [x for x in ast.walk(fn) if isinstance(x, (ast.Yield, ast.YieldFrom))]
  if not (1 <= len(ys) <= 3) or any(isinstance(y, ast.YieldFrom) for y in ys):
    return False
  stmt_yields = [x.value for x in ast.walk(fn) if isinstance(x, ast.Expr) and isinstance(x.value, ast.Yield)]
  if len(stmt_yields) != len(ys):
    return False
  for x in ast.walk(fn):
    if x is not fn and isinstance(x, (ast.FunctionDef, ast.ClassDef, ast.Lambda, ast.Global, ast.Nonlocal, ast.Await)):
      return False
    if isinstance(x, ast.Return):
      return False
    if isinstance(x, ast.Try) and any(isinstance(y, ast.Yield) for y in ast.walk(x)):
      return False
  return True


def unparse_dec(d: ast.AST) -> str:
  try:
    return ast.unparse(d)
  except Exception:  # pragma: no cover
    return ''


def _strip_doc(body: List[ast.stmt]) -> List[ast.stmt]:
  if body and isinstance(body[0], ast.Expr) and isinstance(body[0].value, ast.Constant) and isinstance(body[0].value.value, str):
    return body[1:]
  return body


# --------------------------------------------------------------------------- tail-return form
def _always_returns(stmts: List[ast.stmt]) -> bool:
  for st in stmts:
    if isinstance(st, (ast.Return, ast.Raise)):
      return True
    if isinstance(st, ast.If) and st.orelse and _always_returns(st.body) and _always_returns(st.orelse):
      return True
  return False


def _to_tail(stmts: List[ast.stmt]) -> List[ast.stmt]:
  """Sinks continuations so that every `return` is the last statement executed on its path."""
  out: List[ast.stmt] = []
  for i, st in enumerate(stmts):
    if isinstance(st, ast.Return):
      out.append(st)
      return out  # anything after is dead
    if isinstance(st, ast.If) and _has_return_in(st):
      rest = stmts[i + 1:]
      body = _to_tail(list(st.body))
      orelse = _to_tail(list(st.orelse))
      need_b, need_o = not _always_returns(body), not _always_returns(orelse)
      if need_b or need_o:
        tail_rest = _to_tail(rest)
        if need_b:
          body = body + tail_rest
        if need_o:
          orelse = orelse + (copy.deepcopy(tail_rest) if need_b else tail_rest)
      new = ast.If(test=st.test, body=body or [ast.Pass()], orelse=orelse)
      ast.copy_location(new, st)
      out.append(new)
      return out
    out.append(st)
  return out


def _complete(stmts: List[ast.stmt], at: ast.AST) -> List[ast.stmt]:
  """Makes the implicit `return None` of every fall-through path explicit (input is in tail form)."""
  if not stmts:
    return [ast.copy_location(ast.Return(value=None), at)]
  last = stmts[-1]
  if isinstance(last, (ast.Return, ast.Raise)):
    return stmts
  if isinstance(last, ast.If) and _has_return_in(last):
    last.body = _complete(list(last.body), last)
    last.orelse = _complete(list(last.orelse), last)
    return stmts
  return stmts + [ast.copy_location(ast.Return(value=None), last)]


def _needs_flags(stmts: List[ast.stmt]) -> bool:
  """True if some `return` sits inside a loop / try / with (tail conversion cannot express that)."""
  for st in stmts:
    for x in ast.walk(st):
      if isinstance(x, (ast.For, ast.While, ast.Try, ast.With)) and _has_return_in(x):
        return True
  return False


def _flag_returns(stmts: List[ast.stmt], done: str, make, in_loop: bool = False) -> List[ast.stmt]:
  """General return elimination: `return e` -> make(e) + `done = True` (+ break inside loops); every statement that
  follows a return-containing statement in the same block runs only `if not done`."""
  def set_done(at):
    a = ast.Assign(targets=[ast.Name(id=done, ctx=ast.Store())], value=ast.Constant(value=True))
    return ast.copy_location(a, at)

  def guard(rest, at):
    if not rest:
      return []
    g_ = ast.If(test=ast.UnaryOp(op=ast.Not(), operand=ast.Name(id=done, ctx=ast.Load())), body=rest, orelse=[])
    return [ast.copy_location(g_, at)]

  out: List[ast.stmt] = []
  for i, st in enumerate(stmts):
    if isinstance(st, ast.Return):
      out.extend(make(st.value, st))
      out.append(set_done(st))
      if in_loop:
        out.append(ast.copy_location(ast.Break(), st))
      return out
    if not _has_return_in(st):
      out.append(st)
      continue
    rest = stmts[i + 1:]
    if isinstance(st, ast.If):
      st.body = _flag_returns(list(st.body), done, make, in_loop) or [ast.Pass()]
      st.orelse = _flag_returns(list(st.orelse), done, make, in_loop)
    elif isinstance(st, (ast.For, ast.While)):
      st.body = _flag_returns(list(st.body), done, make, True) or [ast.Pass()]
    elif isinstance(st, ast.With):
      st.body = _flag_returns(list(st.body), done, make, in_loop) or [ast.Pass()]
    elif isinstance(st, ast.Try):
      st.body = _flag_returns(list(st.body), done, make, in_loop) or [ast.Pass()]
      st.orelse = _flag_returns(list(st.orelse), done, make, in_loop)
      for h in st.handlers:
        h.body = _flag_returns(list(h.body), done, make, in_loop) or [ast.Pass()]
    out.append(st)
    if in_loop and isinstance(st, (ast.For, ast.While)):
      brk = ast.If(test=ast.Name(id=done, ctx=ast.Load()), body=[ast.Break()], orelse=[])
      out.append(ast.copy_location(brk, st))
    out.extend(guard(_flag_returns(rest, done, make, in_loop), st))
    return out
  return out


def _replace_returns(stmts: List[ast.stmt], make) -> List[ast.stmt]:
  """Replaces every (tail-position) `return e` by make(e) (a list of statements)."""
  out: List[ast.stmt] = []
  for st in stmts:
    if isinstance(st, ast.Return):
      out.extend(make(st.value, st))
    elif isinstance(st, ast.If):
      new = ast.If(test=st.test, body=_replace_returns(st.body, make) or [ast.Pass()],
                   orelse=_replace_returns(st.orelse, make))
      ast.copy_location(new, st)
      out.append(new)
    else:
      out.append(st)
  return out


# --------------------------------------------------------------------------- renaming / substitution
class _Subst(ast.NodeTransformer):

  def __init__(self, mapping: Dict[str, ast.AST], rename: Dict[str, str]):
    self.mapping = mapping
    self.rename = rename

  def visit_Name(self, node: ast.Name):
    if node.id in self.mapping and isinstance(node.ctx, ast.Load):
      return ast.copy_location(copy.deepcopy(self.mapping[node.id]), node)
    if node.id in self.rename:
      return ast.copy_location(ast.Name(id=self.rename[node.id], ctx=node.ctx), node)
    return node

  def visit_arg(self, node):
    return node

  def visit_ExceptHandler(self, node: ast.ExceptHandler):
    if node.name and node.name in self.rename:
      node.name = self.rename[node.name]
    return self.generic_visit(node)

  def visit_Lambda(self, node: ast.Lambda):
    # the lambda's own parameters shadow whatever is being substituted / renamed
    own = {a.arg for a in node.args.args + node.args.kwonlyargs + node.args.posonlyargs}
    if node.args.vararg:
      own.add(node.args.vararg.arg)
    if node.args.kwarg:
      own.add(node.args.kwarg.arg)
    inner = _Subst({k: v for k, v in self.mapping.items() if k not in own}, {k: v for k, v in self.rename.items() if k not in own})
    node.body = inner.visit(node.body)
    for i, d in enumerate(node.args.defaults):
      node.args.defaults[i] = self.visit(d)
    return node


def _assigned_names(fn: ast.FunctionDef) -> Set[str]:
  out: Set[str] = set()
  for x in ast.walk(fn):
    if isinstance(x, ast.Name) and isinstance(x.ctx, (ast.Store, ast.Del)):
      out.add(x.id)
    elif isinstance(x, ast.ExceptHandler) and x.name:
      out.add(x.name)
    elif isinstance(x, (ast.Import, ast.ImportFrom)):
      for a in x.names:
        out.add((a.asname or a.name).split('.')[0])
  return out


def _simple(e: ast.AST) -> bool:
  if isinstance(e, ast.Constant):
    return True
  while isinstance(e, ast.Attribute):
    e = e.value
  return isinstance(e, ast.Name)


# --------------------------------------------------------------------------- expression helpers
def _as_expression(fn: ast.FunctionDef) -> Optional[ast.AST]:
  """The helper as ONE expression if its body is only `return e` / if-else chains of returns (-> conditional
  expressions); None otherwise."""
  def conv(stmts: List[ast.stmt]) -> Optional[ast.AST]:
    if not stmts:
      return None
    st = stmts[0]
    if isinstance(st, ast.Return) and st.value is not None:
      return st.value
    if isinstance(st, ast.If):
      t = conv(list(st.body))
      if t is None or not _always_returns(st.body):
        return None
      f = conv(list(st.orelse) if st.orelse else stmts[1:])
      if f is None:
        return None
      return ast.copy_location(ast.IfExp(test=st.test, body=t, orelse=f), st)
    return None
  body = _strip_doc(fn.body)
  if any(isinstance(x, (ast.NamedExpr, ast.Yield, ast.YieldFrom, ast.Await, ast.Lambda)) for s_ in body for x in ast.walk(s_)):
    return None
  # comprehensions bind their own names: only allow them when they do not reuse a parameter name as a target
  params = {a.arg for a in fn.args.args + fn.args.kwonlyargs}
  for s_ in body:
    for x in ast.walk(s_):
      if isinstance(x, ast.comprehension):
        if any(isinstance(n_, ast.Name) and n_.id in params for n_ in ast.walk(x.target)):
          return None
  return conv(body)


# --------------------------------------------------------------------------- the inliner
class _Inliner:

  def __init__(self, tree: ast.Module, exclude: Set[str]):
    self.tree = tree
    self.exclude = exclude
    self.count = 0
    self.uid = 0
    self.names: Dict[str, int] = {}

  def helpers_of_module(self) -> Dict[str, ast.FunctionDef]:
    return {st.name: st for st in self.tree.body if isinstance(st, ast.FunctionDef) and self._private(st.name)
            and (_suitable(st) or _is_ctxmgr(st))}

  def _private(self, name: str) -> bool:
    return name.startswith('_') and not name.startswith('__') and name not in self.exclude

  def run(self) -> int:
    for _ in range(_MAX_PASSES):
      before = self.count
      mod_helpers = self.helpers_of_module()
      self._gen_mod = {st.name: st for st in self.tree.body if isinstance(st, ast.FunctionDef) and self._private(st.name)
                       and _is_genhelper(st)}
      self._gen_meths = {}
      for st in self.tree.body:
        if isinstance(st, ast.FunctionDef):
          self._do_function(st, mod_helpers, {}, None)
        elif isinstance(st, ast.ClassDef):
          meths = {m.name: m for m in st.body if isinstance(m, ast.FunctionDef) and self._private(m.name)
                   and (_suitable(m) or _is_ctxmgr(m))}
          self._gen_meths = {m.name: m for m in st.body if isinstance(m, ast.FunctionDef) and self._private(m.name)
                             and _is_genhelper(m)}
          props = {}
          for m in st.body:
            if isinstance(m, ast.FunctionDef) and self._private(m.name) and len(m.decorator_list) == 1 \
                and isinstance(m.decorator_list[0], ast.Name) and m.decorator_list[0].id == 'property':
              body = _strip_doc(m.body)
              if len(body) == 1 and isinstance(body[0], ast.Return) and body[0].value is not None and len(m.args.args) == 1 \
                  and not any(isinstance(x, (ast.Lambda, ast.Yield, ast.Await, ast.NamedExpr)) for x in ast.walk(body[0].value)):
                props[m.name] = m
          for m in st.body:
            if isinstance(m, ast.FunctionDef):
              self._do_function(m, mod_helpers, meths, props)
      if self.count == before:
        break
    return self.count

  # ------------------------------------------------------------------ per function
  def _do_function(self, fn: ast.FunctionDef, mod_helpers, meths, props) -> None:
    if props:
      self._inline_props(fn, props)
    fn.body = self._do_block(fn.body, fn, mod_helpers, meths)
    self._inline_expr_helpers(fn, mod_helpers, meths)

  def _inline_expr_helpers(self, fn: ast.FunctionDef, mod_helpers, meths) -> None:
    """Calls of expression-only helpers with simple arguments are replaced in place, wherever they occur
    (comprehensions, subscripts, arguments): substituting a pure expression for its call is exact."""
    me = self

    class E(ast.NodeTransformer):
      def visit_FunctionDef(self, node):
        if node is fn:
          self.generic_visit(node)
        return node

      def visit_Lambda(self, node):
        return node

      def visit_Call(self, node: ast.Call):
        self.generic_visit(node)
        r = me._resolve(node, fn, mod_helpers, meths)
        if r is None:
          return node
        helper, recv = r
        if _is_ctxmgr(helper):
          return node
        expr = _as_expression(helper)
        if expr is None:
          return node
        if any(isinstance(a, ast.Starred) for a in node.args) or any(k.arg is None for k in node.keywords) or helper.args.kwarg:
          return node
        params = [a.arg for a in helper.args.args]
        kwonly = [a.arg for a in helper.args.kwonlyargs]
        bound: Dict[str, ast.AST] = {}
        pos = list(params)
        if recv is not None:
          if not pos:
            return node
          bound[pos.pop(0)] = recv
        elif any(isinstance(d, ast.Name) and d.id == 'classmethod' for d in helper.decorator_list):
          if not pos:
            return node
          bound[pos.pop(0)] = node.func.value if isinstance(node.func, ast.Attribute) else ast.Name(id='cls', ctx=ast.Load())
        if len(node.args) > len(pos):
          return node
        for p_, a in zip(pos, node.args):
          bound[p_] = a
        for k in node.keywords:
          if k.arg in bound or k.arg not in params + kwonly:
            return node
          bound[k.arg] = k.value
        dpos = helper.args.args[len(helper.args.args) - len(helper.args.defaults):]
        for a, d in zip(dpos, helper.args.defaults):
          bound.setdefault(a.arg, d)
        for a, d in zip(helper.args.kwonlyargs, helper.args.kw_defaults):
          if d is not None:
            bound.setdefault(a.arg, d)
        if any(p_ not in bound for p_ in params + kwonly):
          return node
        # every argument must be simple (re-evaluating it is free of effects), or used exactly once
        uses = {}
        for x in ast.walk(expr):
          if isinstance(x, ast.Name) and x.id in bound:
            uses[x.id] = uses.get(x.id, 0) + 1
        for p_, a in bound.items():
          if not _simple(a) and uses.get(p_, 0) > 1:
            return node
        # locals bound inside the expression (comprehension targets) must not capture names of the arguments
        inner = {n_.id for x in ast.walk(expr) if isinstance(x, ast.comprehension) for n_ in ast.walk(x.target) if isinstance(n_, ast.Name)}
        argnames = {n_.id for a in bound.values() for n_ in ast.walk(a) if isinstance(n_, ast.Name)}
        if inner & argnames:
          return node
        new = _Subst(bound, {}).visit(copy.deepcopy(expr))
        me.count += 1
        me.names[helper.name] = me.names.get(helper.name, 0) + 1
        return ast.copy_location(new, node)
    E().visit(fn)
    ast.fix_missing_locations(fn)

  def _inline_props(self, fn: ast.FunctionDef, props: Dict[str, ast.FunctionDef]) -> None:
    if not fn.args.args:
      return
    selfname = fn.args.args[0].arg
    me = self

    class P(ast.NodeTransformer):
      def visit_Attribute(self, node: ast.Attribute):
        self.generic_visit(node)
        if isinstance(node.ctx, ast.Load) and isinstance(node.value, ast.Name) and node.value.id == selfname \
            and node.attr in props and props[node.attr] is not fn:
          p = props[node.attr]
          ret = _strip_doc(p.body)[0].value
          pself = p.args.args[0].arg
          e = _Subst({pself: ast.Name(id=selfname, ctx=ast.Load())}, {}).visit(copy.deepcopy(ret))
          me.count += 1
          return ast.copy_location(e, node)
        return node
    P().visit(fn)

  def _do_block(self, stmts: List[ast.stmt], fn, mod_helpers, meths) -> List[ast.stmt]:
    out: List[ast.stmt] = []
    for st in stmts:
      # recurse into compound statements first
      for fld in ('body', 'orelse', 'finalbody'):
        sub = getattr(st, fld, None)
        if isinstance(sub, list) and sub and isinstance(sub[0], ast.stmt) and not isinstance(st, (ast.FunctionDef, ast.ClassDef)):
          setattr(st, fld, self._do_block(sub, fn, mod_helpers, meths))
      if isinstance(st, ast.Try):
        for h in st.handlers:
          h.body = self._do_block(h.body, fn, mod_helpers, meths)
      if isinstance(st, ast.FunctionDef) and st is not fn:
        # nested def (closure): its statements call the same helpers; `self` is the enclosing method's
        st.body = self._do_block(st.body, fn, mod_helpers, meths)
      rep = self._try_inline_with(st, fn, mod_helpers, meths) if isinstance(st, ast.With) else \
          self._try_inline_for(st, fn) if isinstance(st, ast.For) else self._try_inline(st, fn, mod_helpers, meths)
      if rep is None and not isinstance(st, (ast.With, ast.For)):
        rep = self._hoist(st, fn, mod_helpers, meths)
      if rep is None:
        out.append(st)
      else:
        out.extend(rep)
    return out

  def _resolve(self, call: ast.Call, fn: ast.FunctionDef, mod_helpers, meths) -> Optional[Tuple[ast.FunctionDef, Optional[ast.AST]]]:
    f = call.func
    if isinstance(f, ast.Name) and f.id in mod_helpers and mod_helpers[f.id] is not fn:
      return mod_helpers[f.id], None
    if isinstance(f, ast.Attribute) and isinstance(f.value, ast.Name) and fn.args.args and f.value.id == fn.args.args[0].arg \
        and f.attr in meths and meths[f.attr] is not fn:
      h = meths[f.attr]
      is_static = any(isinstance(d, ast.Name) and d.id == 'staticmethod' for d in h.decorator_list)
      return h, (None if is_static else f.value)
    # `r.m(..)` on a local bound once to a freshly built private record (NamedTuple / dataclass / attrs value object)
    if isinstance(f, ast.Attribute) and isinstance(f.value, ast.Name) and not (fn.args.args and f.value.id == fn.args.args[0].arg):
      rec_meths = getattr(self, '_rec_meths', None)
      if rec_meths is None:
        rec_meths = self._rec_meths = {
            c.name: {m.name: m for m in c.body if isinstance(m, ast.FunctionDef) and not m.decorator_list and _suitable(m)}
            for c in self.tree.body if isinstance(c, ast.ClassDef) and c.name in _record_classes(self.tree) and c.name.startswith('_')}
      if rec_meths:
        x = f.value.id
        binds = [a for a in ast.walk(fn) if isinstance(a, ast.Name) and a.id == x and isinstance(a.ctx, (ast.Store, ast.Del))]
        if binds and x not in {a.arg for a in fn.args.args + fn.args.kwonlyargs}:
          asgs = [a for a in ast.walk(fn) if isinstance(a, ast.Assign) and len(a.targets) == 1 and any(a.targets[0] is b for b in binds)]
          classes = {a.value.func.id for a in asgs if isinstance(a.value, ast.Call) and isinstance(a.value.func, ast.Name)}
          if len(asgs) == len(binds) and len(classes) == 1 and all(
              isinstance(a.value, ast.Call) and isinstance(a.value.func, ast.Name) for a in asgs):
            cname = next(iter(classes))
            if f.attr in rec_meths.get(cname, {}):
              return rec_meths[cname][f.attr], f.value
    return None

  # ------------------------------------------------------------------ hoisting of nested helper calls
  def _first_hoistable(self, st: ast.stmt, fn, mod_helpers, meths) -> Optional[ast.Call]:
    """The first private-helper call (in evaluation order) of a simple statement, provided everything evaluated
    before it is a plain load (names, attributes, constants): hoisting it in front of the statement is then exact."""
    if isinstance(st, ast.Expr):
      roots = [st.value]
    elif isinstance(st, ast.Return) and st.value is not None:
      roots = [st.value]
    elif isinstance(st, ast.Assign) and all(isinstance(t, ast.Name) for t in st.targets):
      roots = [st.value]
    elif isinstance(st, ast.AnnAssign) and st.value is not None and isinstance(st.target, ast.Name):
      roots = [st.value]
    else:
      return None
    found: List[ast.Call] = []

    class Stop(Exception):
      pass

    def go(e: ast.AST, top: bool):
      if isinstance(e, (ast.Name, ast.Constant)):
        return
      if isinstance(e, ast.Attribute):
        go(e.value, False)
        return
      if isinstance(e, ast.Call):
        go(e.func, False)
        for a in e.args:
          if isinstance(a, ast.Starred):
            raise Stop()
          go(a, False)
        for k in e.keywords:
          if k.arg is None:
            raise Stop()
          go(k.value, False)
        if not top and self._resolve(e, fn, mod_helpers, meths) is not None:
          found.append(e)
        raise Stop()  # anything after another call is not hoistable
      if isinstance(e, ast.BinOp):
        go(e.left, False)
        go(e.right, False)
        return
      if isinstance(e, ast.UnaryOp):
        go(e.operand, False)
        return
      if isinstance(e, ast.Compare):
        go(e.left, False)
        if len(e.comparators) == 1:
          go(e.comparators[0], False)
          return
        raise Stop()
      if isinstance(e, ast.Subscript):
        go(e.value, False)
        go(e.slice, False)
        return
      if isinstance(e, (ast.Tuple, ast.List)):
        for x in e.elts:
          if isinstance(x, ast.Starred):
            raise Stop()
          go(x, False)
        return
      if isinstance(e, ast.Slice):
        for x in (e.lower, e.upper, e.step):
          if x is not None:
            go(x, False)
        return
      raise Stop()  # IfExp, BoolOp, comprehensions, lambdas, f-strings, ...: evaluation is conditional / repeated

    try:
      for r in roots:
        go(r, True)
    except Stop:
      pass
    return found[0] if found else None

  def _hoist(self, st: ast.stmt, fn, mod_helpers, meths) -> Optional[List[ast.stmt]]:
    c = self._first_hoistable(st, fn, mod_helpers, meths)
    if c is None:
      return None
    self.uid += 1
    tmp = f'hoisted__{self.uid}'
    asg = ast.copy_location(ast.Assign(targets=[ast.Name(id=tmp, ctx=ast.Store())], value=c), st)

    class Rep(ast.NodeTransformer):
      def visit_Call(self, node):
        if node is c:
          return ast.copy_location(ast.Name(id=tmp, ctx=ast.Load()), node)
        return self.generic_visit(node)
    st2 = Rep().visit(st)
    ast.fix_missing_locations(asg)
    first = self._try_inline(asg, fn, mod_helpers, meths)
    if first is None:
      return None
    rest = self._try_inline(st2, fn, mod_helpers, meths) or self._hoist(st2, fn, mod_helpers, meths) or [st2]
    return first + rest

  def _try_inline_for(self, st: ast.For, fn) -> Optional[List[ast.stmt]]:
    """`for T in _gen(args): BODY` over a private generator helper: the generator's body with every `yield X`
    replaced by `T = X; BODY` (BODY free of break / continue / yield, so the interleaving is exactly the iteration)."""
    if st.orelse or not isinstance(st.iter, ast.Call):
      return None
    call = st.iter
    f = call.func
    helper, recv = None, None
    if isinstance(f, ast.Name) and f.id in getattr(self, '_gen_mod', {}) and self._gen_mod[f.id] is not fn:
      helper = self._gen_mod[f.id]
    elif isinstance(f, ast.Attribute) and isinstance(f.value, ast.Name) and fn.args.args and f.value.id == fn.args.args[0].arg \
        and f.attr in getattr(self, '_gen_meths', {}) and self._gen_meths[f.attr] is not fn:
      helper = self._gen_meths[f.attr]
      is_static = any(isinstance(d, ast.Name) and d.id == 'staticmethod' for d in helper.decorator_list)
      recv = None if is_static else f.value
    if helper is None:
      return None
    # break / continue binding to this loop, or a yield in the body: not expressible after splicing
    def escapes(stmts, depth=0) -> bool:
      for b in stmts:
        if isinstance(b, (ast.Break, ast.Continue)) and depth == 0:
          return True
        if isinstance(b, (ast.FunctionDef, ast.ClassDef)):
          continue
        inner_depth = depth + 1 if isinstance(b, (ast.For, ast.While)) else depth
        for fld in ('body', 'orelse', 'finalbody'):
          blk = getattr(b, fld, None)
          if isinstance(blk, list) and escapes(blk, inner_depth if fld == 'body' else depth):
            return True
        if isinstance(b, ast.Try):
          for h in b.handlers:
            if escapes(h.body, depth):
              return True
      return False
    if escapes(st.body) or any(isinstance(x, (ast.Yield, ast.YieldFrom)) for b in st.body for x in ast.walk(b)):
      return None
    if any(isinstance(a, ast.Starred) for a in call.args) or any(k.arg is None for k in call.keywords) or helper.args.kwarg:
      return None
    params = [a.arg for a in helper.args.args]
    bound: Dict[str, ast.AST] = {}
    pos = list(params)
    if recv is not None:
      if not pos:
        return None
      bound[pos.pop(0)] = recv
    if len(call.args) > len(pos):
      return None
    order = []
    for p_, a in zip(pos, call.args):
      bound[p_] = a
      order.append(p_)
    for k in call.keywords:
      if k.arg in bound or k.arg not in params + [a.arg for a in helper.args.kwonlyargs]:
        return None
      bound[k.arg] = k.value
      order.append(k.arg)
    dpos = helper.args.args[len(helper.args.args) - len(helper.args.defaults):]
    for a, d in zip(dpos, helper.args.defaults):
      bound.setdefault(a.arg, d)
    if any(p_ not in bound for p_ in params):
      return None
    self.uid += 1
    tag = f'{helper.name.strip("_")}{self.uid}'
    assigned = _assigned_names(helper)
    mapping: Dict[str, ast.AST] = {}
    rename: Dict[str, str] = {}
    pre: List[ast.stmt] = []
    for p_ in order + [p_ for p_ in bound if p_ not in order]:
      e = bound[p_]
      if (p_ in order and not _simple(e)) or p_ in assigned:
        nm = f'{p_}__{tag}'
        pre.append(ast.copy_location(ast.Assign(targets=[ast.Name(id=nm, ctx=ast.Store())], value=copy.deepcopy(e)), st))
        rename[p_] = nm
      else:
        mapping[p_] = e
    for nm in assigned:
      if nm not in rename and nm not in bound:
        rename[nm] = f'{nm}__{tag}'
    body = [copy.deepcopy(s_) for s_ in _strip_doc(helper.body)]
    sub = _Subst(mapping, rename)
    body = [sub.visit(s_) for s_ in body]

    def splice(stmts: List[ast.stmt]) -> List[ast.stmt]:
      out: List[ast.stmt] = []
      for s_ in stmts:
        if isinstance(s_, ast.Expr) and isinstance(s_.value, ast.Yield):
          y = s_.value
          out.append(ast.copy_location(ast.Assign(targets=[copy.deepcopy(st.target)],
                                                  value=y.value if y.value is not None else ast.Constant(value=None)), st))
          out.extend(copy.deepcopy(b) for b in st.body)
          continue
        for fld in ('body', 'orelse', 'finalbody'):
          blk = getattr(s_, fld, None)
          if isinstance(blk, list):
            setattr(s_, fld, splice(blk))
        out.append(s_)
      return out
    new = pre + splice(body)
    for x in new:
      ast.fix_missing_locations(x)
    self.count += 1
    self.names[helper.name] = self.names.get(helper.name, 0) + 1
    return new

  def _try_inline_with(self, st: ast.With, fn, mod_helpers, meths) -> Optional[List[ast.stmt]]:
    """`with _helper(args) [as v]: BODY` for a private one-yield @contextmanager ->  <before-yield>; BODY; <after-yield>
    (wrapped in try/finally exactly when the helper wraps its yield in one)."""
    if len(st.items) > 1:
      # `with a, b: BODY` is `with a: with b: BODY`; split when one of the managers is a private context manager
      for it in st.items:
        if isinstance(it.context_expr, ast.Call):
          r0 = self._resolve(it.context_expr, fn, mod_helpers, meths)
          if r0 is not None and _is_ctxmgr(r0[0]):
            inner = ast.With(items=st.items[1:], body=st.body)
            ast.copy_location(inner, st)
            outer = ast.With(items=st.items[:1], body=[inner])
            ast.copy_location(outer, st)
            inl = self._try_inline_with(inner, fn, mod_helpers, meths)
            if inl is not None:
              outer.body = inl
            if len(outer.items) == 1:
              res0 = self._try_inline_with(outer, fn, mod_helpers, meths)
              if res0 is not None:
                return res0
            return [outer] if inl is not None else None
      return None
    if len(st.items) != 1 or not isinstance(st.items[0].context_expr, ast.Call):
      return None
    call = st.items[0].context_expr
    r = self._resolve(call, fn, mod_helpers, meths)
    if r is None or not _is_ctxmgr(r[0]):
      return None
    helper, recv = r
    if any(isinstance(a, ast.Starred) for a in call.args) or any(k.arg is None for k in call.keywords) or helper.args.kwarg:
      return None
    params = [a.arg for a in helper.args.args]
    bound: Dict[str, ast.AST] = {}
    pos = list(params)
    if recv is not None:
      if not pos:
        return None
      bound[pos.pop(0)] = recv
    extra_pos: List[ast.AST] = []
    if len(call.args) > len(pos):
      if not helper.args.vararg or not all(_simple(a) for a in call.args[len(pos):]):
        return None
      extra_pos = list(call.args[len(pos):])
    order = []
    for p_, a in zip(pos, call.args):
      bound[p_] = a
      order.append(p_)
    for k in call.keywords:
      if k.arg in bound or k.arg not in params + [a.arg for a in helper.args.kwonlyargs]:
        return None
      bound[k.arg] = k.value
      order.append(k.arg)
    dpos = helper.args.args[len(helper.args.args) - len(helper.args.defaults):]
    for a, d in zip(dpos, helper.args.defaults):
      bound.setdefault(a.arg, d)
    if any(p_ not in bound for p_ in params):
      return None
    self.uid += 1
    tag = f'{helper.name.strip("_")}{self.uid}'
    assigned = _assigned_names(helper)
    mapping: Dict[str, ast.AST] = {}
    rename: Dict[str, str] = {}
    pre: List[ast.stmt] = []
    for p_ in order + [p_ for p_ in bound if p_ not in order]:
      e = bound[p_]
      if (p_ in order and not _simple(e)) or p_ in assigned:
        nm = f'{p_}__{tag}'
        pre.append(ast.copy_location(ast.Assign(targets=[ast.Name(id=nm, ctx=ast.Store())], value=copy.deepcopy(e)), st))
        rename[p_] = nm
      else:
        mapping[p_] = e
    for nm in assigned:
      if nm not in rename and nm not in bound:
        rename[nm] = f'{nm}__{tag}'
    body = [copy.deepcopy(s_) for s_ in _strip_doc(helper.body)]
    sub = _Subst(mapping, rename)
    body = [sub.visit(s_) for s_ in body]
    if helper.args.vararg:
      va = helper.args.vararg.arg
      for b_ in body:
        for x in ast.walk(b_):
          if isinstance(x, ast.Call):
            newa = []
            for a_ in x.args:
              if isinstance(a_, ast.Starred) and isinstance(a_.value, ast.Name) and a_.value.id in (va, rename.get(va)):
                newa.extend(copy.deepcopy(e_) for e_ in extra_pos)
              else:
                newa.append(a_)
            x.args = newa

    def splice(stmts: List[ast.stmt]) -> Optional[List[ast.stmt]]:
      for i, s_ in enumerate(stmts):
        y = None
        if isinstance(s_, ast.Expr) and isinstance(s_.value, ast.Yield):
          y = s_.value
        elif isinstance(s_, ast.Assign) and isinstance(s_.value, ast.Yield):
          y = s_.value
        if y is not None:
          mid: List[ast.stmt] = []
          if st.items[0].optional_vars is not None:
            mid.append(ast.copy_location(ast.Assign(targets=[st.items[0].optional_vars],
                                                    value=y.value if y.value is not None else ast.Constant(value=None)), st))
          return stmts[:i] + mid + list(st.body) + stmts[i + 1:]
        if isinstance(s_, (ast.Try, ast.With)) and not getattr(s_, 'orelse', []) \
            and any(isinstance(x, ast.Yield) for b_ in s_.body for x in ast.walk(b_)):
          inner = splice(list(s_.body))
          if inner is None:
            return None
          s_.body = inner
          return stmts
      return None
    new = splice(body)
    if new is None:
      return None
    self.count += 1
    self.names[helper.name] = self.names.get(helper.name, 0) + 1
    out = pre + new
    for s_ in out:
      ast.fix_missing_locations(s_)
    return out

  def _inline_flagged(self, st, mode, body, pre, res, tag, helper) -> List[ast.stmt]:
    """Inlines a helper whose returns sit inside loops / try / with, using an explicit result and a done flag."""
    done = f'done__{tag}'

    def make(v, r):
      if mode == 'expr' and v is None:
        return []
      a = ast.Assign(targets=[ast.Name(id=res, ctx=ast.Store())], value=v if v is not None else ast.Constant(value=None))
      return [ast.copy_location(a, r)]
    init = [ast.copy_location(ast.Assign(targets=[ast.Name(id=done, ctx=ast.Store())], value=ast.Constant(value=False)), st),
            ast.copy_location(ast.Assign(targets=[ast.Name(id=res, ctx=ast.Store())], value=ast.Constant(value=None)), st)]
    new = init + _flag_returns(body, done, make)
    load = ast.Name(id=res, ctx=ast.Load())
    if mode == 'assign':
      new.append(ast.copy_location(ast.Assign(targets=[copy.deepcopy(st.targets[0])], value=load), st))
    elif mode == 'annassign':
      new.append(ast.copy_location(ast.Assign(targets=[copy.deepcopy(st.target)], value=load), st))
    elif mode == 'return':
      new.append(ast.copy_location(ast.Return(value=load), st))
    elif mode in ('if', 'ifnot'):
      test: ast.AST = load
      if mode == 'ifnot':
        test = ast.UnaryOp(op=ast.Not(), operand=test)
      st.test = ast.copy_location(test, st)
      new.append(st)
    self.count += 1
    self.names[helper.name] = self.names.get(helper.name, 0) + 1
    out = pre + new
    for s_ in out:
      ast.fix_missing_locations(s_)
    return out

  def _try_inline(self, st: ast.stmt, fn, mod_helpers, meths) -> Optional[List[ast.stmt]]:
    call = None
    mode = None
    if isinstance(st, ast.Expr) and isinstance(st.value, ast.Call):
      call, mode = st.value, 'expr'
    elif isinstance(st, ast.Assign) and isinstance(st.value, ast.Call) and len(st.targets) == 1:
      call, mode = st.value, 'assign'
    elif isinstance(st, ast.AnnAssign) and isinstance(st.value, ast.Call) and isinstance(st.target, (ast.Name, ast.Attribute)):
      call, mode = st.value, 'annassign'
    elif isinstance(st, ast.Return) and isinstance(st.value, ast.Call):
      call, mode = st.value, 'return'
    elif isinstance(st, ast.If):
      t = st.test
      neg = False
      if isinstance(t, ast.UnaryOp) and isinstance(t.op, ast.Not):
        t, neg = t.operand, True
      if isinstance(t, ast.Call):
        call, mode = t, 'ifnot' if neg else 'if'
    if call is None:
      return None
    r = self._resolve(call, fn, mod_helpers, meths)
    if r is None:
      return None
    helper, recv = r
    if _is_ctxmgr(helper):
      return None
    if any(isinstance(a, ast.Starred) for a in call.args) or any(k.arg is None for k in call.keywords):
      return None
    params = [a.arg for a in helper.args.args]
    kwonly = [a.arg for a in helper.args.kwonlyargs]
    bound: Dict[str, ast.AST] = {}
    pos = list(params)
    if recv is not None:
      if not pos:
        return None
      bound[pos.pop(0)] = recv
    elif any(isinstance(d, ast.Name) and d.id == 'classmethod' for d in helper.decorator_list):
      if not pos:
        return None
      bound[pos.pop(0)] = call.func.value if isinstance(call.func, ast.Attribute) else ast.Name(id='cls', ctx=ast.Load())
    if len(call.args) > len(pos):
      return None
    order: List[str] = []
    for p, a in zip(pos, call.args):
      bound[p] = a
      order.append(p)
    extra_kw: List[ast.keyword] = []
    for k in call.keywords:
      if k.arg not in bound and k.arg not in params + kwonly and helper.args.kwarg and _simple(k.value):
        # lands in the helper's **kwargs, which the helper only passes on
        extra_kw.append(k)
        continue
      if k.arg in bound or k.arg not in params + kwonly:
        return None
      bound[k.arg] = k.value
      order.append(k.arg)
    # defaults
    dpos = helper.args.args[len(helper.args.args) - len(helper.args.defaults):]
    for a, d in zip(dpos, helper.args.defaults):
      bound.setdefault(a.arg, d)
    for a, d in zip(helper.args.kwonlyargs, helper.args.kw_defaults):
      if d is not None:
        bound.setdefault(a.arg, d)
    if any(p not in bound for p in params + kwonly):
      return None
    self.uid += 1
    tag = f'{helper.name.strip("_")}{self.uid}'
    assigned = _assigned_names(helper)
    mapping: Dict[str, ast.AST] = {}
    rename: Dict[str, str] = {}
    pre: List[ast.stmt] = []
    for p in order + [p for p in bound if p not in order]:
      e = bound[p]
      if p in order and not (_simple(e) and p not in assigned):
        nm = f'{p}__{tag}'
        asg = ast.Assign(targets=[ast.Name(id=nm, ctx=ast.Store())], value=e)
        ast.copy_location(asg, st)
        pre.append(asg)
        rename[p] = nm
      elif p in assigned:
        nm = f'{p}__{tag}'
        asg = ast.Assign(targets=[ast.Name(id=nm, ctx=ast.Store())], value=copy.deepcopy(e))
        ast.copy_location(asg, st)
        pre.append(asg)
        rename[p] = nm
      else:
        mapping[p] = e
    # a pure delegation (`def m(..): return helper(..)`) keeps the helper's local names: nothing to capture but parameters
    own_body = _strip_doc(fn.body)
    sole = len(own_body) == 1 and own_body[0] is st
    fn_params = {a.arg for a in fn.args.args + fn.args.kwonlyargs + fn.args.posonlyargs}
    for nm in assigned:
      if nm not in rename and nm not in bound and not (sole and nm not in fn_params):
        rename[nm] = f'{nm}__{tag}'
    body = [copy.deepcopy(s) for s in _strip_doc(helper.body)]
    flagged = _needs_flags(body)
    if not flagged:
      body = _complete(_to_tail(body), st)
    sub = _Subst(mapping, rename)
    body = [sub.visit(s) for s in body]
    if helper.args.kwarg:
      kwname = helper.args.kwarg.arg
      for b_ in body:
        for x in ast.walk(b_):
          if isinstance(x, ast.Call):
            newk = []
            for k in x.keywords:
              if k.arg is None and isinstance(k.value, ast.Name) and k.value.id in (kwname, rename.get(kwname)):
                newk.extend(ast.keyword(arg=e_.arg, value=copy.deepcopy(e_.value)) for e_ in extra_kw)
              else:
                newk.append(k)
            x.keywords = newk
    res = f'ret__{tag}'
    if flagged:
      return self._inline_flagged(st, mode, body, pre, res, tag, helper)

    if mode == 'expr':
      def make(v, r):
        if v is None:
          return []
        e = ast.Expr(value=v)
        return [ast.copy_location(e, r)]
      new = _replace_returns(body, make)
    elif mode in ('assign', 'annassign'):
      tgt = st.targets[0] if mode == 'assign' else st.target
      def make(v, r):
        a = ast.Assign(targets=[copy.deepcopy(tgt)], value=v if v is not None else ast.Constant(value=None))
        return [ast.copy_location(a, r)]
      new = _replace_returns(body, make)
    elif mode == 'return':
      def make(v, r):
        return [ast.copy_location(ast.Return(value=v), r)]
      new = _replace_returns(body, make)
    else:  # if / ifnot
      def make(v, r):
        a = ast.Assign(targets=[ast.Name(id=res, ctx=ast.Store())], value=v if v is not None else ast.Constant(value=None))
        return [ast.copy_location(a, r)]
      new = _replace_returns(body, make)
      test: ast.AST = ast.Name(id=res, ctx=ast.Load())
      if mode == 'ifnot':
        test = ast.UnaryOp(op=ast.Not(), operand=test)
      st.test = ast.copy_location(test, st)
      new = new + [st]
    self.count += 1
    self.names[helper.name] = self.names.get(helper.name, 0) + 1
    out = pre + new
    for s in out:
      ast.fix_missing_locations(s)
    return out or [ast.copy_location(ast.Pass(), st)]


# --------------------------------------------------------------------------- literal-loop unrolling
_UNROLL_MAX_ELEMS = 6
_UNROLL_MAX_BODY = 10


def _simple_elem(e: ast.AST) -> bool:
  if isinstance(e, (ast.Name, ast.Constant)):
    return True
  if isinstance(e, ast.Attribute):
    return _simple_elem(e.value)
  if isinstance(e, ast.Tuple):
    return all(_simple_elem(x) for x in e.elts)
  return False


class _Rename(ast.NodeTransformer):
  def __init__(self, m: Dict[str, ast.AST]):
    self.m = m

  def visit_Name(self, n: ast.Name):
    if n.id in self.m:
      r = self.m[n.id]
      if isinstance(r, str):
        return ast.copy_location(ast.Name(id=r, ctx=n.ctx), n)
      if isinstance(n.ctx, ast.Load):
        return ast.copy_location(copy.deepcopy(r), n)
    return n


def _stmts_assigned(stmts: List[ast.stmt]) -> Set[str]:
  return {x.id for st in stmts for x in ast.walk(st) if isinstance(x, ast.Name) and isinstance(x.ctx, ast.Store)}


def _read_before_write(stmts: List[ast.stmt], names: Set[str]) -> bool:
  """True if some name of `names` may be read in `stmts` before it is written (loop-carried)."""
  written: Set[str] = set()
  for st in stmts:
    if not isinstance(st, (ast.Assign, ast.AnnAssign, ast.Expr)):
      # compound statement: any read of a not-yet-written name anywhere inside counts
      for x in ast.walk(st):
        if isinstance(x, ast.Name) and isinstance(x.ctx, ast.Load) and x.id in names and x.id not in written:
          return True
      written |= set()
      continue
    val = st.value
    if val is not None:
      for x in ast.walk(val):
        if isinstance(x, ast.Name) and isinstance(x.ctx, ast.Load) and x.id in names and x.id not in written:
          return True
    tg = st.targets if isinstance(st, ast.Assign) else [st.target] if isinstance(st, ast.AnnAssign) else []
    for t in tg:
      for x in ast.walk(t):
        if isinstance(x, ast.Name) and isinstance(x.ctx, ast.Load) and x.id in names and x.id not in written:
          return True
      if isinstance(t, ast.Name):
        written.add(t.id)
  return False


def _literal_elements(fn: ast.FunctionDef, loop: ast.For) -> Optional[List[ast.AST]]:
  """Elements of the loop's iterable if it is a short literal tuple/list of simple expressions, or a local
  bound once to such a literal and only ever extended by straight-line `.append(<simple>)` before the loop."""
  it = loop.iter
  if isinstance(it, (ast.Tuple, ast.List)):
    return list(it.elts) if 0 < len(it.elts) <= _UNROLL_MAX_ELEMS and all(_simple_elem(e) for e in it.elts) else None
  if not isinstance(it, ast.Name):
    return None
  name = it.id
  init: Optional[ast.Assign] = None
  elems: List[ast.AST] = []
  uses = 0

  def scan(stmts: List[ast.stmt]) -> Optional[bool]:
    """Walks the statement chain towards the loop; returns True when the loop was reached, None to give up."""
    nonlocal init, elems, uses
    for st in stmts:
      if st is loop:
        return True
      mentions = [x for x in ast.walk(st) if isinstance(x, ast.Name) and x.id == name]
      if isinstance(st, ast.Assign) and len(st.targets) == 1 and isinstance(st.targets[0], ast.Name) \
          and st.targets[0].id == name:
        if init is not None or not isinstance(st.value, (ast.Tuple, ast.List)) or len(mentions) != 1:
          return None
        init, elems = st, list(st.value.elts)
        uses += 1
        continue
      if isinstance(st, ast.Expr) and isinstance(st.value, ast.Call) and isinstance(st.value.func, ast.Attribute) \
          and st.value.func.attr == 'append' and isinstance(st.value.func.value, ast.Name) \
          and st.value.func.value.id == name and len(st.value.args) == 1 and not st.value.keywords \
          and init is not None and isinstance(init.value, ast.List):
        if len(mentions) != 1:
          return None
        elems.append(st.value.args[0])
        uses += 1
        continue
      inner = [b for b in (getattr(st, 'body', None), getattr(st, 'orelse', None), getattr(st, 'finalbody', None))
               if isinstance(b, list)]
      contains = any(x is loop for x in ast.walk(st))
      if contains and isinstance(st, (ast.With, ast.Try, ast.If)) and not isinstance(st, (ast.For, ast.While)):
        # descend only along the chain leading to the loop; other mentions on the way give up
        others = [x for x in mentions if not any(x is y for y in ast.walk(loop))]
        hdr = [x for x in others]
        for b in inner:
          if any(y is loop for z in b for y in ast.walk(z)):
            pre_mentions = 0
            r = scan(b)
            return r
        return None
      if mentions:
        return None
    return False

  r = scan(fn.body)
  if r is not True or init is None:
    return None
  # the list must not be mentioned anywhere else (after the loop, in nested defs, ...)
  total = sum(1 for x in ast.walk(fn) if isinstance(x, ast.Name) and x.id == name)
  if total != uses + 1:
    return None
  if not (0 < len(elems) <= _UNROLL_MAX_ELEMS) or not all(_simple_elem(e) for e in elems):
    return None
  return elems


def _unroll_in_function(fn: ast.FunctionDef, counter: List[int]) -> int:
  n = 0

  def do_block(stmts: List[ast.stmt]) -> List[ast.stmt]:
    nonlocal n
    out: List[ast.stmt] = []
    for st in stmts:
      for fld in ('body', 'orelse', 'finalbody'):
        b = getattr(st, fld, None)
        if isinstance(b, list) and not isinstance(st, (ast.FunctionDef, ast.AsyncFunctionDef, ast.ClassDef)):
          setattr(st, fld, do_block(b))
      if isinstance(st, ast.Try):
        for h in st.handlers:
          h.body = do_block(h.body)
      if not (isinstance(st, ast.For) and not st.orelse and len(st.body) <= _UNROLL_MAX_BODY):
        out.append(st)
        continue
      if any(isinstance(x, (ast.Break, ast.Continue, ast.Return, ast.Yield, ast.YieldFrom, ast.FunctionDef, ast.Lambda,
                            ast.ListComp, ast.DictComp, ast.SetComp, ast.GeneratorExp, ast.Global, ast.Nonlocal))
             for b in st.body for x in ast.walk(b)):
        out.append(st)
        continue
      tnames = [x.id for x in ast.walk(st.target) if isinstance(x, ast.Name)]
      if not (isinstance(st.target, ast.Name) or (isinstance(st.target, ast.Tuple)
                                                   and all(isinstance(e, ast.Name) for e in st.target.elts))):
        out.append(st)
        continue
      elems = _literal_elements(fn, st)
      if elems is None:
        out.append(st)
        continue
      if isinstance(st.target, ast.Tuple) and not all(isinstance(e, ast.Tuple) and len(e.elts) == len(st.target.elts)
                                                      for e in elems):
        out.append(st)
        continue
      assigned = _stmts_assigned(st.body) - set(tnames)
      if _read_before_write(st.body, assigned) or (assigned & set(tnames)):
        out.append(st)
        continue
      # loop variable used after the loop?  keep the last binding
      last_map: Dict[str, str] = {}
      for k, e in enumerate(elems):
        counter[0] += 1
        tag = counter[0]
        m: Dict[str, ast.AST] = {}
        if isinstance(st.target, ast.Name):
          m[st.target.id] = e
        else:
          for tn, ee in zip(st.target.elts, e.elts):
            m[tn.id] = ee
        for a in assigned:
          m[a] = f'{a}__u{tag}'
          last_map[a] = f'{a}__u{tag}'
        for b in st.body:
          nb = _Rename(m).visit(copy.deepcopy(b))
          ast.fix_missing_locations(nb)
          out.append(nb)
      for a, r in sorted(last_map.items()):
        out.append(ast.copy_location(ast.Assign(targets=[ast.Name(id=a, ctx=ast.Store())],
                                                value=ast.Name(id=r, ctx=ast.Load()), lineno=st.lineno), st))
      for tn in tnames:
        # the loop variable keeps its last value
        last = elems[-1] if isinstance(st.target, ast.Name) else elems[-1].elts[tnames.index(tn)]
        out.append(ast.copy_location(ast.Assign(targets=[ast.Name(id=tn, ctx=ast.Store())],
                                                value=copy.deepcopy(last), lineno=st.lineno), st))
      for x in out[-(len(last_map) + len(tnames)):]:
        ast.fix_missing_locations(x)
      n += 1
    return out

  fn.body = do_block(fn.body)
  return n


def _unroll_literal_comprehensions(fn: ast.FunctionDef, counter: List[int]) -> int:
  """`S(.. [elt for T in (e1, e2, e3) if cond] ..)` with a short literal iterable (directly or through a local bound
  once to such a literal): `tmp = []; if cond[e1]: tmp.append(elt[e1]); ...; S(.. tmp ..)`."""
  n = 0
  local_lits: Dict[str, ast.AST] = {}
  stores: Dict[str, int] = {}
  for x in ast.walk(fn):
    if isinstance(x, ast.Name) and isinstance(x.ctx, (ast.Store, ast.Del)):
      stores[x.id] = stores.get(x.id, 0) + 1
  for st in fn.body:
    if isinstance(st, ast.Assign) and len(st.targets) == 1 and isinstance(st.targets[0], ast.Name) \
        and isinstance(st.value, (ast.Tuple, ast.List)) and stores.get(st.targets[0].id) == 1:
      local_lits[st.targets[0].id] = st.value

  def literal(e: ast.AST) -> Optional[List[ast.AST]]:
    if isinstance(e, ast.Name) and e.id in local_lits:
      e = local_lits[e.id]
      if isinstance(e, ast.List):
        return None  # a list may have been mutated since
    if isinstance(e, (ast.Tuple, ast.List)) and 0 < len(e.elts) <= _UNROLL_MAX_ELEMS and all(_simple_elem(x) for x in e.elts):
      return list(e.elts)
    return None

  def do_block(stmts: List[ast.stmt]) -> List[ast.stmt]:
    nonlocal n
    out: List[ast.stmt] = []
    for st in stmts:
      for fld in ('body', 'orelse', 'finalbody'):
        b = getattr(st, fld, None)
        if isinstance(b, list) and not isinstance(st, (ast.FunctionDef, ast.AsyncFunctionDef, ast.ClassDef)):
          setattr(st, fld, do_block(b))
      if isinstance(st, ast.Try):
        for h in st.handlers:
          h.body = do_block(h.body)
      if not isinstance(st, (ast.Return, ast.Assign, ast.Expr, ast.AnnAssign)) or getattr(st, 'value', None) is None:
        out.append(st)
        continue
      comps = [x for x in ast.walk(st.value) if isinstance(x, ast.ListComp)]
      binders = [x for x in ast.walk(st.value) if isinstance(x, (ast.Lambda, ast.GeneratorExp, ast.SetComp, ast.DictComp))]
      if len(comps) != 1 or binders:
        out.append(st)
        continue
      c = comps[0]
      if len(c.generators) != 1 or c.generators[0].is_async:
        out.append(st)
        continue
      gen = c.generators[0]
      elems = literal(gen.iter)
      tg = gen.target
      if elems is None or not (isinstance(tg, ast.Name) or (isinstance(tg, ast.Tuple) and all(isinstance(e, ast.Name) for e in tg.elts))):
        out.append(st)
        continue
      if isinstance(tg, ast.Tuple) and not all(isinstance(e, ast.Tuple) and len(e.elts) == len(tg.elts) for e in elems):
        out.append(st)
        continue
      counter[0] += 1
      tmp = f'unrolled__c{counter[0]}'
      pre: List[ast.stmt] = [ast.Assign(targets=[ast.Name(id=tmp, ctx=ast.Store())], value=ast.List(elts=[], ctx=ast.Load()), lineno=st.lineno)]
      for e in elems:
        m: Dict[str, ast.AST] = {}
        if isinstance(tg, ast.Name):
          m[tg.id] = e
        else:
          for tn, ee in zip(tg.elts, e.elts):
            m[tn.id] = ee
        app = ast.Expr(value=ast.Call(func=ast.Attribute(value=ast.Name(id=tmp, ctx=ast.Load()), attr='append', ctx=ast.Load()),
                                      args=[_Rename(m).visit(copy.deepcopy(c.elt))], keywords=[]))
        if gen.ifs:
          tests = [_Rename(m).visit(copy.deepcopy(t)) for t in gen.ifs]
          test = tests[0] if len(tests) == 1 else ast.BoolOp(op=ast.And(), values=tests)
          pre.append(ast.If(test=test, body=[app], orelse=[]))
        else:
          pre.append(app)
      new_st = _ReplaceNode(c, ast.Name(id=tmp, ctx=ast.Load())).visit(st)
      for x in pre + [new_st]:
        ast.copy_location(x, st)
        ast.fix_missing_locations(x)
      out.extend(pre)
      out.append(new_st)
      n += 1
    return out

  fn.body = do_block(fn.body)
  return n


def _unroll_literal_loops(tree: ast.Module) -> int:
  """`for x in (a, b, c): BODY` with a short literal iterable (or a local list built by straight-line appends)
  and a break/continue-free body whose temporaries are written before read becomes BODY[a]; BODY[b]; BODY[c].
  The loop body's temporaries get per-iteration names so later statement lists can refer to each of them."""
  n = 0
  counter = [0]
  for x in ast.walk(tree):
    if isinstance(x, ast.FunctionDef):
      # two passes: the first may turn `L.append(q)` inside a loop into straight-line appends
      for _ in range(2):
        k = _unroll_in_function(x, counter)
        n += k
        if not k:
          break
      n += _unroll_literal_comprehensions(x, counter)
  return n


# --------------------------------------------------------------------------- scalar replacement of local records
def _record_classes(tree: ast.Module) -> Dict[str, List[Tuple[str, Optional[ast.AST]]]]:
  """NamedTuple / dataclass classes of the module: name -> [(field, default or None)] in declaration order."""
  out: Dict[str, List[Tuple[str, Optional[ast.AST]]]] = {}
  for st in tree.body:
    if not isinstance(st, ast.ClassDef):
      continue
    bases = {(b.attr if isinstance(b, ast.Attribute) else getattr(b, 'id', '')) for b in st.bases}
    decos = {(d.func if isinstance(d, ast.Call) else d) for d in st.decorator_list}
    deco_names = {(d.attr if isinstance(d, ast.Attribute) else getattr(d, 'id', '')) for d in decos}
    attrs_auto = False
    for d in st.decorator_list:
      dn = _chain(d.func if isinstance(d, ast.Call) else d) or ''
      if dn.split('.')[0] in ('attr', 'attrs') and dn.rsplit('.', 1)[-1] in ('define', 'frozen', 'mutable'):
        attrs_auto = True
      if dn in ('attr.s', 'attr.attrs', 'attrs.attrs') and isinstance(d, ast.Call) and any(
          k.arg == 'auto_attribs' and isinstance(k.value, ast.Constant) and k.value.value is True for k in d.keywords):
        attrs_auto = True
    if attrs_auto and (st.bases or not st.name.startswith('_') or any(
        isinstance(m, ast.FunctionDef) and m.name in ('__init__', '__attrs_post_init__', '__attrs_pre_init__', '__new__') for m in st.body)):
      continue
    if 'NamedTuple' not in bases and 'dataclass' not in deco_names and not attrs_auto:
      continue
    if 'dataclass' in deco_names and st.bases:
      continue
    fields = [(m.target.id, m.value) for m in st.body if isinstance(m, ast.AnnAssign) and isinstance(m.target, ast.Name)]
    if attrs_auto:
      # attr.ib(...) / attr.field(...) declarations: converters, validators and factories are outside the model
      if any(isinstance(v, ast.Call) for _, v in fields):
        continue
    if fields:
      out[st.name] = fields
  return out


def _sroa_function(fn: ast.FunctionDef, records: Dict[str, List[Tuple[str, Optional[ast.AST]]]]) -> int:
  """`r = Rec(a, f=b)` (every binding of `r` is such a construction of one record class), `r` used only as
  `r.<field>` loads: the record is replaced by one local per field (`r__f`), so dataflow through a NamedTuple carrier
  looks like dataflow through plain locals."""
  n = 0
  stores: Dict[str, List[ast.Assign]] = {}
  for x in ast.walk(fn):
    if isinstance(x, ast.Assign) and len(x.targets) == 1 and isinstance(x.targets[0], ast.Name):
      stores.setdefault(x.targets[0].id, []).append(x)
  all_stores: Dict[str, int] = {}
  for x in ast.walk(fn):
    if isinstance(x, ast.Name) and isinstance(x.ctx, (ast.Store, ast.Del)):
      all_stores[x.id] = all_stores.get(x.id, 0) + 1
  params = {a.arg for a in fn.args.args + fn.args.kwonlyargs + fn.args.posonlyargs}
  for name, asgs in stores.items():
    if all_stores.get(name, 0) != len(asgs) or name in params:
      continue
    if not all(isinstance(a.value, ast.Call) and isinstance(a.value.func, ast.Name) and a.value.func.id in records for a in asgs):
      continue
    if len({a.value.func.id for a in asgs}) != 1:
      continue
    fields = records[asgs[0].value.func.id]
    all_vals: List[Dict[str, ast.AST]] = []
    ok = True
    for a in asgs:
      v = a.value
      if any(isinstance(x, ast.Starred) for x in v.args) or any(k.arg is None for k in v.keywords) or len(v.args) > len(fields):
        ok = False
        break
      vals: Dict[str, ast.AST] = {}
      for (f, _), arg in zip(fields, v.args):
        vals[f] = arg
      for k in v.keywords:
        vals[k.arg] = k.value
      for f, d in fields:
        if f not in vals:
          if d is None:
            ok = False
          else:
            vals[f] = copy.deepcopy(d)
      if not ok or set(vals) != {f for f, _ in fields}:
        ok = False
        break
      all_vals.append(vals)
    if not ok:
      continue
    fieldset = {f for f, _ in fields}
    # every other mention of the record must be a field load
    uses = [x for x in ast.walk(fn) if isinstance(x, ast.Name) and x.id == name and isinstance(x.ctx, ast.Load)]
    attr_uses = [x for x in ast.walk(fn) if isinstance(x, ast.Attribute) and isinstance(x.value, ast.Name)
                 and x.value.id == name and isinstance(x.ctx, ast.Load) and x.attr in fieldset]
    if len(uses) != len(attr_uses) or not uses:
      continue
    # nested scopes that mention the record: give up (late binding)
    nested = [y for y in ast.walk(fn) if y is not fn and isinstance(y, (ast.FunctionDef, ast.Lambda))]
    if any(isinstance(z, ast.Name) and z.id == name for y in nested for z in ast.walk(y)):
      continue

    def splice(stmts: List[ast.stmt], a, repl) -> bool:
      for i, st in enumerate(stmts):
        if st is a:
          stmts[i:i + 1] = repl
          return True
        for fld in ('body', 'orelse', 'finalbody'):
          b = getattr(st, fld, None)
          if isinstance(b, list) and splice(b, a, repl):
            return True
        if isinstance(st, ast.Try):
          for h in st.handlers:
            if splice(h.body, a, repl):
              return True
      return False
    done = True
    for a, vals in zip(asgs, all_vals):
      given = list(a.value.args) + [k.value for k in a.value.keywords]
      # the field locals are bound in the order the call evaluates its arguments (defaults last)
      order = sorted(fields, key=lambda fd: next((i for i, y in enumerate(given) if y is vals[fd[0]]), len(given)))
      repl = [ast.copy_location(ast.Assign(targets=[ast.Name(id=f'{name}__{f}', ctx=ast.Store())], value=vals[f],
                                           lineno=a.lineno), a) for f, _ in order]
      for r in repl:
        ast.fix_missing_locations(r)
      if not splice(fn.body, a, repl):
        done = False
    if not done:
      continue

    class _R(ast.NodeTransformer):
      def visit_Attribute(self, x: ast.Attribute):
        if isinstance(x.value, ast.Name) and x.value.id == name and isinstance(x.ctx, ast.Load) and x.attr in fieldset:
          return ast.copy_location(ast.Name(id=f'{name}__{x.attr}', ctx=ast.Load()), x)
        return self.generic_visit(x)
    _R().visit(fn)
    n += 1
  return n


def _soa_record_lists(fn: ast.FunctionDef, records: Dict[str, List[Tuple[str, Optional[ast.AST]]]]) -> int:
  """A local list of records (`L = []` ... `L.append(Rec(a, b))`) that is only tested for emptiness / length, indexed
  for a field (`L[i].f`) or iterated by comprehensions reading fields of the element (directly or through
  `itertools.compress(L, S)`) is the family of parallel lists `L__f`: `L__a.append(a); L__b.append(b)`,
  `[e.f for e in L]` -> `[e__f for e__f in L__f]`."""
  n = 0
  parents: Dict[int, ast.AST] = {}
  for x in ast.walk(fn):
    for ch in ast.iter_child_nodes(x):
      parents[id(ch)] = x
  stores: Dict[str, List[ast.Name]] = {}
  for x in ast.walk(fn):
    if isinstance(x, ast.Name) and isinstance(x.ctx, (ast.Store, ast.Del)):
      stores.setdefault(x.id, []).append(x)
  nested = [y for y in ast.walk(fn) if y is not fn and isinstance(y, (ast.FunctionDef, ast.Lambda))]
  nested_names = {z.id for y in nested for z in ast.walk(y) if isinstance(z, ast.Name)}
  for name, sts in list(stores.items()):
    if len(sts) != 1 or name in nested_names:
      continue
    init = parents.get(id(sts[0]))
    if not (isinstance(init, (ast.Assign, ast.AnnAssign)) and isinstance(init.value, ast.List) and not init.value.elts
            and (init.targets == [sts[0]] if isinstance(init, ast.Assign) else init.target is sts[0])):
      continue
    loads = [x for x in ast.walk(fn) if isinstance(x, ast.Name) and x.id == name and isinstance(x.ctx, ast.Load)]
    rec = None
    plan = []   # (kind, node...)
    ok = bool(loads)
    for x in loads:
      par = parents.get(id(x))
      gp = parents.get(id(par)) if par is not None else None
      ggp = parents.get(id(gp)) if gp is not None else None
      # L.append(Rec(...))
      if isinstance(par, ast.Attribute) and par.attr == 'append' and isinstance(gp, ast.Call) and gp.func is par \
          and isinstance(ggp, ast.Expr) and len(gp.args) == 1 and not gp.keywords and isinstance(gp.args[0], ast.Call) \
          and isinstance(gp.args[0].func, ast.Name) and gp.args[0].func.id in records and (rec in (None, gp.args[0].func.id)):
        rec = gp.args[0].func.id
        plan.append(('append', ggp, gp.args[0]))
      elif isinstance(par, ast.UnaryOp) and isinstance(par.op, ast.Not):
        plan.append(('truth', x))
      elif isinstance(par, (ast.If, ast.While, ast.IfExp)) and par.test is x:
        plan.append(('truth', x))
      elif isinstance(par, ast.BoolOp):
        plan.append(('truth', x))
      elif isinstance(par, ast.Call) and isinstance(par.func, ast.Name) and par.func.id == 'len' and par.args == [x]:
        plan.append(('truth', x))
      elif isinstance(par, ast.Subscript) and par.value is x and isinstance(gp, ast.Attribute) and gp.value is par \
          and isinstance(gp.ctx, ast.Load):
        plan.append(('index', x, gp))
      elif isinstance(par, ast.comprehension) and par.iter is x and isinstance(par.target, ast.Name):
        plan.append(('comp', x, par, gp))
      elif isinstance(par, ast.Call) and (_chain(par.func) or '').endswith('compress') and len(par.args) == 2 and par.args[0] is x \
          and isinstance(gp, ast.comprehension) and gp.iter is par and isinstance(gp.target, ast.Name):
        plan.append(('comp', x, gp, ggp))
      else:
        ok = False
        break
    if not ok or rec is None:
      continue
    fields = [f for f, _ in records[rec]]
    # appended records: all fields given explicitly
    app_vals = []
    for kind, *rest in plan:
      if kind != 'append':
        continue
      call = rest[1]
      if any(isinstance(a, ast.Starred) for a in call.args) or any(k.arg is None for k in call.keywords) or len(call.args) > len(fields):
        ok = False
        break
      vals = dict(zip(fields, call.args))
      vals.update({k.arg: k.value for k in call.keywords})
      for f, d in records[rec]:
        if f not in vals and d is not None:
          vals[f] = d
      if set(vals) != set(fields):
        ok = False
        break
      app_vals.append(vals)
    if not ok:
      continue
    # comprehension elements: every use of the element variable is a load of one field
    comp_fields: Dict[int, Set[str]] = {}
    for kind, *rest in plan:
      if kind == 'comp':
        comp, owner = rest[1], rest[2]
        ev = comp.target.id
        uses = [z for z in ast.walk(owner) if isinstance(z, ast.Name) and z.id == ev and z is not comp.target]
        fs = set()
        for z in uses:
          pz = parents.get(id(z))
          if isinstance(pz, ast.Attribute) and pz.value is z and isinstance(pz.ctx, ast.Load) and pz.attr in fields:
            fs.add(pz.attr)
          else:
            ok = False
        if len(fs) != 1:
          ok = False
        comp_fields[id(comp)] = fs
      elif kind == 'index' and rest[1].attr not in fields:
        ok = False
    if not ok:
      continue
    # ---- rewrite
    def block_of(st):
      par = parents.get(id(st))
      for fld in ('body', 'orelse', 'finalbody'):
        b = getattr(par, fld, None)
        if isinstance(b, list) and any(y is st for y in b):
          return b
      return None
    b = block_of(init)
    if b is None:
      continue
    i = next(k for k, y in enumerate(b) if y is init)
    new_inits = [ast.copy_location(ast.Assign(targets=[ast.Name(id=f'{name}__{f}', ctx=ast.Store())],
                                              value=ast.List(elts=[], ctx=ast.Load()), lineno=init.lineno), init) for f in fields]
    for r in new_inits:
      ast.fix_missing_locations(r)
    b[i:i + 1] = new_inits
    ai = 0
    for kind, *rest in plan:
      if kind == 'append':
        st = rest[0]
        vals = app_vals[ai]
        ai += 1
        blk = block_of(st)
        if blk is None:
          continue
        j = next(k for k, y in enumerate(blk) if y is st)
        # the field values are evaluated in field order, as the constructor call does
        apps = []
        for f in fields:
          call = ast.Call(func=ast.Attribute(value=ast.Name(id=f'{name}__{f}', ctx=ast.Load()), attr='append', ctx=ast.Load()),
                          args=[vals[f]], keywords=[])
          e = ast.Expr(value=call)
          ast.copy_location(e, st)
          ast.copy_location(call, st)
          ast.fix_missing_locations(e)
          apps.append(e)
        blk[j:j + 1] = apps
      elif kind == 'truth':
        rest[0].id = f'{name}__{fields[0]}'
      elif kind == 'index':
        x, attr = rest
        x.id = f'{name}__{attr.attr}'
        sub = parents[id(x)]
        # L[i].f  ->  L__f[i]: the Attribute node becomes the subscript
        gpar = parents.get(id(attr))
        for fld, val in ast.iter_fields(gpar):
          if val is attr:
            setattr(gpar, fld, sub)
          elif isinstance(val, list):
            for k, y in enumerate(val):
              if y is attr:
                val[k] = sub
      elif kind == 'comp':
        x, comp, owner = rest
        f = next(iter(comp_fields[id(comp)]))
        x.id = f'{name}__{f}'
        ev = comp.target.id

        class _R(ast.NodeTransformer):
          def visit_Attribute(self, a: ast.Attribute):
            if isinstance(a.value, ast.Name) and a.value.id == ev and a.attr == f:
              return ast.copy_location(ast.Name(id=f'{ev}__{f}', ctx=ast.Load()), a)
            return self.generic_visit(a)
        _R().visit(owner)
        comp.target.id = f'{ev}__{f}'
    n += 1
    # parents are stale now: one list per call
    return n + _soa_record_lists(fn, records)
  return n


def _propagate_name_aliases(fn: ast.FunctionDef) -> int:
  """`a = b` where both names are bound exactly once in the function (b earlier in the same statement list, or b a
  parameter that is never re-bound): loads of `a` read `b` directly and the copy disappears (what inlining a
  value-returning helper leaves behind)."""
  n = 0
  for _ in range(6):
    stores: Dict[str, int] = {}
    for x in ast.walk(fn):
      if isinstance(x, ast.Name) and isinstance(x.ctx, (ast.Store, ast.Del)):
        stores[x.id] = stores.get(x.id, 0) + 1
      elif isinstance(x, ast.ExceptHandler) and x.name:
        stores[x.name] = stores.get(x.name, 0) + 2
      elif isinstance(x, (ast.Global, ast.Nonlocal)):
        for nm in x.names:
          stores[nm] = stores.get(nm, 0) + 2
    params = {a.arg for a in fn.args.args + fn.args.kwonlyargs + fn.args.posonlyargs}
    nested_names = {z.id for y in ast.walk(fn) if y is not fn and isinstance(y, (ast.FunctionDef, ast.Lambda))
                    for z in ast.walk(y) if isinstance(z, ast.Name)}
    done = False

    def scan(stmts: List[ast.stmt]) -> bool:
      nonlocal done
      for i, st in enumerate(stmts):
        if isinstance(st, ast.Assign) and len(st.targets) == 1 and isinstance(st.targets[0], ast.Name) \
            and isinstance(st.value, ast.Name):
          a, b = st.targets[0].id, st.value.id
          if a != b and stores.get(a) == 1 and a not in params and a not in nested_names and b not in nested_names and (
              (stores.get(b) == 1 and b not in params and any(
                  isinstance(p_, ast.Assign) and any(isinstance(t, ast.Name) and t.id == b for t in p_.targets)
                  for p_ in stmts[:i]))
              or (b in params and stores.get(b, 0) == 0 and b not in ('self', 'cls'))):
            del stmts[i]
            for x in ast.walk(fn):
              if isinstance(x, ast.Name) and x.id == a and isinstance(x.ctx, ast.Load):
                x.id = b
            done = True
            return True
        for fld in ('body', 'orelse', 'finalbody'):
          blk = getattr(st, fld, None)
          if isinstance(blk, list) and not isinstance(st, (ast.FunctionDef, ast.ClassDef)) and scan(blk):
            return True
        if isinstance(st, ast.Try):
          for h in st.handlers:
            if scan(h.body):
              return True
      return False
    scan(fn.body)
    if not done:
      break
    n += 1
  return n


def _split_tuple_assigns(fn: ast.FunctionDef, records) -> int:
  """`a, b = (x, y)` / `a, b = Rec(x, y)` (what a tuple-returning helper leaves behind after inlining) becomes
  `a = x; b = y` when no target is read by a later element."""
  n = 0

  def do_block(stmts: List[ast.stmt]) -> None:
    nonlocal n
    i = 0
    while i < len(stmts):
      st = stmts[i]
      for fld in ('body', 'orelse', 'finalbody'):
        b = getattr(st, fld, None)
        if isinstance(b, list) and not isinstance(st, (ast.FunctionDef, ast.ClassDef)):
          do_block(b)
      if isinstance(st, ast.Try):
        for h in st.handlers:
          do_block(h.body)
      if isinstance(st, ast.Assign) and len(st.targets) == 1 and isinstance(st.targets[0], ast.Tuple) \
          and all(isinstance(t, ast.Name) for t in st.targets[0].elts):
        tg = st.targets[0].elts
        v = st.value
        elts = None
        if isinstance(v, ast.Tuple) and len(v.elts) == len(tg) and not any(isinstance(e, ast.Starred) for e in v.elts):
          elts = list(v.elts)
        elif isinstance(v, ast.Call) and isinstance(v.func, ast.Name) and v.func.id in records and not v.keywords \
            and len(v.args) == len(tg) == len(records[v.func.id]) and not any(isinstance(e, ast.Starred) for e in v.args):
          elts = list(v.args)
        if elts is not None:
          tnames = [t.id for t in tg]
          clash = any(isinstance(x, ast.Name) and x.id in tnames[:k] for k, e in enumerate(elts) for x in ast.walk(e))
          if not clash:
            new = [ast.copy_location(ast.Assign(targets=[ast.Name(id=t.id, ctx=ast.Store())], value=e, lineno=st.lineno), st)
                   for t, e in zip(tg, elts)]
            for x in new:
              ast.fix_missing_locations(x)
            stmts[i:i + 1] = new
            i += len(new)
            n += 1
            continue
      i += 1

  do_block(fn.body)
  return n


# --------------------------------------------------------------------------- constant tests left by inlining
def _chain(e: ast.AST) -> Optional[str]:
  parts = []
  while isinstance(e, ast.Attribute):
    parts.append(e.attr)
    e = e.value
  if isinstance(e, ast.Name):
    parts.append(e.id)
    return '.'.join(reversed(parts))
  return None


def _never_none(fn: ast.FunctionDef) -> Tuple[Set[str], Set[str]]:
  """(parameters annotated with a protobuf message type, locals bound exactly once to a freshly constructed protobuf
  message or to another such local).  A field read off a protobuf message is never None (unset fields read as their
  default), and neither is a constructed message."""
  params = set()
  for a in fn.args.args + fn.args.kwonlyargs:
    c = _chain(a.annotation) if a.annotation is not None else None
    if c and '_pb2.' in c:
      params.add(a.arg)
  stores: Dict[str, int] = {}
  for x in ast.walk(fn):
    if isinstance(x, ast.Name) and isinstance(x.ctx, (ast.Store, ast.Del)):
      stores[x.id] = stores.get(x.id, 0) + 1
  for a in fn.args.args + fn.args.kwonlyargs + fn.args.posonlyargs:
    stores[a.arg] = stores.get(a.arg, 0) + 1
  locals_: Set[str] = set()
  changed = True
  while changed:
    changed = False
    for x in ast.walk(fn):
      if isinstance(x, ast.Assign) and len(x.targets) == 1 and isinstance(x.targets[0], ast.Name):
        nm = x.targets[0].id
        if nm in locals_ or stores.get(nm) != 1:
          continue
        v = x.value
        ok = False
        if isinstance(v, ast.Call) and not isinstance(v.func, ast.Call):
          c = _chain(v.func)
          ok = bool(c) and '_pb2.' in c and c.rsplit('.', 1)[1][:1].isupper()
        elif isinstance(v, ast.Name):
          ok = v.id in locals_
        if ok:
          locals_.add(nm)
          changed = True
  return params, locals_


def _const_test(t: ast.AST, never_none: Optional[Tuple[Set[str], Set[str]]] = None) -> Optional[bool]:
  """Truth value of a comparison between two enum-member chains (`X.State.ACTIVE == X.State.ACTIVE`) or constants, as
  left behind when a helper is inlined with a literal argument; None when not decidable."""
  if isinstance(t, ast.Constant) and isinstance(t.value, bool):
    return t.value
  if isinstance(t, ast.UnaryOp) and isinstance(t.op, ast.Not):
    v = _const_test(t.operand, never_none)
    return None if v is None else not v
  if isinstance(t, ast.BoolOp):
    vs = [_const_test(v, never_none) for v in t.values]
    if isinstance(t.op, ast.And):
      return False if any(v is False for v in vs) else True if all(v is True for v in vs) else None
    return True if any(v is True for v in vs) else False if all(v is False for v in vs) else None
  if not (isinstance(t, ast.Compare) and len(t.ops) == 1):
    return None
  l, r, op = t.left, t.comparators[0], t.ops[0]

  def member(e):
    c = _chain(e)
    return c if c and '.' in c and c.rsplit('.', 1)[1].isupper() else None

  def same(a, b) -> Optional[bool]:
    if isinstance(a, ast.Constant) and isinstance(b, ast.Constant):
      return a.value == b.value and type(a.value) is type(b.value)
    ma, mb = member(a), member(b)
    if ma and mb:
      if ma == mb:
        return True
      if ma.rsplit('.', 1)[0] == mb.rsplit('.', 1)[0]:
        return False
    return None
  if never_none is not None and isinstance(op, (ast.Is, ast.IsNot)):
    for a, b in ((l, r), (r, l)):
      if isinstance(b, ast.Constant) and b.value is None:
        c = _chain(a)
        if c and (('.' in c and c.split('.')[0] in never_none[0]) or ('.' not in c and c in never_none[1])):
          return isinstance(op, ast.IsNot)
  if isinstance(op, (ast.Eq, ast.Is, ast.NotEq, ast.IsNot)):
    v = same(l, r)
    return None if v is None else v if isinstance(op, (ast.Eq, ast.Is)) else not v
  if isinstance(op, (ast.In, ast.NotIn)) and isinstance(r, (ast.Tuple, ast.List, ast.Set)):
    vs = [same(l, x) for x in r.elts]
    if any(v is True for v in vs):
      return isinstance(op, ast.In)
    if all(v is False for v in vs):
      return isinstance(op, ast.NotIn)
  return None


def _fold_constant_tests(fn: ast.FunctionDef) -> int:
  n = 0
  never_none = _never_none(fn)

  def do_block(stmts: List[ast.stmt]) -> List[ast.stmt]:
    nonlocal n
    out: List[ast.stmt] = []
    for st in stmts:
      for fld in ('body', 'orelse', 'finalbody'):
        b = getattr(st, fld, None)
        if isinstance(b, list) and not isinstance(st, (ast.FunctionDef, ast.ClassDef)):
          setattr(st, fld, do_block(b))
      if isinstance(st, ast.Try):
        for h in st.handlers:
          h.body = do_block(h.body)
      if isinstance(st, ast.If):
        v = _const_test(st.test, never_none)
        if v is not None:
          n += 1
          out.extend(st.body if v else st.orelse)
          continue
      out.append(st)
    return out if (out or not stmts) else [ast.copy_location(ast.Pass(), stmts[0])]

  fn.body = do_block(fn.body)
  if n:
    for x in ast.walk(fn):
      if isinstance(x, ast.Pass) and not hasattr(x, 'lineno'):
        ast.copy_location(x, fn)
  return n


# --------------------------------------------------------------------------- dispatch tables -> if chains
_DISPATCH_MAX_KEYS = 16
_DISPATCH_MAX_REST = 30


def _key_ok(k: ast.AST) -> bool:
  if isinstance(k, ast.Constant):
    return True
  c = _chain(k) if k is not None else None
  return bool(c) and '.' in c


def _dict_literal(fn: ast.FunctionDef, tree: ast.Module, e: ast.AST, before: List[ast.stmt]) -> Optional[ast.Dict]:
  """The dict literal a name denotes: a local bound once (earlier, at the top level of the function) or a
  module-level constant; never mutated by subscript stores or method calls."""
  if isinstance(e, ast.Dict):
    d = e
  elif isinstance(e, ast.Name):
    name = e.id
    local = [st for st in before if isinstance(st, (ast.Assign, ast.AnnAssign))
             and any(isinstance(t, ast.Name) and t.id == name for t in (st.targets if isinstance(st, ast.Assign) else [st.target]))]
    stores = sum(1 for x in ast.walk(fn) if isinstance(x, ast.Name) and x.id == name and isinstance(x.ctx, (ast.Store, ast.Del)))
    if len(local) == 1 and stores == 1:
      d, scope = local[0].value, fn
    elif stores == 0 and name not in {a.arg for a in fn.args.args + fn.args.kwonlyargs}:
      glob = [st for st in tree.body if isinstance(st, (ast.Assign, ast.AnnAssign))
              and any(isinstance(t, ast.Name) and t.id == name for t in (st.targets if isinstance(st, ast.Assign) else [st.target]))]
      if len(glob) != 1:
        return None
      d, scope = glob[0].value, tree
    else:
      return None
    if not isinstance(d, ast.Dict):
      return None
    # no mutation anywhere in the scope that owns it
    for x in ast.walk(scope):
      if isinstance(x, ast.Subscript) and isinstance(x.value, ast.Name) and x.value.id == name and isinstance(x.ctx, (ast.Store, ast.Del)):
        return None
      if isinstance(x, ast.Call) and isinstance(x.func, ast.Attribute) and isinstance(x.func.value, ast.Name) \
          and x.func.value.id == name and x.func.attr in ('update', 'pop', 'setdefault', 'clear', 'popitem', '__setitem__'):
        return None
  else:
    return None
  if not (0 < len(d.keys) <= _DISPATCH_MAX_KEYS) or not all(_key_ok(k) for k in d.keys):
    return None
  return d


def _lookup_in(stmt: ast.stmt, fn, tree, before) -> Optional[Tuple[ast.AST, ast.Dict, ast.AST, Optional[ast.AST], bool]]:
  """(lookup expression, table, key expression, default or None, raises-on-miss) for the first `D[K]` / `D.get(K[, d])`
  over a dict literal in the statement's own expressions (not in nested blocks)."""
  exprs: List[ast.AST] = []
  if isinstance(stmt, (ast.Assign, ast.AnnAssign, ast.Return, ast.Expr)):
    if stmt.value is not None:
      exprs.append(stmt.value)
  else:
    return None
  for e in exprs:
    for x in ast.walk(e):
      if isinstance(x, (ast.Lambda, ast.ListComp, ast.GeneratorExp, ast.DictComp, ast.SetComp)):
        # a lookup under a binder may depend on bound variables: skip statements that contain binders altogether
        if any(isinstance(y, ast.Subscript) or (isinstance(y, ast.Call) and isinstance(y.func, ast.Attribute) and y.func.attr == 'get')
               for y in ast.walk(x)):
          return None
    for x in ast.walk(e):
      if isinstance(x, ast.Subscript) and isinstance(x.ctx, ast.Load) and not isinstance(x.slice, ast.Slice):
        d = _dict_literal(fn, tree, x.value, before)
        if d is not None and _chain(x.slice) and _pure_expr(x.slice):
          return x, d, x.slice, None, True
      if isinstance(x, ast.Call) and isinstance(x.func, ast.Attribute) and x.func.attr == 'get' and 1 <= len(x.args) <= 2 and not x.keywords:
        d = _dict_literal(fn, tree, x.func.value, before)
        if d is not None and _chain(x.args[0]) and _pure_expr(x.args[0]):
          return x, d, x.args[0], (x.args[1] if len(x.args) == 2 else ast.Constant(value=None)), False
  return None


class _ReplaceNode(ast.NodeTransformer):

  def __init__(self, target: ast.AST, repl: ast.AST):
    self.target, self.repl = target, repl

  def visit(self, node):
    if node is self.target:
      return copy.deepcopy(self.repl)
    return super().visit(node)


class _SubstName(ast.NodeTransformer):
  """Loads of `name` become `value`; `name is (not) None` is decided on the spot."""

  def __init__(self, name: str, value: ast.AST):
    self.name, self.value = name, value

  def visit_Compare(self, n: ast.Compare):
    if len(n.ops) == 1 and isinstance(n.ops[0], (ast.Is, ast.IsNot)) and isinstance(n.left, ast.Name) and n.left.id == self.name \
        and isinstance(n.comparators[0], ast.Constant) and n.comparators[0].value is None:
      is_none = isinstance(self.value, ast.Constant) and self.value.value is None
      return ast.copy_location(ast.Constant(value=is_none if isinstance(n.ops[0], ast.Is) else not is_none), n)
    return self.generic_visit(n)

  def visit_Name(self, n: ast.Name):
    if n.id == self.name and isinstance(n.ctx, ast.Load):
      return ast.copy_location(copy.deepcopy(self.value), n)
    return n


def _simplify_calls(node: ast.AST, cls_name: Optional[str]) -> None:
  """getattr(x, 'c') -> x.c ; operator.attrgetter('c')(x) -> x.c ; Cls.m(self, a) inside Cls -> self.m(a)."""
  class S(ast.NodeTransformer):
    def visit_Call(self, c: ast.Call):
      self.generic_visit(c)
      if isinstance(c.func, ast.Name) and c.func.id == 'getattr' and len(c.args) == 2 and not c.keywords \
          and isinstance(c.args[1], ast.Constant) and isinstance(c.args[1].value, str) and c.args[1].value.isidentifier():
        return ast.copy_location(ast.Attribute(value=c.args[0], attr=c.args[1].value, ctx=ast.Load()), c)
      if isinstance(c.func, ast.Call) and _chain(c.func.func) in ('operator.attrgetter', 'attrgetter') and len(c.func.args) == 1 \
          and isinstance(c.func.args[0], ast.Constant) and isinstance(c.func.args[0].value, str) \
          and c.func.args[0].value.isidentifier() and len(c.args) == 1 and not c.keywords:
        return ast.copy_location(ast.Attribute(value=c.args[0], attr=c.func.args[0].value, ctx=ast.Load()), c)
      if cls_name and isinstance(c.func, ast.Attribute) and isinstance(c.func.value, ast.Name) and c.func.value.id == cls_name \
          and c.args and isinstance(c.args[0], ast.Name) and c.args[0].id == 'self':
        return ast.copy_location(ast.Call(func=ast.Attribute(value=ast.Name(id='self', ctx=ast.Load()), attr=c.func.attr, ctx=ast.Load()),
                                          args=c.args[1:], keywords=c.keywords), c)
      return c
  S().visit(node)
  ast.fix_missing_locations(node)


def _propagate_simple_locals(stmts: List[ast.stmt], suffix: str, params: Set[str]) -> None:
  """Within one expanded arm: `x__dN = <constant | global attribute chain | x.attr chain>` bound once in the arm is
  substituted into the later statements of the arm."""
  for _ in range(8):
    changed = False
    for i, st in enumerate(stmts):
      if isinstance(st, ast.Assign) and len(st.targets) == 1 and isinstance(st.targets[0], ast.Name) \
          and st.targets[0].id.endswith(suffix):
        name = st.targets[0].id
        v = st.value
        simple = isinstance(v, ast.Constant) or (_chain(v) is not None)
        if not simple:
          continue
        stores = sum(1 for b in stmts for x in ast.walk(b) if isinstance(x, ast.Name) and x.id == name and isinstance(x.ctx, (ast.Store, ast.Del)))
        if stores != 1:
          continue
        rest = stmts[i + 1:]
        sub = _SubstName(name, v)
        stmts[i + 1:] = [sub.visit(b) for b in rest]
        del stmts[i]
        changed = True
        break
    if not changed:
      break


def _splice_closures(stmts: List[ast.stmt], closures: Dict[str, ast.FunctionDef], suffix: str) -> List[ast.stmt]:
  """`return f()` / `x = f()` / `f()` where f is a parameterless straight-line local closure ending in its only
  return: the closure body takes the place of the call (its own locals get the arm's suffix)."""
  out: List[ast.stmt] = []
  for st in stmts:
    v = st.value if isinstance(st, (ast.Return, ast.Assign, ast.Expr)) else None
    if not (isinstance(v, ast.Call) and isinstance(v.func, ast.Name) and v.func.id in closures and not v.args and not v.keywords):
      out.append(st)
      continue
    c = closures[v.func.id]
    body = _strip_doc(c.body)
    straight = body and isinstance(body[-1], ast.Return) and all(
        isinstance(b, (ast.Assign, ast.AnnAssign, ast.Expr, ast.Import, ast.ImportFrom, ast.Pass)) for b in body[:-1]) \
        and not any(isinstance(x, (ast.Return, ast.Yield, ast.YieldFrom, ast.Global, ast.Nonlocal)) for b in body[:-1] for x in ast.walk(b))
    if not straight:
      out.append(st)
      continue
    own = {x.id for b in body for x in ast.walk(b) if isinstance(x, ast.Name) and isinstance(x.ctx, ast.Store)}
    ren = {a: f'{a}__{c.name}{suffix}' for a in own}
    new = [_Rename(ren).visit(copy.deepcopy(b)) for b in body]
    ret = new.pop()
    for b in new:
      ast.copy_location(b, st)
      out.append(b)
    if isinstance(st, ast.Return):
      r = ast.Return(value=ret.value)
    elif isinstance(st, ast.Assign):
      r = ast.Assign(targets=st.targets, value=ret.value if ret.value is not None else ast.Constant(value=None), lineno=st.lineno)
    else:
      r = ast.Expr(value=ret.value if ret.value is not None else ast.Constant(value=None))
    ast.copy_location(r, st)
    ast.fix_missing_locations(r)
    out.append(r)
  return out


def _trim_dead(stmts: List[ast.stmt]) -> None:
  """Drops the statements that follow an unconditional raise/return/continue/break in a block (recursively)."""
  for i, st in enumerate(stmts):
    for fld in ('body', 'orelse', 'finalbody'):
      b = getattr(st, fld, None)
      if isinstance(b, list) and not isinstance(st, (ast.FunctionDef, ast.ClassDef)):
        _trim_dead(b)
    if isinstance(st, ast.Try):
      for h in st.handlers:
        _trim_dead(h.body)
    if isinstance(st, (ast.Raise, ast.Return, ast.Continue, ast.Break)):
      del stmts[i + 1:]
      return


def _expand_dispatch_in_function(fn: ast.FunctionDef, tree: ast.Module, cls_name: Optional[str], counter: List[int]) -> int:
  n = 0
  for _ in range(3):
    body = fn.body
    hit = None
    for i, st in enumerate(body):
      lk = _lookup_in(st, fn, tree, body[:i])
      if lk is not None:
        hit = (i, st, lk)
        break
    if hit is None:
      break
    i, st, (expr, table, key, default, raises) = hit
    rest = body[i + 1:]
    if len(rest) > _DISPATCH_MAX_REST:
      break
    counter[0] += 1
    params = {a.arg for a in fn.args.args + fn.args.kwonlyargs + fn.args.posonlyargs}
    direct = isinstance(st, ast.Assign) and st.value is expr and len(st.targets) == 1 and isinstance(st.targets[0], ast.Name) \
        and sum(1 for x in ast.walk(fn) if isinstance(x, ast.Name) and x.id == st.targets[0].id and isinstance(x.ctx, (ast.Store, ast.Del))) == 1
    arm_stmts = [st] + rest
    assigned = {x.id for b in arm_stmts for x in ast.walk(b) if isinstance(x, ast.Name) and isinstance(x.ctx, ast.Store)} - params
    # names bound in the tail that nested functions capture keep their names (late binding)
    assigned -= {z.id for b in arm_stmts for y in ast.walk(b) if isinstance(y, (ast.FunctionDef, ast.Lambda)) for z in ast.walk(y)
                 if isinstance(z, ast.Name)}

    def make_arm(value: Optional[ast.AST], j: int) -> List[ast.stmt]:
      suffix = f'__d{counter[0]}_{j}'
      if value is None:  # D[K] on a missing key
        r = ast.Raise(exc=ast.Call(func=ast.Name(id='KeyError', ctx=ast.Load()), args=[copy.deepcopy(key)], keywords=[]), cause=None)
        ast.copy_location(r, st)
        ast.fix_missing_locations(r)
        return [r]
      if direct:
        out = [copy.deepcopy(b) for b in rest]
        sub = _SubstName(st.targets[0].id, value)
        out = [sub.visit(b) for b in out]
      else:
        out = None
      if out is None:
        # embedded lookup: replace it inside a copy of the statement
        idx_path = None
        st_copy = copy.deepcopy(st)
        # locate the copied lookup by position in a parallel walk
        for a, b in zip(ast.walk(st), ast.walk(st_copy)):
          if a is expr:
            idx_path = b
            break
        st_copy = _ReplaceNode(idx_path, value).visit(st_copy)
        out = [st_copy] + [copy.deepcopy(b) for b in rest]
      ren = {a: a + suffix for a in assigned}
      out = [_Rename(ren).visit(b) for b in out]
      for b in out:
        _simplify_calls(b, cls_name)
        ast.fix_missing_locations(b)
      out2: List[ast.stmt] = []
      for b in out:
        out2.append(b)
      # clean the arm: constant tests, tuple unpacking of literals, simple locals
      tmp = ast.FunctionDef(name='_arm', args=fn.args, body=out2 or [ast.Pass()], decorator_list=[], lineno=st.lineno, col_offset=0)
      _fold_constant_tests(tmp)
      _split_tuple_assigns(tmp, {})
      _propagate_simple_locals(tmp.body, suffix, params)
      for b in tmp.body:
        _simplify_calls(b, cls_name)
      _fold_constant_tests(tmp)
      _trim_dead(tmp.body)
      tmp.body = _splice_closures(tmp.body, closures, suffix)
      return tmp.body

    closures = {c.name: c for c in fn.body if isinstance(c, ast.FunctionDef)
                and not (c.args.args or c.args.kwonlyargs or c.args.vararg or c.args.kwarg or c.args.posonlyargs)
                and not c.decorator_list}
    chain: Optional[ast.If] = None
    last: Optional[ast.If] = None
    for j, (k, v) in enumerate(zip(table.keys, table.values)):
      test = ast.Compare(left=copy.deepcopy(key), ops=[ast.Eq()], comparators=[copy.deepcopy(k)])
      node = ast.If(test=test, body=make_arm(v, j), orelse=[])
      ast.copy_location(node, st)
      ast.copy_location(test, st)
      ast.fix_missing_locations(node)
      if chain is None:
        chain = node
      else:
        last.orelse = [node]
      last = node
    last.orelse = make_arm(None if raises else default, len(table.keys))
    fn.body = body[:i] + [chain]
    n += 1
  return n


def _expand_dispatch_tables(tree: ast.Module) -> int:
  """`h = TABLE.get(K)` / `TABLE[K](...)` over a dict literal with enum/constant keys, at the top level of a function
  body: the rest of the body is case-split on `K == key` with the looked-up value substituted, which turns a table
  dispatch back into the if/elif chain the rules (and the other normalisations) understand."""
  n = 0
  counter = [0]
  def nested(fn: ast.FunctionDef, cls_name: Optional[str]) -> int:
    k = 0
    for x in ast.walk(fn):
      if isinstance(x, ast.FunctionDef) and x is not fn:
        k += _expand_dispatch_in_function(x, tree, cls_name, counter)
    return k
  for st in tree.body:
    if isinstance(st, ast.FunctionDef):
      n += nested(st, None)
      n += _expand_dispatch_in_function(st, tree, None, counter)
    elif isinstance(st, ast.ClassDef):
      for m in st.body:
        if isinstance(m, ast.FunctionDef):
          n += nested(m, st.name)
          n += _expand_dispatch_in_function(m, tree, st.name, counter)
  return n


# --------------------------------------------------------------------------- filter loops -> comprehensions
_PURE_FUNCS = {'len', 'isinstance', 'bool', 'int', 'float', 'str', 'tuple', 'set', 'frozenset', 'sorted', 'min', 'max', 'abs',
               'getattr', 'hasattr', 'type', 'id'}
_PURE_METHODS = {'get', 'HasField', 'issubset', 'keys', 'values', 'items', 'startswith', 'endswith', 'lower', 'upper',
                 'WhichOneof'}


def _pure_expr(e: ast.AST) -> bool:
  for x in ast.walk(e):
    if isinstance(x, (ast.Await, ast.Yield, ast.YieldFrom, ast.NamedExpr, ast.Lambda)):
      return False
    if isinstance(x, ast.Call):
      f = x.func
      if isinstance(f, ast.Name) and f.id in _PURE_FUNCS:
        continue
      if isinstance(f, ast.Attribute) and f.attr in _PURE_METHODS:
        continue
      return False
  return True


_fl_counter = [0]

_MUTATORS = {'append', 'extend', 'pop', 'clear', 'remove', 'update', 'add', 'insert', 'sort', 'reverse', 'discard', 'setdefault',
             'popitem', 'CopyFrom', 'MergeFrom', 'ClearField', 'Clear'}


def _propagate_condition_locals(fn: ast.FunctionDef) -> int:
  """`has_x = bool(x)` / `both_int = isinstance(a, int) and isinstance(b, int)`: a local bound once to a pure expression
  and read only in condition positions (tests of if / while / conditional expressions / assert, through and / or / not)
  is replaced by the expression where it is read; `bool(e)` in a condition position is `e`.  Nothing the expression
  reads may be re-bound or mutated after the binding."""
  n = 0
  for _ in range(8):
    parents: Dict[int, ast.AST] = {}
    for x in ast.walk(fn):
      for ch in ast.iter_child_nodes(x):
        parents[id(ch)] = x
    stores: Dict[str, List[ast.AST]] = {}
    for x in ast.walk(fn):
      if isinstance(x, ast.Name) and isinstance(x.ctx, (ast.Store, ast.Del)):
        stores.setdefault(x.id, []).append(x)
      elif isinstance(x, ast.ExceptHandler) and x.name:
        stores.setdefault(x.name, []).extend([x, x])
    params = {a.arg for a in fn.args.args + fn.args.kwonlyargs + fn.args.posonlyargs}
    if fn.args.vararg:
      params.add(fn.args.vararg.arg)
    if fn.args.kwarg:
      params.add(fn.args.kwarg.arg)
    nested_names = {z.id for y in ast.walk(fn) if y is not fn and isinstance(y, (ast.FunctionDef, ast.Lambda, ast.ClassDef))
                    for z in ast.walk(y) if isinstance(z, ast.Name)}

    def cond_position(x: ast.AST) -> bool:
      cur = x
      while True:
        par = parents.get(id(cur))
        if isinstance(par, ast.BoolOp) or (isinstance(par, ast.UnaryOp) and isinstance(par.op, ast.Not)):
          cur = par
          continue
        return isinstance(par, (ast.If, ast.While, ast.IfExp, ast.Assert)) and par.test is cur

    def block_and_index(st: ast.stmt):
      par = parents.get(id(st))
      for fld in ('body', 'orelse', 'finalbody'):
        b = getattr(par, fld, None)
        if isinstance(b, list):
          for i, y in enumerate(b):
            if y is st:
              return b, i
      return None, None
    changed = False
    for st in [x for x in ast.walk(fn) if isinstance(x, ast.Assign)]:
      if not (len(st.targets) == 1 and isinstance(st.targets[0], ast.Name)):
        continue
      x = st.targets[0].id
      if len(stores.get(x, [])) != 1 or x in params or x in nested_names or x.startswith('__'):
        continue
      e = st.value
      if isinstance(e, (ast.Constant, ast.Name)) or not _pure_expr(e) or any(
          isinstance(y, (ast.ListComp, ast.SetComp, ast.DictComp, ast.GeneratorExp, ast.Starred)) for y in ast.walk(e)):
        continue
      loads = [y for y in ast.walk(fn) if isinstance(y, ast.Name) and y.id == x and isinstance(y.ctx, ast.Load)]
      if not loads or not all(cond_position(y) for y in loads):
        continue
      blk, i = block_and_index(st)
      if blk is None:
        continue
      later = blk[i + 1:]
      later_ids = {id(z) for b in later for z in ast.walk(b)}
      if not all(id(y) in later_ids for y in loads):
        continue
      roots = {y.id for y in ast.walk(e) if isinstance(y, ast.Name)}
      # inside a loop the statements before the binding run again after it
      in_loop = any(isinstance(a, (ast.For, ast.While)) for a in _ancestors_of(st, parents) if a is not fn)
      if in_loop:
        scope = list(ast.walk(fn))
      else:
        # what can run between the binding and a read: the statements before the one that holds the read, at every
        # nesting level down to the read; the whole of any loop that holds the read
        scope = []

        def before(block: List[ast.stmt], y: ast.AST) -> None:
          for b in block:
            if any(z is y for z in ast.walk(b)):
              if isinstance(b, (ast.For, ast.While)):
                scope.extend(ast.walk(b))
                return
              for fld in ('body', 'orelse', 'finalbody'):
                sub = getattr(b, fld, None)
                if isinstance(sub, list) and any(z is y for s_ in sub for z in ast.walk(s_)):
                  before(sub, y)
                  return
              if isinstance(b, ast.Try):
                for h in b.handlers:
                  if any(z is y for s_ in h.body for z in ast.walk(s_)):
                    scope.extend(z for s_ in b.body for z in ast.walk(s_))
                    before(h.body, y)
                    return
              return
            scope.extend(ast.walk(b))
        for y in loads:
          before(later, y)
      bad = False
      for z in scope:
        if isinstance(z, ast.Name) and z.id in roots and isinstance(z.ctx, (ast.Store, ast.Del)):
          bad = True
        elif isinstance(z, ast.Call) and isinstance(z.func, ast.Attribute) and z.func.attr in _MUTATORS:
          c_ = _chain(z.func.value)
          if c_ and c_.split('.')[0] in roots:
            bad = True
        elif isinstance(z, (ast.Subscript, ast.Attribute)) and isinstance(z.ctx, (ast.Store, ast.Del)):
          c_ = _chain(z.value)
          if c_ and c_.split('.')[0] in roots - {'self', 'cls'}:
            bad = True
          elif c_ and c_.split('.')[0] in ('self', 'cls') and isinstance(z, ast.Attribute):
            # a store into self.<a>: only matters when the expression reads self.<a>
            full = _chain(z)
            if full and any((_chain(y) or '').startswith(full) for y in ast.walk(e) if isinstance(y, ast.Attribute)):
              bad = True
        elif isinstance(z, ast.AugAssign):
          c_ = _chain(z.target) or (_chain(z.target.value) if isinstance(z.target, ast.Subscript) else None)
          if c_ and c_.split('.')[0] in roots - {'self', 'cls'}:
            bad = True
        if bad:
          break
      if bad:
        continue
      for y in loads:
        par = parents[id(y)]
        rep = copy.deepcopy(e)
        ast.copy_location(rep, y)
        for fld, val in ast.iter_fields(par):
          if val is y:
            setattr(par, fld, rep)
          elif isinstance(val, list):
            for k, w in enumerate(val):
              if w is y:
                val[k] = rep
      del blk[i]
      if not blk:
        blk.append(ast.copy_location(ast.Pass(), st))
      n += 1
      changed = True
      break
    if not changed:
      break
  # bool(e) in a condition position is e
  parents = {}
  for x in ast.walk(fn):
    for ch in ast.iter_child_nodes(x):
      parents[id(ch)] = x
  for c in [x for x in ast.walk(fn) if isinstance(x, ast.Call) and isinstance(x.func, ast.Name) and x.func.id == 'bool'
            and len(x.args) == 1 and not x.keywords]:
    cur = c
    while True:
      par = parents.get(id(cur))
      if isinstance(par, ast.BoolOp) or (isinstance(par, ast.UnaryOp) and isinstance(par.op, ast.Not)):
        cur = par
        continue
      break
    if isinstance(par, (ast.If, ast.While, ast.IfExp, ast.Assert)) and par.test is cur:
      p0 = parents[id(c)]
      for fld, val in ast.iter_fields(p0):
        if val is c:
          setattr(p0, fld, c.args[0])
        elif isinstance(val, list):
          for k, w in enumerate(val):
            if w is c:
              val[k] = c.args[0]
      n += 1
  if n:
    ast.fix_missing_locations(fn)
  return n


def _ancestors_of(node: ast.AST, parents: Dict[int, ast.AST]) -> List[ast.AST]:
  out = []
  cur = parents.get(id(node))
  while cur is not None:
    out.append(cur)
    cur = parents.get(id(cur))
  return out


def _suppress_to_try(tree: ast.Module) -> int:
  """`with contextlib.suppress(E1, E2): BODY` is `try: BODY except (E1, E2): pass`: written out so that the control-flow
  graph has the edge from a failing statement of BODY to the statement after the block."""
  n = 0

  class T(ast.NodeTransformer):
    def visit_With(self, w: ast.With):
      nonlocal n
      self.generic_visit(w)
      if len(w.items) == 1 and w.items[0].optional_vars is None and isinstance(w.items[0].context_expr, ast.Call) \
          and _chain(w.items[0].context_expr.func) in ('contextlib.suppress', 'suppress') and w.items[0].context_expr.args \
          and not w.items[0].context_expr.keywords:
        args = w.items[0].context_expr.args
        typ = args[0] if len(args) == 1 else ast.Tuple(elts=list(args), ctx=ast.Load())
        h = ast.ExceptHandler(type=typ, name=None, body=[ast.Pass()])
        t = ast.Try(body=w.body, handlers=[h], orelse=[], finalbody=[])
        for x in (h, t, h.body[0]):
          ast.copy_location(x, w)
        ast.fix_missing_locations(t)
        n += 1
        return t
      return w
  T().visit(tree)
  return n


def _inline_enum_aliases(tree: ast.Module) -> int:
  """`_ACTIVE = study_pb2.Trial.State.ACTIVE` (a private module-level name bound once to an enum member, or to a tuple /
  frozenset of enum members) is substituted where it is read: the rules then see the member itself."""
  def enum_chain(e) -> bool:
    c = _chain(e)
    return bool(c) and c.count('.') >= 1 and c.rsplit('.', 1)[1].isupper()

  def enum_value(e) -> bool:
    if enum_chain(e):
      return True
    if isinstance(e, (ast.Tuple, ast.List, ast.Set)) and e.elts and all(enum_chain(x) for x in e.elts):
      return True
    if isinstance(e, ast.Call) and isinstance(e.func, ast.Name) and e.func.id in ('frozenset', 'tuple', 'set') and len(e.args) == 1 \
        and isinstance(e.args[0], (ast.Tuple, ast.List, ast.Set)) and e.args[0].elts and all(enum_chain(x) for x in e.args[0].elts):
      return True
    return False
  stores: Dict[str, int] = {}
  for x in ast.walk(tree):
    if isinstance(x, ast.Name) and isinstance(x.ctx, (ast.Store, ast.Del)):
      stores[x.id] = stores.get(x.id, 0) + 1
  # `_TrialState = study_pb2.Trial.State`: a private module-level name bound once to a dotted chain rooted at an imported
  # module is the chain itself (substituted first, so that `_TrialState.ACTIVE` is an enum member below)
  imported: Set[str] = set()
  for st in tree.body:
    if isinstance(st, (ast.Import, ast.ImportFrom)):
      for a in st.names:
        imported.add((a.asname or a.name).split('.')[0])
  chain_aliases: Dict[str, ast.AST] = {}
  for st in tree.body:
    if isinstance(st, ast.Assign) and len(st.targets) == 1 and isinstance(st.targets[0], ast.Name):
      tgt, val = st.targets[0].id, st.value
      c = _chain(val)
      if tgt.startswith('_') and not tgt.startswith('__') and stores.get(tgt) == 1 and c and c.count('.') >= 1 \
          and c.split('.')[0] in imported and c.rsplit('.', 1)[1][:1].isupper() and not c.rsplit('.', 1)[1].isupper():
        chain_aliases[tgt] = val
  n0 = 0
  if chain_aliases:
    class C(ast.NodeTransformer):
      def visit_Name(self, x: ast.Name):
        nonlocal n0
        if isinstance(x.ctx, ast.Load) and x.id in chain_aliases:
          n0 += 1
          return ast.copy_location(copy.deepcopy(chain_aliases[x.id]), x)
        return x
    C().visit(tree)
    ast.fix_missing_locations(tree)
  aliases: Dict[str, ast.AST] = {}
  for st in tree.body:
    tgt, val = None, None
    if isinstance(st, ast.Assign) and len(st.targets) == 1 and isinstance(st.targets[0], ast.Name):
      tgt, val = st.targets[0].id, st.value
    elif isinstance(st, ast.AnnAssign) and isinstance(st.target, ast.Name) and st.value is not None:
      tgt, val = st.target.id, st.value
    if tgt and tgt.startswith('_') and not tgt.startswith('__') and stores.get(tgt) == 1 and enum_value(val):
      aliases[tgt] = val
  # class-level private constants used as self._X / cls._X / Cls._X
  cls_aliases: Dict[Tuple[str, str], ast.AST] = {}
  for c in tree.body:
    if isinstance(c, ast.ClassDef):
      for st in c.body:
        tgt, val = None, None
        if isinstance(st, ast.Assign) and len(st.targets) == 1 and isinstance(st.targets[0], ast.Name):
          tgt, val = st.targets[0].id, st.value
        elif isinstance(st, ast.AnnAssign) and isinstance(st.target, ast.Name) and st.value is not None:
          tgt, val = st.target.id, st.value
        if tgt and tgt.startswith('_') and not tgt.startswith('__') and enum_value(val):
          cls_aliases[(c.name, tgt)] = val
  def as_tuple(v: ast.AST) -> ast.AST:
    # only membership / iteration is ever asked of such a constant: a frozenset / set of members is read as the tuple
    if isinstance(v, ast.Call):
      v = v.args[0]
    if isinstance(v, (ast.Set, ast.List)):
      return ast.copy_location(ast.Tuple(elts=list(v.elts), ctx=ast.Load()), v)
    return v
  aliases = {k: as_tuple(v) for k, v in aliases.items()}
  cls_aliases = {k: as_tuple(v) for k, v in cls_aliases.items()}
  if not aliases and not cls_aliases:
    return n0
  n = n0

  class T(ast.NodeTransformer):
    def __init__(self):
      self.cls = None

    def visit_ClassDef(self, c):
      prev, self.cls = self.cls, c.name
      self.generic_visit(c)
      self.cls = prev
      return c

    def visit_Name(self, x: ast.Name):
      nonlocal n
      if isinstance(x.ctx, ast.Load) and x.id in aliases:
        n += 1
        return ast.copy_location(copy.deepcopy(aliases[x.id]), x)
      return x

    def visit_Attribute(self, x: ast.Attribute):
      nonlocal n
      if isinstance(x.ctx, ast.Load) and isinstance(x.value, ast.Name):
        owner = self.cls if x.value.id in ('self', 'cls') else x.value.id
        if (owner, x.attr) in cls_aliases:
          # not when an instance attribute of the same name is assigned somewhere in the class
          n += 1
          return ast.copy_location(copy.deepcopy(cls_aliases[(owner, x.attr)]), x)
      return self.generic_visit(x)
  # instance attributes that shadow a class constant: drop those aliases
  for c in tree.body:
    if isinstance(c, ast.ClassDef):
      for x in ast.walk(c):
        if isinstance(x, ast.Attribute) and isinstance(x.ctx, (ast.Store, ast.Del)) and isinstance(x.value, ast.Name) \
            and x.value.id in ('self', 'cls'):
          cls_aliases.pop((c.name, x.attr), None)
  T().visit(tree)
  ast.fix_missing_locations(tree)
  return n


def _inline_attrgetters(tree: ast.Module) -> int:
  """`_k = operator.attrgetter('a', 'b')` (a private module-level name, or a function local, bound once): `_k(x)` is
  `(x.a, x.b)` (`x.a` for one name) and a bare `_k` (e.g. `key=_k`) is `lambda v: (v.a, v.b)`.  Also the anonymous
  form `operator.attrgetter('a', 'b')` in argument position."""
  n = 0

  def getter_names(v: ast.AST) -> Optional[List[str]]:
    if isinstance(v, ast.Call) and _chain(v.func) in ('operator.attrgetter', 'attrgetter') and v.args and not v.keywords \
        and all(isinstance(a, ast.Constant) and isinstance(a.value, str) and all(p.isidentifier() for p in a.value.split('.'))
                for a in v.args):
      return [a.value for a in v.args]
    return None

  def access(x: ast.AST, names: List[str]) -> ast.AST:
    def one(nm: str) -> ast.AST:
      e: ast.AST = copy.deepcopy(x)
      for part in nm.split('.'):
        e = ast.Attribute(value=e, attr=part, ctx=ast.Load())
      return e
    return one(names[0]) if len(names) == 1 else ast.Tuple(elts=[one(nm) for nm in names], ctx=ast.Load())

  def as_lambda(names: List[str]) -> ast.AST:
    return ast.Lambda(args=ast.arguments(posonlyargs=[], args=[ast.arg(arg='v__ag')], kwonlyargs=[], kw_defaults=[], defaults=[]),
                      body=access(ast.Name(id='v__ag', ctx=ast.Load()), names))

  def rewrite(scope: ast.AST, bound: Dict[str, List[str]]) -> None:
    nonlocal n

    class R(ast.NodeTransformer):
      def visit_Call(self, c: ast.Call):
        nonlocal n
        if isinstance(c.func, ast.Name) and c.func.id in bound and len(c.args) == 1 and not c.keywords \
            and (_simple(c.args[0]) or _pure_expr(c.args[0])):
          c.args = [self.visit(c.args[0])]
          n += 1
          return ast.copy_location(access(c.args[0], bound[c.func.id]), c)
        gn = getter_names(c.func) if isinstance(c.func, ast.Call) else None
        if gn is not None and len(c.args) == 1 and not c.keywords and (_simple(c.args[0]) or _pure_expr(c.args[0])):
          n += 1
          return ast.copy_location(access(self.visit(c.args[0]), gn), c)
        self.generic_visit(c)
        return c

      def visit_Name(self, x: ast.Name):
        nonlocal n
        if isinstance(x.ctx, ast.Load) and x.id in bound:
          n += 1
          return ast.copy_location(as_lambda(bound[x.id]), x)
        return x

      def visit_keyword(self, k: ast.keyword):
        nonlocal n
        gn = getter_names(k.value)
        if gn is not None:
          n += 1
          k.value = ast.copy_location(as_lambda(gn), k.value)
          return k
        self.generic_visit(k)
        return k
    R().visit(scope)
    ast.fix_missing_locations(scope)

  def collect(stmts: List[ast.stmt], scope: ast.AST, private_only: bool) -> Dict[str, List[str]]:
    stores: Dict[str, int] = {}
    for x in ast.walk(scope):
      if isinstance(x, ast.Name) and isinstance(x.ctx, (ast.Store, ast.Del)):
        stores[x.id] = stores.get(x.id, 0) + 1
    bound: Dict[str, List[str]] = {}
    for st in list(stmts):
      if isinstance(st, ast.Assign) and len(st.targets) == 1 and isinstance(st.targets[0], ast.Name):
        nm = st.targets[0].id
        gn = getter_names(st.value)
        if gn is not None and stores.get(nm) == 1 and (not private_only or (nm.startswith('_') and not nm.startswith('__'))):
          bound[nm] = gn
          stmts.remove(st)
    return bound
  mod_bound = collect(tree.body, tree, True)
  rewrite(tree, mod_bound)   # with an empty table this still rewrites the anonymous forms
  for fn in [x for x in ast.walk(tree) if isinstance(x, ast.FunctionDef)]:
    b = collect(fn.body, fn, False)
    if b:
      if not fn.body:
        fn.body.append(ast.copy_location(ast.Pass(), fn))
      rewrite(fn, b)
  return n


def _wrapper_bindings_to_decorators(tree: ast.Module) -> int:
  """`def _f_impl(..): ...` + `_f = jax.jit(_f_impl, static_argnames=...)` at module level, `_f_impl` mentioned nowhere
  else, is the decorated definition `@functools.partial(jax.jit, static_argnames=...) def _f(..)`."""
  n = 0
  defs = {st.name: st for st in tree.body if isinstance(st, ast.FunctionDef)}
  for st in list(tree.body):
    if not (isinstance(st, ast.Assign) and len(st.targets) == 1 and isinstance(st.targets[0], ast.Name)
            and isinstance(st.value, ast.Call) and st.value.args and isinstance(st.value.args[0], ast.Name)):
      continue
    w = _chain(st.value.func) or ''
    f = st.value.args[0].id
    x = st.targets[0].id
    if not (w == 'jit' or w.endswith('.jit')) or len(st.value.args) != 1 or f not in defs or x in defs or not f.startswith('_'):
      continue
    mentions = [z for z in ast.walk(tree) if isinstance(z, ast.Name) and z.id == f]
    xstores = [z for z in ast.walk(tree) if isinstance(z, ast.Name) and z.id == x and isinstance(z.ctx, (ast.Store, ast.Del))]
    if len(mentions) != 1 or len(xstores) != 1:
      continue
    fn = defs[f]
    if st.value.keywords:
      dec: ast.AST = ast.Call(func=ast.Attribute(value=ast.Name(id='functools', ctx=ast.Load()), attr='partial', ctx=ast.Load()),
                              args=[st.value.func], keywords=list(st.value.keywords))
    else:
      dec = st.value.func
    ast.copy_location(dec, fn)
    ast.fix_missing_locations(dec)
    fn.decorator_list.append(dec)
    fn.name = x
    tree.body.remove(st)
    n += 1
  return n


def _fold_single_use_temps(fn: ast.FunctionDef) -> int:
  """`ret__h1 = E` / `hoisted__3 = E` (temporaries the inliner itself introduced) immediately followed by the one statement
  that reads the temporary once, outside any binder or loop test: E is put back where it is read."""
  n = 0
  uses: Dict[str, int] = {}
  for x in ast.walk(fn):
    if isinstance(x, ast.Name):
      uses[x.id] = uses.get(x.id, 0) + 1

  def do_block(stmts: List[ast.stmt]) -> None:
    nonlocal n
    i = 0
    while i < len(stmts):
      st = stmts[i]
      for fld in ('body', 'orelse', 'finalbody'):
        b = getattr(st, fld, None)
        if isinstance(b, list) and not isinstance(st, (ast.FunctionDef, ast.ClassDef)):
          do_block(b)
      if isinstance(st, ast.Try):
        for h in st.handlers:
          do_block(h.body)
      if i + 1 < len(stmts) and isinstance(st, ast.Assign) and len(st.targets) == 1 and isinstance(st.targets[0], ast.Name) \
          and re.match(r'^(ret__|hoisted__)', st.targets[0].id) and uses.get(st.targets[0].id) == 2:
        name = st.targets[0].id
        nxt = stmts[i + 1]
        # where may the single read sit?  the header expression of the next statement only
        if isinstance(nxt, ast.If):
          roots = [nxt.test]
        elif isinstance(nxt, (ast.Return, ast.Expr)) and nxt.value is not None:
          roots = [nxt.value]
        elif isinstance(nxt, ast.Assign):
          roots = [nxt.value]
        else:
          roots = []
        hit = None
        for r_ in roots:
          for x in ast.walk(r_):
            if isinstance(x, (ast.Lambda, ast.ListComp, ast.GeneratorExp, ast.SetComp, ast.DictComp)) and any(
                isinstance(y, ast.Name) and y.id == name for y in ast.walk(x)):
              hit = False
          if hit is None and any(isinstance(x, ast.Name) and x.id == name for x in ast.walk(r_)):
            hit = r_
        if hit:
          _SubstName(name, st.value).visit(nxt)
          ast.fix_missing_locations(nxt)
          del stmts[i]
          n += 1
          continue
      i += 1

  do_block(fn.body)
  return n


def _partial_methods_to_closures(tree: ast.Module) -> int:
  """`f = functools.partial(self._m, a, b)` in a method of the class that defines the private method `_m` (arguments simple,
  `_m` never re-binds the bound parameters) is the closure `def _m(<remaining parameters>): <body of _m with a, b in
  place>` followed by `f = _m`: the inverse of turning a loop-body closure into a method."""
  n = 0
  for c in [x for x in tree.body if isinstance(x, ast.ClassDef)]:
    meths = {m.name: m for m in c.body if isinstance(m, ast.FunctionDef) and not m.decorator_list}
    for fn in [m for m in c.body if isinstance(m, ast.FunctionDef)]:
      def do_block(stmts: List[ast.stmt]) -> None:
        nonlocal n
        i = 0
        while i < len(stmts):
          st = stmts[i]
          for fld in ('body', 'orelse', 'finalbody'):
            b = getattr(st, fld, None)
            if isinstance(b, list) and not isinstance(st, (ast.FunctionDef, ast.ClassDef)):
              do_block(b)
          i += 1
          if not (isinstance(st, ast.Assign) and len(st.targets) == 1 and isinstance(st.targets[0], ast.Name)
                  and isinstance(st.value, ast.Call) and (_chain(st.value.func) or '') in ('functools.partial', 'partial')
                  and st.value.args and not st.value.keywords):
            continue
          ref, args = st.value.args[0], st.value.args[1:]
          if not (isinstance(ref, ast.Attribute) and isinstance(ref.value, ast.Name) and ref.value.id == 'self'
                  and ref.attr in meths and ref.attr.startswith('_') and meths[ref.attr] is not fn):
            continue
          m = meths[ref.attr]
          a = m.args
          if a.vararg or a.kwarg or a.posonlyargs or a.kwonlyargs or a.defaults or not a.args or a.args[0].arg != 'self':
            continue
          params = [p.arg for p in a.args[1:]]
          if not (0 < len(args) < len(params)) or not all(_simple(x) for x in args) or not _suitable(m):
            continue
          assigned = _assigned_names(m)
          bound = params[:len(args)]
          if any(p in assigned for p in bound):
            continue
          # the arguments must denote the same objects when the closure runs: never re-bound in the enclosing method
          arg_roots = {(_chain(x) or '').split('.')[0] for x in args if not isinstance(x, ast.Constant)}
          if any(isinstance(z, ast.Name) and isinstance(z.ctx, (ast.Store, ast.Del)) and z.id in arg_roots
                 and getattr(z, 'lineno', 0) > st.lineno for z in ast.walk(fn)):
            continue
          if any(isinstance(z, (ast.For, ast.While)) and any(y is st for y in ast.walk(z)) for z in ast.walk(fn)):
            continue
          mapping = {p: x for p, x in zip(bound, args)}
          body = [_Subst(mapping, {}).visit(copy.deepcopy(b_)) for b_ in _strip_doc(m.body)]
          # `del <bound param>` statements lose their subject
          body = [b_ for b_ in body if not (isinstance(b_, ast.Delete) and all(not isinstance(t, ast.Name) for t in b_.targets))] or [ast.Pass()]
          inner = ast.FunctionDef(name=m.name, args=ast.arguments(posonlyargs=[], args=[ast.arg(arg=p) for p in params[len(args):]],
                                                                 kwonlyargs=[], kw_defaults=[], defaults=[]),
                                  body=body, decorator_list=[])
          alias = ast.Assign(targets=[ast.Name(id=st.targets[0].id, ctx=ast.Store())], value=ast.Name(id=m.name, ctx=ast.Load()))
          for o in (inner, alias):
            ast.copy_location(o, st)
            ast.fix_missing_locations(o)
          x_ = st.targets[0].id
          once = sum(1 for z in ast.walk(fn) if isinstance(z, ast.Name) and z.id == x_ and isinstance(z.ctx, (ast.Store, ast.Del))) == 1
          taken = any(isinstance(z, ast.Name) and z.id == m.name for z in ast.walk(fn))
          if once and not taken:
            # the local is just another name of the closure: read the closure directly
            for z in ast.walk(fn):
              if isinstance(z, ast.Name) and z.id == x_ and isinstance(z.ctx, ast.Load):
                z.id = m.name
            stmts[i - 1:i] = [inner]
          else:
            stmts[i - 1:i] = [inner, alias]
            i += 1
          n += 1
      do_block(fn.body)
  return n


def _reduce_to_loop(tree: ast.Module) -> int:
  """`return functools.reduce(lambda acc, x: BODY, ITER, INIT)` / `t = functools.reduce(...)` is the loop
  `acc = INIT; for x in ITER: acc = BODY; return acc` (INIT is evaluated after ITER by reduce's call; both must be
  simple).  When INIT is a plain local that is dead afterwards (the statement returns, or re-binds that very name) the
  local itself is the accumulator."""
  n = 0

  def rewrite(st: ast.stmt) -> Optional[List[ast.stmt]]:
    nonlocal n
    if isinstance(st, ast.Return) and isinstance(st.value, ast.Call):
      c, tgt = st.value, None
    elif isinstance(st, ast.Assign) and len(st.targets) == 1 and isinstance(st.targets[0], ast.Name) and isinstance(st.value, ast.Call):
      c, tgt = st.value, st.targets[0].id
    else:
      return None
    if not ((_chain(c.func) or '') in ('functools.reduce', 'reduce') and len(c.args) == 3 and not c.keywords
            and isinstance(c.args[0], ast.Lambda)):
      return None
    lam, it, init = c.args
    a = lam.args
    if len(a.args) != 2 or a.vararg or a.kwarg or a.kwonlyargs or a.defaults or a.posonlyargs:
      return None
    if not ((_simple(it) or (isinstance(it, ast.Subscript) and _simple(it.value))) and _simple(init)):
      return None
    accp, xp = a.args[0].arg, a.args[1].arg
    n += 1
    if isinstance(init, ast.Name) and (tgt is None or tgt == init.id):
      acc = init.id
      pre: List[ast.stmt] = []
    else:
      acc = f'acc__r{n}'
      pre = [ast.Assign(targets=[ast.Name(id=acc, ctx=ast.Store())], value=init)]
    xv = f'{xp}__r{n}' if xp == acc else xp
    class R(ast.NodeTransformer):
      def visit_Name(self, x: ast.Name):
        if isinstance(x.ctx, ast.Load) and x.id == accp:
          return ast.copy_location(ast.Name(id=acc, ctx=ast.Load()), x)
        if isinstance(x.ctx, ast.Load) and x.id == xp:
          return ast.copy_location(ast.Name(id=xv, ctx=ast.Load()), x)
        return x

      def visit_Lambda(self, x):
        return x
    body = R().visit(copy.deepcopy(lam.body))
    loop = ast.For(target=ast.Name(id=xv, ctx=ast.Store()), iter=it,
                   body=[ast.Assign(targets=[ast.Name(id=acc, ctx=ast.Store())], value=body)], orelse=[])
    post: List[ast.stmt] = []
    if tgt is None:
      post = [ast.Return(value=ast.Name(id=acc, ctx=ast.Load()))]
    elif tgt != acc:
      post = [ast.Assign(targets=[ast.Name(id=tgt, ctx=ast.Store())], value=ast.Name(id=acc, ctx=ast.Load()))]
    out = pre + [loop] + post
    for o in out:
      ast.copy_location(o, st)
      ast.fix_missing_locations(o)
    return out

  def do_block(stmts: List[ast.stmt]) -> None:
    i = 0
    while i < len(stmts):
      st = stmts[i]
      for fld in ('body', 'orelse', 'finalbody'):
        b = getattr(st, fld, None)
        if isinstance(b, list) and not isinstance(st, ast.ClassDef):
          do_block(b)
      if isinstance(st, ast.ClassDef):
        do_block(st.body)
      if isinstance(st, ast.Try):
        for h in st.handlers:
          do_block(h.body)
      r = rewrite(st)
      if r is not None:
        stmts[i:i + 1] = r
        i += len(r)
      else:
        i += 1
  do_block(tree.body)
  return n


def _map_to_genexp(tree: ast.Module) -> int:
  """`map(f, xs)` with one iterable and a plain function reference is `(f(x) for x in xs)`: written out so that a private
  helper passed to map() is seen (and inlined) like any other call of it."""
  n = 0
  mod_private = {st.name for st in tree.body if isinstance(st, ast.FunctionDef) and st.name.startswith('_')}

  class T(ast.NodeTransformer):
    def visit_Call(self, c: ast.Call):
      nonlocal n
      self.generic_visit(c)
      if isinstance(c.func, ast.Name) and c.func.id == 'map' and len(c.args) == 2 and not c.keywords \
          and ((isinstance(c.args[0], ast.Name) and c.args[0].id in mod_private) or
               (isinstance(c.args[0], ast.Attribute) and isinstance(c.args[0].value, ast.Name) and c.args[0].value.id in ('self', 'cls')
                and c.args[0].attr.startswith('_'))):
        n += 1
        v = f'mapped__m{n}'
        g = ast.GeneratorExp(elt=ast.Call(func=c.args[0], args=[ast.Name(id=v, ctx=ast.Load())], keywords=[]),
                             generators=[ast.comprehension(target=ast.Name(id=v, ctx=ast.Store()), iter=c.args[1], ifs=[], is_async=0)])
        ast.copy_location(g, c)
        ast.fix_missing_locations(g)
        return g
      return c
  T().visit(tree)
  return n


def _filter_loops_to_comprehensions(fn: ast.FunctionDef) -> int:
  """`A = []; B = []; for t in SRC: if c1: A.append(e1) elif c2: B.append(e2)` (pure conditions and elements, each
  list appended in one arm only and mentioned nowhere else in the loop) is the pair of comprehensions
  `A = [e1 for t in SRC if c1]; B = [e2 for t in SRC if not c1 and c2]`."""
  n = 0

  def arms_of(body: List[ast.stmt], conds: List[ast.AST]) -> Optional[List[Tuple[List[ast.AST], str, ast.AST]]]:
    """[(path conditions, list name, element)] or None when the body is not a pure append chain."""
    out = []
    for st in body:
      if isinstance(st, ast.If):
        if not _pure_expr(st.test):
          return None
        a = arms_of(st.body, conds + [st.test])
        if a is None:
          return None
        out += a
        if st.orelse:
          neg = ast.copy_location(ast.UnaryOp(op=ast.Not(), operand=st.test), st.test)
          b = arms_of(st.orelse, conds + [neg])
          if b is None:
            return None
          out += b
      elif isinstance(st, ast.Expr) and isinstance(st.value, ast.Call) and isinstance(st.value.func, ast.Attribute) \
          and st.value.func.attr == 'append' and isinstance(st.value.func.value, ast.Name) and len(st.value.args) == 1 \
          and not st.value.keywords and _pure_expr(st.value.args[0]):
        out.append((list(conds), st.value.func.value.id, st.value.args[0]))
      else:
        return None
    return out

  _NEG = {ast.Eq: ast.NotEq, ast.NotEq: ast.Eq, ast.In: ast.NotIn, ast.NotIn: ast.In, ast.Is: ast.IsNot, ast.IsNot: ast.Is}

  def push_not(c: ast.AST) -> ast.AST:
    """`not a != b` is `a == b` (single comparison of the (in)equality / membership / identity kind); `not not x` in a
    filter position is `x`."""
    if isinstance(c, ast.UnaryOp) and isinstance(c.op, ast.Not):
      o = c.operand
      if isinstance(o, ast.Compare) and len(o.ops) == 1 and type(o.ops[0]) in _NEG:
        return ast.copy_location(ast.Compare(left=o.left, ops=[_NEG[type(o.ops[0])]()], comparators=list(o.comparators)), o)
      if isinstance(o, ast.UnaryOp) and isinstance(o.op, ast.Not):
        return push_not(o.operand)
    return c

  def sink_continues(body: List[ast.stmt]) -> Optional[List[ast.stmt]]:
    """`if c: X; continue` + REST is `if c: X else: REST`; `if c: continue` + REST is `if not c: REST` (copies)."""
    for idx, s_ in enumerate(body):
      if isinstance(s_, ast.If) and s_.body and isinstance(s_.body[-1], ast.Continue) and not s_.orelse:
        rest = sink_continues(body[idx + 1:])
        if rest is None:
          return None
        head = s_.body[:-1]
        if any(isinstance(x, ast.Continue) for h in head for x in ast.walk(h)):
          return None
        if head:
          new_if = ast.If(test=s_.test, body=head, orelse=rest)
        elif rest:
          new_if = ast.If(test=ast.copy_location(ast.UnaryOp(op=ast.Not(), operand=s_.test), s_.test), body=rest, orelse=[])
        else:
          return list(body[:idx])
        ast.copy_location(new_if, s_)
        return list(body[:idx]) + [new_if]
      if any(isinstance(x, (ast.Continue, ast.Break)) for x in ast.walk(s_)):
        return None
    return list(body)

  def do_block(stmts: List[ast.stmt]) -> None:
    nonlocal n
    i = 0
    while i < len(stmts):
      st = stmts[i]
      for fld in ('body', 'orelse', 'finalbody'):
        b = getattr(st, fld, None)
        if isinstance(b, list) and not isinstance(st, (ast.FunctionDef, ast.ClassDef)):
          do_block(b)
      if isinstance(st, ast.Try):
        for h in st.handlers:
          do_block(h.body)
      if not (isinstance(st, ast.For) and not st.orelse
              and all(isinstance(x, ast.Name) for x in ([st.target] if isinstance(st.target, ast.Name) else getattr(st.target, 'elts', [None])))):
        i += 1
        continue
      hoisted_iter = None
      if not isinstance(st.iter, ast.Name):
        # the iterable is evaluated once, before the first element is looked at: bind it to a local first
        if any(isinstance(x, (ast.Yield, ast.YieldFrom, ast.Await, ast.NamedExpr)) for x in ast.walk(st.iter)):
          i += 1
          continue
        hoisted_iter = st.iter
      sunk = sink_continues(st.body)
      arms = arms_of(sunk, []) if sunk is not None else None
      if not arms:
        i += 1
        continue
      lists = [a[1] for a in arms]
      tnames = {x.id for x in ast.walk(st.target) if isinstance(x, ast.Name)}
      iter_names = {x.id for x in ast.walk(st.iter) if isinstance(x, ast.Name)}
      if len(set(lists)) != len(lists) or (iter_names & set(lists)) or (set(lists) & tnames):
        i += 1
        continue
      # each list: `L = []` earlier in this block, not mentioned between there and the loop, nor elsewhere in the loop
      inits = {}
      ok = True
      for L in lists:
        idx = next((j for j in range(i - 1, -1, -1) if isinstance(stmts[j], ast.Assign) and len(stmts[j].targets) == 1
                    and isinstance(stmts[j].targets[0], ast.Name) and stmts[j].targets[0].id == L), None)
        if idx is None or not (isinstance(stmts[idx].value, ast.List) and not stmts[idx].value.elts):
          ok = False
          break
        between = stmts[idx + 1:i]
        if any(isinstance(x, ast.Name) and x.id == L for b in between for x in ast.walk(b)):
          ok = False
          break
        mentions = sum(1 for x in ast.walk(st) if isinstance(x, ast.Name) and x.id == L)
        if mentions != 1:
          ok = False
          break
        inits[L] = idx
      # the iterated name must not be re-bound between the inits and the loop (it is read at the loop)
      if not ok:
        i += 1
        continue
      # loop variable read after the loop?  keep the loop then
      later = stmts[i + 1:]
      if any(isinstance(x, ast.Name) and x.id in tnames and isinstance(x.ctx, ast.Load) for b in later for x in ast.walk(b)):
        i += 1
        continue
      new = []
      iter_expr = st.iter
      if hoisted_iter is not None:
        _fl_counter[0] += 1
        nm = f'iterated__fl{_fl_counter[0]}'
        pre_ = ast.Assign(targets=[ast.Name(id=nm, ctx=ast.Store())], value=hoisted_iter, lineno=st.lineno)
        ast.copy_location(pre_, st)
        ast.fix_missing_locations(pre_)
        new.append(pre_)
        iter_expr = ast.copy_location(ast.Name(id=nm, ctx=ast.Load()), st)
      for conds, L, elt in arms:
        ifs = []
        if conds:
          flat: List[ast.AST] = []
          for c in conds:
            c = push_not(c)
            flat += list(c.values) if isinstance(c, ast.BoolOp) and isinstance(c.op, ast.And) else [c]
          test = flat[0] if len(flat) == 1 else ast.BoolOp(op=ast.And(), values=[copy.deepcopy(c) for c in flat])
          ifs = [copy.deepcopy(test)]
        comp = ast.ListComp(elt=copy.deepcopy(elt), generators=[ast.comprehension(
            target=copy.deepcopy(st.target), iter=copy.deepcopy(iter_expr), ifs=ifs, is_async=0)])
        a = ast.Assign(targets=[ast.Name(id=L, ctx=ast.Store())], value=comp, lineno=st.lineno)
        ast.copy_location(a, st)
        ast.copy_location(comp, st)
        ast.fix_missing_locations(a)
        new.append(a)
      for j in sorted(inits.values(), reverse=True):
        del stmts[j]
        i -= 1
      stmts[i:i + 1] = new
      i += len(new)
      n += 1

  do_block(fn.body)
  return n


# --------------------------------------------------------------------------- alias propagation
def _propagate_param_aliases(fn: ast.FunctionDef) -> int:
  """`x = <param>.<a>.<b>` at the top level of a function, x never re-bound, the parameter never re-bound:
  every later load of x is replaced by the attribute chain (hoisted request fields are put back)."""
  params = {a.arg for a in fn.args.args + fn.args.kwonlyargs} - {'self', 'cls'}
  if not params:
    return 0
  stores: Dict[str, int] = {}
  for x in ast.walk(fn):
    if isinstance(x, ast.Name) and isinstance(x.ctx, (ast.Store, ast.Del)):
      stores[x.id] = stores.get(x.id, 0) + 1
    elif isinstance(x, ast.arg) and x is not None:
      pass
  # nested functions/lambdas/comprehensions may shadow: be conservative and skip names bound there
  n = 0
  for i, st in enumerate(fn.body):
    if not (isinstance(st, ast.Assign) and len(st.targets) == 1 and isinstance(st.targets[0], ast.Name)):
      continue
    x = st.targets[0].id
    v = st.value
    root = v
    depth = 0
    while isinstance(root, ast.Attribute):
      root = root.value
      depth += 1
    if not (isinstance(root, ast.Name) and root.id in params and depth >= 1 and stores.get(x, 0) == 1 and stores.get(root.id, 0) == 0):
      continue
    if x in params:
      continue
    # only value-like aliases: the local is never the base of a store, a subscript or a method call
    objectish = False
    for y in ast.walk(fn):
      if isinstance(y, (ast.Attribute, ast.Subscript)):
        b = y.value
        if isinstance(b, ast.Name) and b.id == x:
          objectish = True
    if objectish:
      continue

    class R(ast.NodeTransformer):
      def visit_Name(self, node):
        if node.id == x and isinstance(node.ctx, ast.Load):
          nonlocal n
          n += 1
          return ast.copy_location(copy.deepcopy(v), node)
        return node
    for later in fn.body[i + 1:]:
      R().visit(later)
  return n


def normalise(tree: ast.Module, exclude: Optional[Set[str]] = None) -> int:
  """Inlines suitable private helpers in place; returns the number of inlined call sites."""
  ex = anchors() if exclude is None else exclude
  n_disp = _partial_methods_to_closures(tree) + _wrapper_bindings_to_decorators(tree) + _inline_attrgetters(tree) + _inline_enum_aliases(tree) + _suppress_to_try(tree) + _reduce_to_loop(tree) + _map_to_genexp(tree) + _expand_dispatch_tables(tree)
  inl = _Inliner(tree, ex)
  n = inl.run() + n_disp
  n += _unroll_literal_loops(tree)
  records = _record_classes(tree)
  for x in ast.walk(tree):
    if isinstance(x, ast.FunctionDef):
      if getattr(tree, '_vz_any_inlined', True):
        n += _fold_single_use_temps(x)
        n += _fold_constant_tests(x)
      n += _split_tuple_assigns(x, records)
      if records:
        n += _propagate_name_aliases(x)
        if _sroa_function(x, records):
          n += 1 + _propagate_name_aliases(x)
        n += _soa_record_lists(x, records)
      n += _propagate_condition_locals(x)
      n += _filter_loops_to_comprehensions(x)
  for x in ast.walk(tree):
    if isinstance(x, ast.FunctionDef):
      n += _propagate_param_aliases(x)
  tree._vz_inlined = dict(inl.names)  # type: ignore[attr-defined]
  return n
