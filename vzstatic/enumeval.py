"""Finite-domain evaluation of small dispatch functions: a parameter (or any subject expression) is bound to one enum
member / constant at a time and the if-chains are followed, so a mapping table can be read off without depending on
how the chain is spelled (if/elif/else, early returns, `in (A, B)`, De Morgan...)."""

from __future__ import annotations

import ast
from typing import Dict, List, Optional

from vzstatic.index import dotted
from vzstatic.source import unparse

UNKNOWN = object()


def _member(e: ast.AST):
  """Enum member name / python constant denoted by a comparator, else UNKNOWN."""
  if isinstance(e, ast.Constant):
    return e.value
  d = dotted(e)
  if d and '.' in d:
    return d.rsplit('.', 1)[-1]
  return UNKNOWN


def eval_test(t: ast.AST, binding: Dict[str, object]) -> Optional[bool]:
  """Three-valued evaluation of a test under `binding` (unparsed subject expression -> member name / constant)."""
  if isinstance(t, ast.Constant) and isinstance(t.value, bool):
    return t.value
  if isinstance(t, ast.UnaryOp) and isinstance(t.op, ast.Not):
    v = eval_test(t.operand, binding)
    return None if v is None else not v
  if isinstance(t, ast.BoolOp):
    vals = [eval_test(v, binding) for v in t.values]
    if isinstance(t.op, ast.And):
      if any(v is False for v in vals):
        return False
      return True if all(v is True for v in vals) else None
    if any(v is True for v in vals):
      return True
    return False if all(v is False for v in vals) else None
  key = unparse(t, 0)
  if key in binding and isinstance(binding[key], bool):
    return binding[key]
  if isinstance(t, ast.Compare) and len(t.ops) == 1:
    l, r, op = t.left, t.comparators[0], t.ops[0]
    lk, rk = unparse(l, 0), unparse(r, 0)
    if rk in binding and lk not in binding:
      l, r, lk, rk = r, l, rk, lk
      if isinstance(op, (ast.In, ast.NotIn)):
        return None
    if lk not in binding:
      return None
    val = binding[lk]
    if isinstance(op, (ast.Eq, ast.NotEq, ast.Is, ast.IsNot)):
      m = _member(r)
      if m is UNKNOWN:
        return None
      eq = (val == m) if not (m is None or val is None) else (val is m)
      return eq if isinstance(op, (ast.Eq, ast.Is)) else not eq
    if isinstance(op, (ast.In, ast.NotIn)) and isinstance(r, (ast.Tuple, ast.List, ast.Set)):
      ms = [_member(x) for x in r.elts]
      if any(m is UNKNOWN for m in ms):
        return None
      inn = any((val == m) if not (m is None or val is None) else (val is m) for m in ms)
      return inn if isinstance(op, ast.In) else not inn
  return None


def run_function(stmts: List[ast.stmt], binding: Dict[str, object]):
  """Follows the statements under `binding`; returns the first `return` value node reached, 'raise', or UNKNOWN."""
  for st in stmts:
    if isinstance(st, ast.Return):
      return st.value
    if isinstance(st, ast.Raise):
      return 'raise'
    if isinstance(st, ast.If):
      v = eval_test(st.test, binding)
      if v is None:
        return UNKNOWN
      r = run_function(st.body if v else st.orelse, binding)
      if r is not None:
        return r
      continue
    if isinstance(st, (ast.Expr, ast.Pass, ast.Assign, ast.AnnAssign, ast.AugAssign)):
      continue
    return UNKNOWN
  return None


def trace(stmts: List[ast.stmt], test_eval) -> Optional[List[ast.stmt]]:
  """Simple statements executed when every `if` test is decided by test_eval(test) -> True/False/None.
  Returns None when a test cannot be decided or an unsupported statement is met; stops at return/raise."""
  out: List[ast.stmt] = []

  def go(block) -> Optional[bool]:  # True: stop (returned), False: fell through, None: undecidable
    for st in block:
      if isinstance(st, (ast.Return, ast.Raise)):
        out.append(st)
        return True
      if isinstance(st, ast.If):
        v = test_eval(st.test)
        if v is None:
          return None
        r = go(st.body if v else st.orelse)
        if r is None or r is True:
          return r
        continue
      if isinstance(st, (ast.Expr, ast.Assign, ast.AnnAssign, ast.AugAssign, ast.Pass)):
        out.append(st)
        continue
      if isinstance(st, ast.Try):
        # the non-exceptional run: body, then else, then finally
        for blk in (st.body, st.orelse, st.finalbody):
          r = go(blk)
          if r is None or r is True:
            return r
        continue
      if isinstance(st, ast.With):
        r = go(st.body)
        if r is None or r is True:
          return r
        continue
      return None
    return False
  r = go(stmts)
  return None if r is None else out


def value_of(e, binding: Dict[str, object], tables: Dict[str, ast.AST], depth: int = 0):
  """Member name denoted by the result expression `e` of a dispatch function under `binding`: follows
  `TABLE[key]`, `TABLE.get(key, default)` (TABLE a module-level dict literal), conditional expressions and
  bool(<bound name>).  Returns a member name / constant, or UNKNOWN."""
  if depth > 6 or not isinstance(e, ast.AST):
    return UNKNOWN
  k = unparse(e, 0)
  if k in binding:
    return binding[k]
  if isinstance(e, ast.Constant):
    return e.value
  if isinstance(e, ast.Call) and isinstance(e.func, ast.Name) and e.func.id == 'bool' and len(e.args) == 1:
    v = value_of(e.args[0], binding, tables, depth + 1)
    return UNKNOWN if v is UNKNOWN else bool(v)
  if isinstance(e, ast.IfExp):
    t = eval_test(e.test, binding)
    if t is None:
      return UNKNOWN
    return value_of(e.body if t else e.orelse, binding, tables, depth + 1)
  table = key = default = None
  has_default = False
  if isinstance(e, ast.Subscript):
    table, key = e.value, e.slice
  elif isinstance(e, ast.Call) and isinstance(e.func, ast.Attribute) and e.func.attr == 'get' and 1 <= len(e.args) <= 2:
    table, key = e.func.value, e.args[0]
    has_default = True
    default = e.args[1] if len(e.args) == 2 else ast.Constant(value=None)
  if table is not None:
    tname = dotted(table)
    t = tables.get(tname or '')
    if isinstance(t, ast.Dict):
      kv = value_of(key, binding, tables, depth + 1)
      if kv is UNKNOWN:
        return UNKNOWN
      for dk, dv in zip(t.keys, t.values):
        if dk is not None and _member(dk) == kv and _member(dk) is not UNKNOWN:
          return value_of(dv, binding, tables, depth + 1)
      return value_of(default, binding, tables, depth + 1) if has_default else 'raise'
    return UNKNOWN
  m = _member(e)
  return m
