"""CLI: python -m vzstatic check C01 [--tier quick|thorough]
        python -m vzstatic selftest [C01 ...]
        python -m vzstatic explain <replay.json>
"""

from __future__ import annotations

import argparse
import importlib
import json
import os
import sys
import traceback

from vzstatic import report
from vzstatic.source import AnalysisError


def run_check(prop: str, tier: str, overlay=None, quiet: bool = False):
  """Runs the rules of one property; returns the Ctx (no output)."""
  from vzstatic.source import Source
  mod = importlib.import_module(f'vzstatic.rules.{prop}')
  ctx = report.Ctx(prop, tier, Source(overlay=overlay))
  try:
    mod.run(ctx)
  except AnalysisError as e:
    # a rule gave up: what the rules before it established stands (violations are reported as such); without any
    # violation the check ends as analysis-broken (finish() / vacuity() raise the deferred error), never as a pass
    if not any(not o.ok and not o.info_only for o in ctx.obligations):
      raise
    ctx.deferred_error = str(e)
  return ctx


def cmd_check(args) -> int:
  prop = args.property
  tier = args.tier or os.environ.get('VERIF_TIER') or 'quick'
  if tier not in ('quick', 'thorough'):
    tier = 'quick'
  try:
    ctx = run_check(prop, tier)
    st = None
    if tier == 'thorough':
      from vzstatic import selftest
      st = selftest.run_for(prop, jobs=args.jobs)
      for m in st.get('missed', []):
        print(f'SELFTEST-MISS property={prop} variant={m}')
      for m in st.get('false_alarms', []):
        print(f'SELFTEST-FALSE-ALARM property={prop} variant={m}')
    return report.finish(ctx, st)
  except AnalysisError as e:
    print(f'ANALYSIS-ERROR property={prop} {e}')
    return 2
  except Exception as e:  # internal error: never a violation
    traceback.print_exc()
    print(f'ANALYSIS-ERROR property={prop} internal error: {type(e).__name__}: {e}')
    return 2


def cmd_selftest(args) -> int:
  from vzstatic import selftest
  props = args.properties or selftest.all_props()
  rc = 0
  for p in props:
    st = selftest.run_for(p, jobs=args.jobs, verbose=args.verbose)
    print(f"{p}: variants={st['variants']} killed={st['killed']} "
          f"benign={st['benign']} silent_on_benign={st['silent_on_benign']} "
          f"skipped={len(st['skipped'])}")
    for m in st['missed']:
      print(f'  MISSED {m}')
      rc = 1
    for m in st['false_alarms']:
      print(f'  FALSE-ALARM {m}')
      rc = 1
    for m in st['skipped']:
      print(f'  skipped {m}')
  return rc


def cmd_explain(args) -> int:
  with open(args.path) as f:
    d = json.load(f)
  print(f"property {d['property']} rule {d['rule']}: {d.get('rule_text', '')}")
  print(f"instance: {d['instance']}")
  print(f"where:    {d['where']}")
  print(f"detail:   {d['detail']}")
  print(f"key:      {d.get('key')}")
  for p in d.get('path') or []:
    print(f'  via {p}')
  print('re-run: /venv/bin/python -m vzstatic check', d['property'])
  return 0


def main(argv=None) -> int:
  ap = argparse.ArgumentParser(prog='vzstatic')
  sub = ap.add_subparsers(dest='cmd', required=True)
  c = sub.add_parser('check')
  c.add_argument('property')
  c.add_argument('--tier', default=None)
  c.add_argument('--jobs', type=int, default=16)
  c.set_defaults(fn=cmd_check)
  s = sub.add_parser('selftest')
  s.add_argument('properties', nargs='*')
  s.add_argument('--jobs', type=int, default=16)
  s.add_argument('--verbose', action='store_true')
  s.set_defaults(fn=cmd_selftest)
  e = sub.add_parser('explain')
  e.add_argument('path')
  e.set_defaults(fn=cmd_explain)
  args = ap.parse_args(argv)
  return args.fn(args)


if __name__ == '__main__':
  sys.exit(main())
