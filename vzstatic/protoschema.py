"""Parser for the proto3 subset used by vizier's five .proto files.

Hand-written tokenizer + recursive descent.  Produces a small schema model:
messages (with nested messages/enums, fields, oneofs), enums, services.
Options are skipped structurally (balanced brackets/braces).
"""

from __future__ import annotations

import dataclasses
import re
from typing import Dict, List, Optional, Tuple

from vzstatic.source import AnalysisError, Source

PROTO_DIR = 'vizier/_src/service'
PROTO_FILES = ['key_value.proto', 'study.proto', 'vizier_oss.proto',
               'vizier_service.proto', 'pythia_service.proto']

SCALARS = {'double', 'float', 'int32', 'int64', 'uint32', 'uint64', 'sint32',
           'sint64', 'fixed32', 'fixed64', 'sfixed32', 'sfixed64', 'bool',
           'string', 'bytes'}


@dataclasses.dataclass
class Field:
  name: str
  type: str  # scalar name or fully-qualified message/enum name
  number: int
  repeated: bool = False
  optional: bool = False
  oneof: Optional[str] = None
  raw_type: str = ''


@dataclasses.dataclass
class Enum:
  full_name: str
  values: Dict[str, int]


@dataclasses.dataclass
class Message:
  full_name: str
  fields: Dict[str, Field] = dataclasses.field(default_factory=dict)
  oneofs: Dict[str, List[str]] = dataclasses.field(default_factory=dict)
  nested: Dict[str, 'Message'] = dataclasses.field(default_factory=dict)
  enums: Dict[str, Enum] = dataclasses.field(default_factory=dict)
  file: str = ''


@dataclasses.dataclass
class Rpc:
  name: str
  request: str
  response: str


@dataclasses.dataclass
class Service:
  name: str
  rpcs: Dict[str, Rpc]
  file: str = ''


# Well-known / imported types the converters touch.
WELL_KNOWN: Dict[str, Message] = {}


def _wk(full, fields, oneofs=None):
  m = Message(full_name=full, file='<well-known>')
  for i, (n, t, rep) in enumerate(fields):
    m.fields[n] = Field(n, t, i + 1, repeated=rep, raw_type=t)
  for k, v in (oneofs or {}).items():
    m.oneofs[k] = v
    for f in v:
      m.fields[f].oneof = k
  WELL_KNOWN[full] = m


_wk('google.protobuf.Timestamp', [('seconds', 'int64', False), ('nanos', 'int32', False)])
_wk('google.protobuf.Duration', [('seconds', 'int64', False), ('nanos', 'int32', False)])
_wk('google.protobuf.DoubleValue', [('value', 'double', False)])
_wk('google.protobuf.Int64Value', [('value', 'int64', False)])
_wk('google.protobuf.StringValue', [('value', 'string', False)])
_wk('google.protobuf.Any', [('type_url', 'string', False), ('value', 'bytes', False)])
_wk('google.protobuf.Empty', [])
_wk('google.protobuf.Value',
    [('null_value', 'google.protobuf.NullValue', False), ('number_value', 'double', False),
     ('string_value', 'string', False), ('bool_value', 'bool', False),
     ('struct_value', 'google.protobuf.Struct', False),
     ('list_value', 'google.protobuf.ListValue', False)],
    {'kind': ['null_value', 'number_value', 'string_value', 'bool_value',
              'struct_value', 'list_value']})
_wk('google.protobuf.Struct', [])
_wk('google.protobuf.ListValue', [('values', 'google.protobuf.Value', True)])
_wk('google.rpc.Status', [('code', 'int32', False), ('message', 'string', False),
                          ('details', 'google.protobuf.Any', True)])
_wk('google.longrunning.Operation',
    [('name', 'string', False), ('metadata', 'google.protobuf.Any', False),
     ('done', 'bool', False), ('error', 'google.rpc.Status', False),
     ('response', 'google.protobuf.Any', False)],
    {'result': ['error', 'response']})
_wk('google.longrunning.GetOperationRequest', [('name', 'string', False)])

WRAPPER_TYPES = {'google.protobuf.DoubleValue', 'google.protobuf.Int64Value',
                 'google.protobuf.StringValue', 'google.protobuf.BoolValue',
                 'google.protobuf.FloatValue', 'google.protobuf.Int32Value'}

_TOKEN = re.compile(r'''
    \s+ | //[^\n]* | /\*.*?\*/
  | (?P<str>"(?:\\.|[^"\\])*"|'(?:\\.|[^'\\])*')
  | (?P<id>[A-Za-z_][A-Za-z0-9_.]*)
  | (?P<num>-?[0-9][0-9a-fA-FxX.+-]*)
  | (?P<sym>[{}\[\]()<>=;,:.-])
''', re.X | re.S)


def tokenize(text: str) -> List[Tuple[str, str]]:
  out = []
  pos = 0
  while pos < len(text):
    m = _TOKEN.match(text, pos)
    if not m:
      raise AnalysisError(f'proto tokenizer stuck at {text[pos:pos + 30]!r}')
    pos = m.end()
    for kind in ('str', 'id', 'num', 'sym'):
      v = m.group(kind)
      if v is not None:
        out.append((kind, v))
        break
  return out


class _Parser:

  def __init__(self, toks, file):
    self.t = toks
    self.i = 0
    self.file = file
    self.package = ''
    self.messages: Dict[str, Message] = {}
    self.enums: Dict[str, Enum] = {}
    self.services: Dict[str, Service] = {}
    self.imports: List[str] = []

  def peek(self):
    return self.t[self.i] if self.i < len(self.t) else ('eof', '')

  def next(self):
    tok = self.peek()
    self.i += 1
    return tok

  def expect(self, val):
    k, v = self.next()
    if v != val:
      raise AnalysisError(f'{self.file}: expected {val!r}, got {v!r}')

  def skip_balanced(self, open_, close):
    depth = 0
    while True:
      k, v = self.next()
      if k == 'eof':
        raise AnalysisError(f'{self.file}: unbalanced {open_}')
      if v == open_:
        depth += 1
      elif v == close:
        depth -= 1
        if depth == 0:
          return

  def skip_statement(self):
    """Skips up to and including the terminating ';' (balanced)."""
    while True:
      k, v = self.peek()
      if k == 'eof':
        return
      if v == '{':
        self.skip_balanced('{', '}')
        continue
      if v == '[':
        self.skip_balanced('[', ']')
        continue
      self.next()
      if v == ';':
        return

  def parse(self):
    while self.peek()[0] != 'eof':
      k, v = self.next()
      if v == 'syntax':
        self.skip_statement()
      elif v == 'package':
        self.package = self.next()[1]
        self.expect(';')
      elif v == 'import':
        k2, v2 = self.next()
        if v2 in ('public', 'weak'):
          k2, v2 = self.next()
        self.imports.append(v2.strip('"\''))
        self.expect(';')
      elif v == 'option':
        self.skip_statement()
      elif v == 'message':
        m = self.message(self.package)
        self.messages[m.full_name] = m
      elif v == 'enum':
        e = self.enum(self.package)
        self.enums[e.full_name] = e
      elif v == 'service':
        s = self.service()
        self.services[s.name] = s
      elif v == ';':
        continue
      else:
        raise AnalysisError(f'{self.file}: unexpected top-level token {v!r}')

  def enum(self, scope) -> Enum:
    name = self.next()[1]
    self.expect('{')
    values = {}
    while self.peek()[1] != '}':
      k, v = self.next()
      if v in ('option', 'reserved'):
        self.skip_statement()
        continue
      if v == ';':
        continue
      self.expect('=')
      num = int(self.next()[1], 0)
      values[v] = num
      if self.peek()[1] == '[':
        self.skip_balanced('[', ']')
      self.expect(';')
    self.expect('}')
    return Enum(f'{scope}.{name}', values)

  def message(self, scope) -> Message:
    name = self.next()[1]
    full = f'{scope}.{name}'
    m = Message(full_name=full, file=self.file)
    self.expect('{')
    while self.peek()[1] != '}':
      k, v = self.peek()
      if v == 'message':
        self.next()
        sub = self.message(full)
        m.nested[sub.full_name.rsplit('.', 1)[1]] = sub
      elif v == 'enum':
        self.next()
        e = self.enum(full)
        m.enums[e.full_name.rsplit('.', 1)[1]] = e
      elif v in ('option', 'reserved', 'extensions'):
        self.next()
        self.skip_statement()
      elif v == 'oneof':
        self.next()
        oname = self.next()[1]
        self.expect('{')
        members = []
        while self.peek()[1] != '}':
          if self.peek()[1] == 'option':
            self.next()
            self.skip_statement()
            continue
          f = self.field(oneof=oname)
          m.fields[f.name] = f
          members.append(f.name)
        self.expect('}')
        m.oneofs[oname] = members
      elif v == ';':
        self.next()
      else:
        f = self.field()
        m.fields[f.name] = f
    self.expect('}')
    return m

  def field(self, oneof=None) -> Field:
    repeated = optional = False
    k, v = self.next()
    if v == 'repeated':
      repeated = True
      k, v = self.next()
    elif v == 'optional':
      optional = True
      k, v = self.next()
    if v == 'map':
      raise AnalysisError(f'{self.file}: map fields are not modelled')
    ftype = v
    fname = self.next()[1]
    self.expect('=')
    num = int(self.next()[1], 0)
    if self.peek()[1] == '[':
      self.skip_balanced('[', ']')
    self.expect(';')
    return Field(fname, ftype, num, repeated, optional, oneof, raw_type=ftype)

  def service(self) -> Service:
    name = self.next()[1]
    self.expect('{')
    rpcs = {}
    while self.peek()[1] != '}':
      k, v = self.next()
      if v == 'option':
        self.skip_statement()
        continue
      if v == ';':
        continue
      if v != 'rpc':
        raise AnalysisError(f'{self.file}: unexpected token in service: {v!r}')
      rname = self.next()[1]
      self.expect('(')
      if self.peek()[1] == 'stream':
        self.next()
      req = self.next()[1]
      self.expect(')')
      self.expect('returns')
      self.expect('(')
      if self.peek()[1] == 'stream':
        self.next()
      resp = self.next()[1]
      self.expect(')')
      if self.peek()[1] == '{':
        self.skip_balanced('{', '}')
      else:
        self.expect(';')
      rpcs[rname] = Rpc(rname, req, resp)
    self.expect('}')
    return Service(name, rpcs, self.file)


class Schema:
  """All messages / enums / services of the repository's .proto files."""

  def __init__(self, src: Source):
    self.messages: Dict[str, Message] = dict(WELL_KNOWN)
    self.enums: Dict[str, Enum] = {}
    self.services: Dict[str, Service] = {}
    self.files: Dict[str, _Parser] = {}
    for fn in PROTO_FILES:
      rel = f'{PROTO_DIR}/{fn}'
      p = _Parser(tokenize(src.read(rel)), rel)
      p.parse()
      self.files[fn] = p
      for m in p.messages.values():
        self._register(m)
      self.enums.update(p.enums)
      self.services.update(p.services)
    # resolve field types to full names
    for m in list(self.messages.values()):
      if m.file == '<well-known>':
        continue
      for f in m.fields.values():
        f.type = self._resolve_type(m.full_name, f.raw_type)

  def _register(self, m: Message) -> None:
    self.messages[m.full_name] = m
    for e in m.enums.values():
      self.enums[e.full_name] = e
    for s in m.nested.values():
      self._register(s)

  def _resolve_type(self, scope: str, t: str) -> str:
    if t in SCALARS:
      return t
    if t.startswith('.'):
      return t[1:]
    if t.startswith('google.'):
      return t
    parts = scope.split('.')
    for i in range(len(parts), 0, -1):
      cand = '.'.join(parts[:i] + [t])
      if cand in self.messages or cand in self.enums:
        return cand
    raise AnalysisError(f'proto type {t} (in {scope}) cannot be resolved')

  def message(self, full: str) -> Optional[Message]:
    return self.messages.get(full)

  def field_type(self, msg: str, field: str) -> Optional[Field]:
    m = self.messages.get(msg)
    if m is None:
      return None
    return m.fields.get(field)

  def is_message(self, t: str) -> bool:
    return t in self.messages

  def is_enum(self, t: str) -> bool:
    return t in self.enums

  def py_name_to_full(self, pb2_module: str, dotted_name: str) -> Optional[str]:
    """study_pb2 + 'StudySpec.ParameterSpec' -> 'vizier.StudySpec.ParameterSpec'."""
    ext = {
        'timestamp_pb2': 'google.protobuf', 'duration_pb2': 'google.protobuf',
        'wrappers_pb2': 'google.protobuf', 'struct_pb2': 'google.protobuf',
        'any_pb2': 'google.protobuf', 'empty_pb2': 'google.protobuf',
        'operations_pb2': 'google.longrunning', 'status_pb2': 'google.rpc',
    }
    if pb2_module in ext:
      full = f'{ext[pb2_module]}.{dotted_name}'
    else:
      full = f'vizier.{dotted_name}'
    if full in self.messages or full in self.enums:
      return full
    return None
