"""Per-function control-flow graph with exception edges.

One node per simple statement, branch condition, loop header, `with` header
and exception handler entry.  Raising events are supplied by a *raise model*
(rule-specific: which calls may raise which classes) and routed to the
innermost matching `except` clause(s) using the exception lattice, or to the
exceptional exit.

Statement kinds handled: the complete set used by the repository (Assign,
AnnAssign, AugAssign, Expr, Return, If, For, While, Raise, With, Try, Pass,
Assert, Delete, Continue, Break, Global, Nonlocal, Import*, nested defs).
`match`, `async` and `try*` do not occur; meeting one is an AnalysisError.
"""

from __future__ import annotations

import ast
from typing import Callable, Dict, Iterable, List, Optional, Sequence, Set, Tuple

from vzstatic.source import AnalysisError


class Node:
  __slots__ = ('id', 'kind', 'ast', 'succs', 'preds', 'withs', 'trys', 'loops',
               'label')

  def __init__(self, nid: int, kind: str, node: Optional[ast.AST]):
    self.id = nid
    self.kind = kind  # entry exit raise stmt test for with handler
    self.ast = node
    self.succs: List[Tuple['Node', object]] = []
    self.preds: List[Tuple['Node', object]] = []
    self.withs: Tuple[ast.expr, ...] = ()
    self.trys: Tuple[Tuple[ast.Try, str], ...] = ()
    self.loops: Tuple[ast.AST, ...] = ()
    self.label = ''

  @property
  def lineno(self) -> int:
    return getattr(self.ast, 'lineno', 0)

  def __repr__(self):
    if self.ast is None:
      return f'<{self.kind}>'
    try:
      if self.kind == 'test':
        txt = ast.unparse(self.ast)
      elif self.kind == 'for':
        txt = f'for {ast.unparse(self.ast.target)} in {ast.unparse(self.ast.iter)}'
      elif self.kind == 'with':
        txt = 'with ' + ', '.join(ast.unparse(i.context_expr) for i in self.ast.items)
      elif self.kind == 'handler':
        txt = 'except ' + (ast.unparse(self.ast.type) if self.ast.type else '')
      else:
        txt = ast.unparse(self.ast)
    except Exception:  # pragma: no cover
      txt = type(self.ast).__name__
    txt = ' '.join(txt.split())
    if len(txt) > 90:
      txt = txt[:87] + '...'
    return f'<{self.kind}@{self.lineno} {txt}>'


RaiseModel = Callable[[Node], Iterable[str]]


def default_raise_model(node: Node) -> Iterable[str]:
  """Only explicit `raise` statements raise ('*' when the class is unknown)."""
  if node.kind == 'stmt' and isinstance(node.ast, ast.Raise):
    return ['*raise*']
  return []


class CFG:
  """Control-flow graph of one function body (or any statement list)."""

  def __init__(self, func: ast.AST, body: Optional[Sequence[ast.stmt]] = None):
    self.func = func
    self.nodes: List[Node] = []
    self.entry = self._new('entry', None)
    self.exit = self._new('exit', None)
    self.raise_exit = self._new('raise', None)
    self._loops: List[Tuple[ast.AST, List, List]] = []
    self._withs: List[ast.expr] = []
    self._trys: List[Tuple[ast.Try, str]] = []
    self.by_ast: Dict[int, Node] = {}
    if body is None:
      body = func.body if not isinstance(func, ast.Lambda) else [ast.Return(value=func.body)]
    frontier = self._seq(body, [(self.entry, None)])
    for n, lab in frontier:
      self._edge(n, self.exit, lab)
    self._exc_done = False

  # -------------------------------------------------------------- building
  def _new(self, kind: str, node: Optional[ast.AST]) -> Node:
    n = Node(len(self.nodes), kind, node)
    self.nodes.append(n)
    return n

  def _mk(self, kind: str, node: ast.AST) -> Node:
    n = self._new(kind, node)
    n.withs = tuple(self._withs)
    n.trys = tuple(self._trys)
    n.loops = tuple(l[0] for l in self._loops)
    self.by_ast[id(node)] = n
    return n

  @staticmethod
  def _edge(a: Node, b: Node, label=None) -> None:
    a.succs.append((b, label))
    b.preds.append((a, label))

  def _join(self, frontier, node: Node) -> None:
    for n, lab in frontier:
      self._edge(n, node, lab)

  def _seq(self, stmts: Sequence[ast.stmt], frontier):
    for st in stmts:
      frontier = self._stmt(st, frontier)
    return frontier

  def _stmt(self, st: ast.stmt, frontier):
    if isinstance(st, (ast.Assign, ast.AnnAssign, ast.AugAssign, ast.Expr,
                       ast.Pass, ast.Assert, ast.Delete, ast.Global,
                       ast.Nonlocal, ast.Import, ast.ImportFrom,
                       ast.FunctionDef, ast.ClassDef)):
      n = self._mk('stmt', st)
      self._join(frontier, n)
      return [(n, None)]
    if isinstance(st, ast.Return):
      n = self._mk('stmt', st)
      self._join(frontier, n)
      self._edge(n, self.exit, 'return')
      return []
    if isinstance(st, ast.Raise):
      n = self._mk('stmt', st)
      self._join(frontier, n)
      return []
    if isinstance(st, ast.If):
      t = self._mk('test', st.test)
      self._join(frontier, t)
      out = self._seq(st.body, [(t, 'T')])
      out += self._seq(st.orelse, [(t, 'F')])
      return out
    if isinstance(st, ast.While):
      t = self._mk('test', st.test)
      self._join(frontier, t)
      brk: List = []
      cont: List = []
      self._loops.append((st, brk, cont))
      body_out = self._seq(st.body, [(t, 'T')])
      self._loops.pop()
      for n, lab in body_out + cont:
        self._edge(n, t, lab)
      out = self._seq(st.orelse, [(t, 'F')])
      return out + brk
    if isinstance(st, ast.For):
      h = self._mk('for', st)
      self._join(frontier, h)
      brk = []
      cont = []
      self._loops.append((st, brk, cont))
      body_out = self._seq(st.body, [(h, 'T')])
      self._loops.pop()
      for n, lab in body_out + cont:
        self._edge(n, h, lab)
      out = self._seq(st.orelse, [(h, 'F')])
      return out + brk
    if isinstance(st, ast.Break):
      n = self._mk('stmt', st)
      self._join(frontier, n)
      if not self._loops:
        raise AnalysisError('break outside loop')
      self._loops[-1][1].append((n, None))
      return []
    if isinstance(st, ast.Continue):
      n = self._mk('stmt', st)
      self._join(frontier, n)
      if not self._loops:
        raise AnalysisError('continue outside loop')
      self._loops[-1][2].append((n, None))
      return []
    if isinstance(st, ast.With):
      w = self._mk('with', st)
      self._join(frontier, w)
      for item in st.items:
        self._withs.append(item.context_expr)
      out = self._seq(st.body, [(w, None)])
      for _ in st.items:
        self._withs.pop()
      return out
    if isinstance(st, ast.Try):
      self._trys.append((st, 'body'))
      out = self._seq(st.body, frontier)
      self._trys.pop()
      if st.orelse:
        self._trys.append((st, 'orelse'))
        out = self._seq(st.orelse, out)
        self._trys.pop()
      for h in st.handlers:
        self._trys.append((st, 'handler'))
        hn = self._mk('handler', h)
        out += self._seq(h.body, [(hn, None)])
        self._trys.pop()
      if st.finalbody:
        self._trys.append((st, 'final'))
        out = self._seq(st.finalbody, out)
        self._trys.pop()
      return out
    raise AnalysisError(
        f'unsupported statement kind {type(st).__name__} at line {getattr(st, "lineno", 0)}')

  # ------------------------------------------------------- exception edges
  def add_exception_edges(self, raise_model: RaiseModel, catches) -> None:
    """Routes raising events.

    raise_model(node) -> iterable of exception class names ('*' = any
    Exception subclass, '*raise*' = explicit raise statement whose class the
    caller resolves itself through `catches`).
    catches(handler: ast.ExceptHandler, exc: str, node: Node) -> 'all'|'may'|'no'
    """
    if self._exc_done:
      raise AnalysisError('exception edges already added')
    self._exc_done = True
    for n in list(self.nodes):
      if n.kind in ('entry', 'exit', 'raise'):
        continue
      for exc in raise_model(n):
        self._route(n, exc, catches)

  def _route(self, n: Node, exc: str, catches) -> None:
    for tr, part in reversed(n.trys):
      if part != 'body':
        continue
      for h in tr.handlers:
        verdict = catches(h, exc, n)
        if verdict == 'no':
          continue
        hn = self.by_ast[id(h)]
        self._edge(n, hn, ('exc', exc))
        if verdict == 'all':
          return
    self._edge(n, self.raise_exit, ('exc', exc))

  # ----------------------------------------------------------------- query
  def node_of(self, a: ast.AST) -> Optional[Node]:
    """CFG node that evaluates AST node `a` (the innermost enclosing one)."""
    from vzstatic.source import parent
    cur = a
    while cur is not None:
      n = self.by_ast.get(id(cur))
      if n is not None:
        if n.kind == 'for' and cur is not a:
          # inside the For statement but which part?
          st = n.ast
          if _contains(st.iter, a) or _contains(st.target, a):
            return n
          cur = parent(cur)
          continue
        if n.kind == 'with' and cur is not a:
          if any(_contains(i.context_expr, a) or
                 (i.optional_vars is not None and _contains(i.optional_vars, a))
                 for i in n.ast.items):
            return n
          cur = parent(cur)
          continue
        if n.kind == 'handler' and cur is not a:
          if n.ast.type is not None and _contains(n.ast.type, a):
            return n
          cur = parent(cur)
          continue
        return n
      cur = parent(cur)
    return None

  def reachable(self, starts: Iterable[Node], blocked: Iterable[Node] = (),
                follow: Optional[Callable[[Node, Node, object], bool]] = None,
                include_starts: bool = False) -> Set[Node]:
    """Nodes reachable from `starts` without entering a blocked node."""
    blocked_ids = {b.id for b in blocked}
    seen: Set[int] = set()
    out: Set[Node] = set()
    stack = []
    for s in starts:
      if include_starts and s.id not in blocked_ids:
        out.add(s)
        seen.add(s.id)
      stack.append(s)
    visited_src: Set[int] = set()
    while stack:
      n = stack.pop()
      if n.id in visited_src:
        continue
      visited_src.add(n.id)
      for m, lab in n.succs:
        if m.id in blocked_ids:
          continue
        if follow is not None and not follow(n, m, lab):
          continue
        if m.id not in seen:
          seen.add(m.id)
          out.add(m)
        if m.id not in visited_src:
          stack.append(m)
    return out

  def path(self, start: Node, goal: Node, blocked: Iterable[Node] = (),
           follow=None) -> Optional[List[Node]]:
    """A shortest path start -> goal avoiding blocked nodes (for reports)."""
    blocked_ids = {b.id for b in blocked}
    prev: Dict[int, Optional[Node]] = {start.id: None}
    queue = [start]
    while queue:
      n = queue.pop(0)
      if n is goal and n is not start:
        break
      for m, lab in n.succs:
        if m.id in blocked_ids or m.id in prev:
          continue
        if follow is not None and not follow(n, m, lab):
          continue
        prev[m.id] = n
        queue.append(m)
    if goal.id not in prev:
      return None
    out = [goal]
    cur = prev[goal.id]
    while cur is not None:
      out.append(cur)
      cur = prev[cur.id]
    return list(reversed(out))

  def dominators(self) -> Dict[int, Set[int]]:
    ids = [n.id for n in self.nodes]
    reach = {n.id for n in self.reachable([self.entry], include_starts=True)}
    dom: Dict[int, Set[int]] = {}
    for i in ids:
      dom[i] = {i} if i == self.entry.id else set(reach)
    changed = True
    order = [n for n in self.nodes if n.id in reach and n is not self.entry]
    while changed:
      changed = False
      for n in order:
        ps = [p for p, _ in n.preds if p.id in reach]
        if not ps:
          new = {n.id}
        else:
          new = set.intersection(*(dom[p.id] for p in ps)) | {n.id}
        if new != dom[n.id]:
          dom[n.id] = new
          changed = True
    return dom

  def controlling_conditions(self, node: Node) -> List[Tuple[ast.AST, bool]]:
    """(condition, polarity) pairs that must hold for `node` to execute in the
    current iteration: for every test t, if node is reachable only through t's
    true (false) branch without re-entering t, the condition is required True
    (False).  And/Or are split into their conjuncts where the polarity allows."""
    out: List[Tuple[ast.AST, bool]] = []
    for t in self.nodes:
      if t.kind != 'test' or t is node:
        continue
      ts = [m for m, lab in t.succs if lab == 'T']
      fs = [m for m, lab in t.succs if lab == 'F']
      if node not in self.reachable([t]):
        continue
      via_t = bool(ts) and (node in ts or node in self.reachable(ts, blocked=[t], include_starts=True))
      via_f = bool(fs) and (node in fs or node in self.reachable(fs, blocked=[t], include_starts=True))
      # t must be unavoidable on the way to node from the loop header / entry
      starts = [self.entry]
      if node in self.reachable(starts, blocked=[t], include_starts=True):
        # reachable bypassing t: t does not control node ... unless both are in a loop whose
        # header is the bypass; restrict to the innermost common loop
        loop = None
        for l in reversed(t.loops):
          if l in node.loops:
            loop = l
            break
        if loop is None:
          continue
        header = self.by_ast.get(id(loop)) or self.by_ast.get(id(getattr(loop, 'test', None)))
        if header is None:
          continue
        hs = [m for m, lab in header.succs if lab == 'T']
        if node in self.reachable(hs, blocked=[t, header], include_starts=True):
          continue
      if via_t and not via_f:
        out.extend(_split(t.ast, True))
      elif via_f and not via_t:
        out.extend(_split(t.ast, False))
    return out

  def stats(self) -> Tuple[int, int]:
    return len(self.nodes), sum(len(n.succs) for n in self.nodes)


def _split(e: ast.AST, pol: bool) -> List[Tuple[ast.AST, bool]]:
  if isinstance(e, ast.UnaryOp) and isinstance(e.op, ast.Not):
    return _split(e.operand, not pol)
  if isinstance(e, ast.BoolOp):
    if (isinstance(e.op, ast.And) and pol) or (isinstance(e.op, ast.Or) and not pol):
      out = []
      for v in e.values:
        out.extend(_split(v, pol))
      return out
  return [(e, pol)]


def _contains(root: ast.AST, target: ast.AST) -> bool:
  for x in ast.walk(root):
    if x is target:
      return True
  return False


# ------------------------------------------------------------------ dataflow
def forward(cfg: CFG, init, transfer, join, equal=None, bottom=None,
            max_iter: int = 20000):
  """Generic forward worklist solver.

  transfer(node, in_state, succ, label) -> out_state for that edge, or None to
  mark the edge infeasible.  Returns {node.id: in_state}.
  """
  if equal is None:
    equal = lambda a, b: a == b
  state: Dict[int, object] = {cfg.entry.id: init}
  work = [cfg.entry]
  it = 0
  while work:
    it += 1
    if it > max_iter:
      raise AnalysisError('dataflow did not converge')
    n = work.pop()
    s_in = state[n.id]
    for m, lab in n.succs:
      out = transfer(n, s_in, m, lab)
      if out is None:
        continue
      if m.id not in state:
        state[m.id] = out
        work.append(m)
      else:
        j = join(state[m.id], out)
        if not equal(j, state[m.id]):
          state[m.id] = j
          work.append(m)
  return state
