"""Model of the service layer shared by the C01-C08 rules.

Everything here is derived from the sources on each run: the servicer class,
its RPC methods (names from vizier_service.proto), the datastore attribute and
the read/write classification of datastore methods (from the SQL backend's
statements), the no-return summary of grpc_util.handle_exception, enum
constants (from study.proto).
"""

from __future__ import annotations

import ast
from typing import Dict, FrozenSet, List, Optional, Set, Tuple

from vzstatic import cfg as cfgmod
from vzstatic import flow
from vzstatic.index import ClassInfo, FuncInfo, ModuleInfo, dotted
from vzstatic.protoschema import Schema
from vzstatic.source import AnalysisError, loc

SERVICE_MOD = 'vizier._src.service.vizier_service'
GRPC_UTIL = 'vizier._src.service.grpc_util'
DATASTORE = 'vizier._src.service.datastore.DataStore'
RAM = 'vizier._src.service.ram_datastore.NestedDictRAMDataStore'
SQL = 'vizier._src.service.sql_datastore.SQLDataStore'


class SqlWrapper:
  """Rollback wrapper of the SQL datastore and how its call sites look."""

  def __init__(self, fi, is_method: bool, qidx: int, qparam: str):
    self.fi, self.is_method, self.qidx, self.qparam = fi, is_method, qidx, qparam
    self.name = fi.name if fi is not None else ''
    self.call_name = '' if fi is None else f'self.{fi.name}' if is_method else fi.name

  def matches(self, c: ast.Call) -> bool:
    return self.fi is not None and (dotted(c.func) or '') == self.call_name

  def query(self, c: ast.Call):
    if len(c.args) > self.qidx:
      return c.args[self.qidx]
    for k in c.keywords:
      if k.arg == self.qparam:
        return k.value
    return None


class Svc:

  def __init__(self, ctx):
    self.ctx = ctx
    self.index = ctx.index
    self.schema = Schema(ctx.src)
    self.mod = self.index.need_module(SERVICE_MOD)
    self.servicer = self._find_servicer()
    svc = self.schema.services.get('VizierService')
    if svc is None:
      raise AnalysisError('service VizierService not found in vizier_service.proto')
    self.rpc_names = list(svc.rpcs)
    self.rpcs: Dict[str, FuncInfo] = {
        n: self.servicer.methods[n] for n in self.rpc_names if n in self.servicer.methods}
    self.datastore = self.index.need_class(DATASTORE)
    self.ram = self.index.need_class(RAM)
    self.sql = self.index.need_class(SQL)
    self.ds_abstract = [m for m in self.datastore.methods.values()
                        if any(d.endswith('abstractmethod') for d in m.decorators)]
    self.ds_attrs = self._datastore_attrs()
    self.ds_kind = self._classify_datastore()
    self._noreturn: Dict[str, Optional[bool]] = {}
    self._cfgs: Dict[str, cfgmod.CFG] = {}

  # ------------------------------------------------------------- discovery
  def _find_servicer(self) -> ClassInfo:
    for c in self.mod.classes.values():
      for b in self.index.bases(c):
        n = b.qualname if isinstance(b, ClassInfo) else b
        if n.endswith('VizierServiceServicer'):
          return c
    raise AnalysisError('servicer class (subclass of VizierServiceServicer) not found')

  def _datastore_attrs(self) -> Set[str]:
    out = set()
    init = self.servicer.methods.get('__init__')
    if init is None:
      raise AnalysisError('servicer has no __init__')
    for n in ast.walk(init.node):
      if isinstance(n, ast.Assign) and isinstance(n.value, ast.Call):
        d = dotted(n.value.func)
        sym = self.index.resolve(self.mod, d) if d else None
        if isinstance(sym, ClassInfo) and self.index.is_subclass(sym, DATASTORE):
          for t in n.targets:
            dt = dotted(t)
            if dt and dt.startswith('self.'):
              out.add(dt[5:])
    if not out:
      raise AnalysisError('no datastore attribute assigned in servicer __init__')
    return out

  def _classify_datastore(self) -> Dict[str, str]:
    """method -> 'write' if its SQL implementation issues a write / commit."""
    kinds = {}
    for m in self.ds_abstract:
      impl = self.sql.methods.get(m.name)
      if impl is None:
        kinds[m.name] = 'write'
        continue
      write = False
      for c in flow.calls_in(impl.node):
        d = dotted(c.func) or ''
        if self.sql_wrapper().matches(c) or d.endswith('.commit'):
          write = True
        if isinstance(c.func, ast.Attribute) and c.func.attr == 'update' and (dotted(c.func.value) or '') in ('sqla', 'sqlalchemy'):
          write = True
        if isinstance(c.func, ast.Attribute) and c.func.attr in ('insert', 'delete') and (
            dotted(c.func.value) or '').startswith('self._'):
          write = True
        if d in ('sqla.update', 'sqlalchemy.update'):
          write = True
      kinds[m.name] = 'write' if write else 'read'
    return kinds

  def sql_wrapper(self) -> 'SqlWrapper':
    """The rollback wrapper of the SQL datastore, found by structure: a private method of SQLDataStore or a
    private module-level function of its module that executes one of its parameters on a connection and is
    called from at least three SQLDataStore methods."""
    if getattr(self, '_sql_wrapper', None) is not None:
      return self._sql_wrapper
    cands = [(m, True) for m in self.sql.methods.values()] + [(f, False) for f in self.sql.module.functions.values()]
    best = None
    for f, is_method in cands:
      if not f.name.startswith('_') or f.name.startswith('__'):
        continue
      params = [p for p in f.params if p not in ('self', 'cls')]
      qparam = None
      for c in flow.calls_in(f.node):
        if isinstance(c.func, ast.Attribute) and c.func.attr == 'execute' and c.args \
            and isinstance(c.args[0], ast.Name) and c.args[0].id in params:
          qparam = c.args[0].id
      if qparam is None:
        continue
      w = SqlWrapper(f, is_method, params.index(qparam), qparam)
      users = sum(1 for o in self.sql.methods.values() if o is not f and any(w.matches(c) for c in flow.calls_in(o.node)))
      if users >= 3 and (best is None or users > best[0]):
        best = (users, w)
    # no wrapper: the statements are executed directly (e.g. the wrapper was inlined by the normaliser);
    # the transaction analysis then decides the rollback discipline on the direct executes
    self._sql_wrapper = best[1] if best is not None else SqlWrapper(None, False, 0, '')
    return self._sql_wrapper

  # ----------------------------------------------------------------- calls
  def ds_call(self, call: ast.Call) -> Optional[str]:
    """Datastore method name if `call` is self.<datastore attr>.<m>(...)."""
    if not isinstance(call.func, ast.Attribute):
      return None
    d = dotted(call.func.value)
    if d and d.startswith('self.') and d[5:] in self.ds_attrs:
      return call.func.attr
    return None

  def is_mutator(self, name: str) -> bool:
    return self.ds_kind.get(name) == 'write'

  def resolve_call(self, fi: FuncInfo, call: ast.Call) -> Optional[FuncInfo]:
    d = dotted(call.func)
    if d is None:
      return None
    if d.startswith('self.') and fi.cls is not None and d.count('.') == 1:
      return self.index.find_method(fi.cls, d[5:])
    sym = self.index.resolve(fi.module, d)
    if isinstance(sym, FuncInfo):
      return sym
    if isinstance(sym, ClassInfo):
      return self.index.find_method(sym, '__init__')
    return None

  # --------------------------------------------------------------- noreturn
  def noreturn(self, fi: FuncInfo, depth: int = 0) -> bool:
    """True iff no path of `fi` reaches its normal exit."""
    if fi.qualname in self._noreturn:
      v = self._noreturn[fi.qualname]
      return bool(v)
    self._noreturn[fi.qualname] = None  # in progress (recursion -> assume returns)
    g = cfgmod.CFG(fi.node)
    self._cut_terminators(g, fi, depth)
    reach = g.reachable([g.entry], include_starts=True)
    res = g.exit not in reach
    self._noreturn[fi.qualname] = res
    return res

  def normal_return_path(self, fi: FuncInfo) -> Optional[List[cfgmod.Node]]:
    g = cfgmod.CFG(fi.node)
    self._cut_terminators(g, fi, 0)
    return g.path(g.entry, g.exit)

  def _is_abort_call(self, fi: FuncInfo, call: ast.Call) -> bool:
    """<x>.abort(...) where x is a parameter annotated grpc.ServicerContext."""
    if not (isinstance(call.func, ast.Attribute) and call.func.attr == 'abort'):
      return False
    base = call.func.value
    if not isinstance(base, ast.Name):
      return False
    a = fi.node.args
    for p in a.posonlyargs + a.args + a.kwonlyargs:
      if p.arg == base.id and p.annotation is not None and 'ServicerContext' in ast.unparse(p.annotation):
        return True
    return False

  def terminator_call(self, fi: FuncInfo, call: ast.Call, depth: int = 0) -> Optional[str]:
    if self._is_abort_call(fi, call):
      return 'grpc.ServicerContext.abort (trusted: never returns)'
    d = dotted(call.func) or ''
    if d in ('sys.exit', 'os._exit'):
      return d
    if depth < 3:
      callee = self.resolve_call(fi, call)
      if callee is not None and callee.qualname != fi.qualname and self.noreturn(callee, depth + 1):
        return f'{callee.qualname} (no path reaches its normal exit)'
    return None

  def _cut_terminators(self, g: cfgmod.CFG, fi: FuncInfo, depth: int) -> List[cfgmod.Node]:
    cut = []
    for n in g.nodes:
      if n.kind in ('entry', 'exit', 'raise'):
        continue
      if n.kind == 'stmt' and isinstance(n.ast, ast.Raise):
        continue
      if n.kind not in ('stmt',):
        continue
      if isinstance(n.ast, (ast.FunctionDef, ast.ClassDef)):
        continue
      for c in flow.node_calls(n):
        why = self.terminator_call(fi, c, depth)
        if why:
          for m, lab in list(n.succs):
            n.succs.remove((m, lab))
            m.preds.remove((n, lab))
          n.label = 'terminator: ' + why
          cut.append(n)
          break
    return cut

  def rpc_cfg(self, fi: FuncInfo) -> cfgmod.CFG:
    """CFG of a servicer method with no-return calls cut, plus conservative try->handler edges."""
    if fi.qualname not in self._cfgs:
      g = cfgmod.CFG(fi.node)
      g.terminators = self._cut_terminators(g, fi, 0)  # type: ignore[attr-defined]
      # handler bodies must be analysed too: every node of a try body may raise into every
      # handler of its enclosing try statements (conservative may-edges; the precise raise
      # model is C06's).  Terminator nodes keep these edges: their exception may be caught.
      g.add_exception_edges(
          lambda n: ['*'] if any(part == 'body' for _, part in n.trys) and n.kind in ('stmt', 'test', 'for', 'with') else [],
          lambda h, exc, n: 'may')
      self._cfgs[fi.qualname] = g
    return self._cfgs[fi.qualname]

  # ------------------------------------------------------------ enum consts
  def enum_values(self, mi: ModuleInfo, expr: ast.AST, enum_full: str,
                  cls: Optional[ClassInfo] = None) -> Optional[FrozenSet[str]]:
    """Set of enum value names denoted by a constant expression, or None.

    Handles `study_pb2.Trial.State.ACTIVE`, `study_pb2.Trial.ACTIVE`, tuples /
    lists / sets of them, and class constants such as
    `self._TRIAL_MUTABLE_STATES` (evaluated from the class body).
    """
    enum = self.schema.enums.get(enum_full)
    if enum is None:
      raise AnalysisError(f'enum {enum_full} not in schema')
    if isinstance(expr, (ast.Tuple, ast.List, ast.Set)):
      out: Set[str] = set()
      for e in expr.elts:
        v = self.enum_values(mi, e, enum_full, cls)
        if v is None:
          return None
        out |= v
      return frozenset(out)
    d = dotted(expr)
    if d is None:
      return None
    parts = d.split('.')
    if parts[0] in ('self', 'cls') and len(parts) == 2 and cls is not None:
      for c in self.index.mro(cls):
        if parts[1] in c.assigns:
          return self.enum_values(c.module, c.assigns[parts[1]], enum_full, c)
      return None
    if len(parts) == 1 and parts[0] in mi.assigns:
      return self.enum_values(mi, mi.assigns[parts[0]], enum_full, cls)
    # pb2 module alias . Message [. Enum] . VALUE
    if parts[-1] in enum.values:
      msg_path = enum_full.split('.')[1:]  # drop package, e.g. ['Trial','State']
      tail = parts[1:-1]
      if tail == msg_path or tail == msg_path[:-1]:
        imp = mi.imports.get(parts[0], '')
        if imp.endswith('_pb2'):
          return frozenset([parts[-1]])
    return None


def where(fi: FuncInfo, node) -> str:
  a = node.ast if hasattr(node, 'ast') else node
  return f'{fi.file}:{getattr(a, "lineno", 0)}'
