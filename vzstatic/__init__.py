"""vzstatic: repository-specific static analysis for google/vizier.

Every deciding step parses /repo's *current* sources (Python ``ast`` and the
``.proto`` files) and reasons over syntax trees, per-function control-flow
graphs with exception edges, def-use information and a resolved call graph.
No repository code is imported or executed.
"""

__all__ = ['source', 'index', 'cfg', 'flow', 'report']
