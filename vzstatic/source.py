"""Source provider: reads /repo's working tree on every run.

An optional in-memory *overlay* {relative path: text} lets the self-test
analyse seeded variants without writing scratch copies anywhere.
"""

from __future__ import annotations

import ast
import hashlib
import os
from typing import Dict, Iterable, List, Optional


class AnalysisError(Exception):
  """The checker cannot decide (anchor vanished, unparseable file, ...)."""


def repo_root() -> str:
  return os.environ.get('VZ_REPO', '/repo')


class Source:
  """Reads files below the repository root, with an optional overlay."""

  def __init__(self, root: Optional[str] = None,
               overlay: Optional[Dict[str, str]] = None):
    self.root = root or repo_root()
    self.overlay = dict(overlay or {})
    self._text: Dict[str, str] = {}
    self._ast: Dict[str, ast.Module] = {}
    self.consulted: Dict[str, str] = {}
    self._pyfiles: Optional[List[str]] = None
    self.inlined: Dict[str, int] = {}  # file -> number of private-helper call sites inlined before analysis
    self.renamed: Dict[str, int] = {}  # file -> number of renamed anchors recovered through the inventory
    self._renames = None

  # ------------------------------------------------------------------ files
  def exists(self, rel: str) -> bool:
    if rel in self.overlay:
      return True
    return os.path.isfile(os.path.join(self.root, rel))

  def read(self, rel: str) -> str:
    if rel in self._text:
      return self._text[rel]
    if rel in self.overlay:
      text = self.overlay[rel]
    else:
      path = os.path.join(self.root, rel)
      try:
        with open(path, 'r', encoding='utf-8') as f:
          text = f.read()
      except OSError as e:
        raise AnalysisError(f'anchor file missing: {rel} ({e})') from e
    self._text[rel] = text
    self.consulted[rel] = hashlib.sha256(text.encode('utf-8')).hexdigest()[:16]
    return text

  def py_files(self, include_tests: bool = False) -> List[str]:
    if self._pyfiles is None:
      out = []
      base = os.path.join(self.root, 'vizier')
      for dirpath, dirnames, filenames in os.walk(base):
        dirnames.sort()
        for fn in sorted(filenames):
          if fn.endswith('.py'):
            out.append(os.path.relpath(os.path.join(dirpath, fn), self.root))
      for rel in self.overlay:
        if rel.endswith('.py') and rel not in out:
          out.append(rel)
      self._pyfiles = sorted(out)
    if include_tests:
      return list(self._pyfiles)
    return [p for p in self._pyfiles if not is_test_file(p)]

  # -------------------------------------------------------------------- ast
  def parse(self, rel: str) -> ast.Module:
    if rel in self._ast:
      return self._ast[rel]
    text = self.read(rel)
    try:
      tree = ast.parse(text, filename=rel)
    except SyntaxError as e:
      raise AnalysisError(f'cannot parse {rel}: {e}') from e
    if os.environ.get('VZ_NO_INLINE') != '1' and not is_test_file(rel):
      from vzstatic import inline, renorm
      if self._renames is None:
        self._renames = renorm.global_renames(self, inline.anchors())
      if self._renames:
        self.renamed[rel] = renorm.apply(tree, self._renames.get(rel, {}), True)
        for other, ren in self._renames.items():
          if other != rel:
            renorm.apply(tree, ren, False)
      try:
        self.inlined[rel] = inline.normalise(tree)
      except RecursionError as e:  # pragma: no cover
        raise AnalysisError(f'cannot normalise {rel}: {e}') from e
    set_parents(tree)
    tree._vz_file = rel  # type: ignore[attr-defined]
    for n in ast.walk(tree):
      if not isinstance(n, _SINGLETONS):
        n._vz_file = rel  # type: ignore[attr-defined]
    self._ast[rel] = tree
    return tree

  def digest(self) -> str:
    h = hashlib.sha256()
    for k in sorted(self.consulted):
      h.update(k.encode())
      h.update(self.consulted[k].encode())
    return h.hexdigest()[:16]


def is_test_file(rel: str) -> bool:
  b = os.path.basename(rel)
  return (b.endswith('_test.py') or b.endswith('_test_lib.py')
          or b.startswith('test_') or '/testing/' in rel)


_SINGLETONS = (ast.expr_context, ast.operator, ast.boolop, ast.unaryop, ast.cmpop)


def set_parents(tree: ast.AST) -> None:
  tree._vz_parent = None  # type: ignore[attr-defined]
  for node in ast.walk(tree):
    for child in ast.iter_child_nodes(node):
      # Load()/Store()/Add()/Eq()... are process-wide singletons shared by every tree: never hang a parent
      # pointer on them (deepcopy of any Name would drag a whole module along)
      if isinstance(child, _SINGLETONS):
        continue
      child._vz_parent = node  # type: ignore[attr-defined]


def parent(node: ast.AST) -> Optional[ast.AST]:
  return getattr(node, '_vz_parent', None)


def ancestors(node: ast.AST) -> Iterable[ast.AST]:
  p = parent(node)
  while p is not None:
    yield p
    p = parent(p)


def enclosing_function(node: ast.AST):
  for a in ancestors(node):
    if isinstance(a, (ast.FunctionDef, ast.AsyncFunctionDef, ast.Lambda)):
      return a
  return None


def loc(node: ast.AST) -> str:
  return f"{getattr(node, '_vz_file', '?')}:{getattr(node, 'lineno', 0)}"


def unparse(node: ast.AST, limit: int = 160) -> str:
  try:
    s = ast.unparse(node)
  except Exception:  # pragma: no cover
    s = ast.dump(node)
  s = ' '.join(s.split())
  if limit and len(s) > limit:
    s = s[: limit - 3] + '...'
  return s


def local_names(fn: ast.AST) -> set:
  """Parameters (except self/cls) and every name bound inside a function."""
  out = set()
  for x in ast.walk(fn):
    if isinstance(x, ast.Name) and isinstance(x.ctx, (ast.Store, ast.Del)):
      out.add(x.id)
    elif isinstance(x, ast.arg) and x.arg not in ('self', 'cls'):
      out.add(x.arg)
    elif isinstance(x, ast.ExceptHandler) and x.name:
      out.add(x.name)
  return out


def stable_text(node: ast.AST, limit: int = 0) -> str:
  """Source text of an expression with the enclosing function's local names replaced by `~`: a key built from it
  survives a rename of locals."""
  import copy
  fn = next((a for a in ancestors(node) if isinstance(a, (ast.FunctionDef, ast.AsyncFunctionDef))), None)
  if fn is None:
    return unparse(node, limit=limit)
  loc_ = local_names(fn)
  parent_ = getattr(node, '_vz_parent', None)
  try:
    node._vz_parent = None  # keep deepcopy local to the expression
    c = copy.deepcopy(node)
  finally:
    node._vz_parent = parent_
  for x in ast.walk(c):
    if isinstance(x, ast.Name) and x.id in loc_:
      x.id = '~'
  return unparse(c, limit=limit)
