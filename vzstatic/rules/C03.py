"""C03 — every suggestion lies inside the search space, for every algorithm.

Structural clauses:
  R1 decoder closure: DefaultModelInputConverter._to_parameter_value returns
     None, a float clipped with both bounds of the original config, or an
     element of feasible_values; no designer disables clipping (shared with C15);
  R2 DefaultPolicyFactory has an arm for every Algorithm member and refuses
     unknown names (ends in raise);
  R3 every designer the factory hosts refuses conditional spaces when it is
     constructed (and CMA-ES refuses non-continuous parameters);
  R4 provenance: the ParameterDict of every TrialSuggestion built in the
     anchored designers derives from a clipping/snapping decoder
     (to_parameters / to_parameter_values / to_suggestions / unmap), from values
     enumerated from the config (grid values, feasible_values, sampled through
     random_sample), from another designer's suggestions — or from literals only
     where a constructor guard establishes that the literal set equals the
     feasible set;
  R5 the ProblemAndTrialsScaler.unmap decodes every non-categorical value
     through to_parameter_values, and eagle's value producers clamp to bounds /
     snap to feasible values;
  R6 default seeding: the value chosen by get_default_parameters reaches the
     ParameterDict only through SequentialParameterBuilder.choose_value
     (validated, C16.R7), and the midpoint is the arithmetic mean of the bounds.
Numerical in-range-ness after float rounding inside scaled round trips is not
decided (the final clip on the unscaled value is what is required).
"""

from __future__ import annotations

import ast
from typing import Dict, List, Optional, Set, Tuple

from vzstatic import cfg as cfgmod
from vzstatic import flow
from vzstatic.index import ClassInfo, FuncInfo, dotted
from vzstatic.rules import C13, C15, C16
from vzstatic.selftest import Variant
from vzstatic.source import AnalysisError, ancestors, loc, unparse

MANIFEST = {
    'technique': ('return-provenance of the decoder; dispatch totality of the policy factory against '
                  'the Algorithm enum; guard-in-constructor checks; backward provenance from every '
                  'TrialSuggestion construction to an allow-listed set of clipping decoders / '
                  'config-enumerating producers; clamp/snap check of the eagle value producers'
                  "; interprocedural return classification of parameter-building helpers; grid values: provenance of every returned list (decoder / exact enumeration / unclamped transcendental arithmetic); default seeding: every return is the validating builder's ParameterDict"
                  '; finite-model interpretation (loop-free concrete interpreter over extracted function bodies) of the eagle value producers and of grid enumerations; literal-value designers must carry the BOOLEAN-only constructor guard; policy factory decided by a decision walk of __call__ per Algorithm member (every path returns a policy) and for an unknown name (every path raises)'),
    'level_text': (
        'Static: every value that can reach a suggestion passes a decoder that clips to the '
        'original bounds or selects a feasible value (or is enumerated from the config); designers '
        'refuse the space shapes they cannot handle; every accepted algorithm name has an arm and '
        'unknown names are refused; default seeding is validated. Necessary for "inside the '
        'domain for every algorithm"; float-rounding inside scaled round trips and "exactly once per '
        'parameter" when a decoder returns None are not decided.'),
    'level_note': ('Allow-listed decoders (confirmed by reading): DefaultTrialConverter.to_parameters, '
                   'TrialToArrayConverter.to_parameters, ModelInputConverter.to_parameter_values, '
                   'PopulationConverter.to_suggestions, ProblemAndTrialsScaler.unmap, '
                   'VectorizedOptimizer best_candidates_to_trials, random_sample.sample_*.'),
}

DECODERS = ('to_parameters', 'to_parameter_values', 'to_suggestions', 'unmap', 'best_candidates_to_trials',
            'to_trials', 'suggest', '_suggest_one', 'sample_parameters', 'sample_value', 'get_default_parameters')
DESIGNER_FILES = [
    'vizier/_src/algorithms/designers/random.py', 'vizier/_src/algorithms/designers/quasi_random.py',
    'vizier/_src/algorithms/designers/grid.py', 'vizier/_src/algorithms/designers/cmaes.py',
    'vizier/_src/algorithms/designers/gp_bandit.py', 'vizier/_src/algorithms/designers/gp_ucb_pe.py',
    'vizier/_src/algorithms/designers/bocs.py', 'vizier/_src/algorithms/designers/harmonica.py',
    'vizier/_src/algorithms/designers/eagle_strategy/eagle_strategy.py',
    'vizier/_src/algorithms/evolution/numpy_populations.py',
]


def run(ctx) -> None:
  ctx.rule('R1', 'decoder returns None / clipped with both original bounds / element of feasible_values', 4)
  ctx.rule('R2', 'policy factory: an arm for every Algorithm member, unknown names refused', 2)
  ctx.rule('R3', 'hosted designers refuse conditional spaces at construction', 8)
  ctx.rule('R4', 'suggested parameters derive from a clipping decoder or from values enumerated from the config', 10)
  ctx.rule('R5', 'scaler unmap decodes through to_parameter_values; eagle value producers clamp / snap', 3)
  ctx.rule('R6', 'default seeding goes through the validating builder with exactly computed values; midpoint is the mean of the bounds', 4)
  ctx.rule('R12', 'hosted designers build their trial/array converters in the default (float64) precision: a narrower dtype turns '
           'large bounds into inf and the decoder then drops the parameter', 3)
  ctx.rule('R9', 'a designer that writes literal category values (\'True\'/\'False\') refuses, at construction, every parameter '
           'that is not declared BOOLEAN', 1)
  ctx.rule('R8', 'grid values are decoder output or exact enumerations of the config (no unclamped transcendental arithmetic)', 3)
  ctx.import_rules('C12', {'R6'}, 'R7', 'suggestions are produced for the study of the request: the service keeps no policy (and no search space) between requests')
  ctx.import_rules('C07', {'R8'}, 'R10', 'the trials handed to a worker are the trials of its own study: exact key filters in both datastores')
  ctx.import_rules('C14', {'R6'}, 'R11', 'no process-wide cache of per-study objects (converters, designers) in the suggestion path')
  mi = ctx.index.module_of_file(C15.CORE)
  C15.r3_decoder(_Relabel(ctx, 'R1'), mi)
  hosted = r2_factory(ctx)
  r3_refusals(ctx, hosted)
  r4_provenance(ctx)
  r5_eagle(ctx)
  r6_default(ctx)
  r8_grid_values(ctx)
  r9_literal_values(ctx)
  r12_converter_precision(ctx)


class _Relabel:
  def __init__(self, ctx, rule):
    self._ctx, self._rule = ctx, rule

  def __getattr__(self, name):
    return getattr(self._ctx, name)

  def ok(self, rule, *a, **k):
    return self._ctx.ok(self._rule, *a, **k)

  def bad(self, rule, *a, **k):
    return self._ctx.bad(self._rule, *a, **k)

  def check(self, cond, rule, *a, **k):
    return self._ctx.check(cond, self._rule, *a, **k)


# ----------------------------------------------------------------------- R2
def r2_factory(ctx) -> List[ClassInfo]:
  pf = ctx.index.need_class('vizier._src.service.policy_factory.DefaultPolicyFactory')
  enum = ctx.index.need_class('vizier._src.pyvizier.oss.study_config.Algorithm')
  members = [v.value for k, v in enum.assigns.items() if isinstance(v, ast.Constant)]
  # decision walk: for every Algorithm member (and for a name that is no member) the factory method is walked with
  # the algorithm name bound; every path must end in a `return` for a member and in a `raise` for the unknown name
  from ..pathcond import neval, NoValue
  call = pf.methods.get('__call__')
  if call is None:
    raise AnalysisError('DefaultPolicyFactory.__call__ not found')
  aparam = next((a.arg for a in call.node.args.args + call.node.args.kwonlyargs if 'algorithm' in a.arg), None)
  if aparam is None:
    raise AnalysisError('DefaultPolicyFactory.__call__: algorithm parameter not found')
  consts: Dict[str, object] = {}
  for st in pf.module.tree.body:
    if isinstance(st, ast.Assign) and len(st.targets) == 1 and isinstance(st.targets[0], ast.Name):
      try:
        consts[st.targets[0].id] = neval(st.value, dict(consts))
      except NoValue:
        pass
  for k, v in pf.assigns.items():
    try:
      val = neval(v, dict(consts))
    except NoValue:
      continue
    consts[f'self.{k}'] = consts[f'{pf.name}.{k}'] = consts[f'cls.{k}'] = val

  def outcomes(stmts, env, acc):
    for i, st in enumerate(stmts):
      if isinstance(st, ast.If):
        try:
          tv = neval(st.test, env)
        except NoValue:
          if not any(isinstance(x, ast.Name) and x.id == aparam for x in ast.walk(st.test)):
            # a test that does not look at the algorithm: both sides are walked
            outcomes(list(st.body) + stmts[i + 1:], env, acc)
            outcomes(list(st.orelse) + stmts[i + 1:], env, acc)
            return
          raise AnalysisError(f'policy factory: test `{unparse(st.test, 60)}` on the algorithm name cannot be decided')
        outcomes(list(st.body if tv else st.orelse) + stmts[i + 1:], env, acc)
        return
      if isinstance(st, ast.Return):
        acc.append('return' if st.value is not None and not (isinstance(st.value, ast.Constant) and st.value.value is None) else 'none')
        return
      if isinstance(st, ast.Raise):
        acc.append('raise')
        return
      if isinstance(st, ast.Assign) and len(st.targets) == 1 and isinstance(st.targets[0], ast.Name):
        env = dict(env)
        try:
          env[st.targets[0].id] = neval(st.value, env)
        except NoValue:
          env.pop(st.targets[0].id, None)
        continue
      if isinstance(st, (ast.With, ast.Try)):
        outcomes(list(st.body) + stmts[i + 1:], env, acc)
        return
      if isinstance(st, (ast.For, ast.While, ast.Match)):
        raise AnalysisError(f'policy factory: {type(st).__name__} statement in the dispatch')
    acc.append('none')

  def decide(name):
    acc: List[str] = []
    env = dict(consts)
    env[aparam] = name
    outcomes(list(call.node.body), env, acc)
    return acc
  missing = [a for a in members if not all(o == 'return' for o in decide(a))]
  ctx.check(not missing, 'R2', 'an arm for every Algorithm member', pf.node, f'{len(members)} members end in a returned policy on every path',
            f'Algorithm members without an arm in the policy factory: {missing} (accepted by StudyConfig, refused at suggest time)',
            construct=str(missing), func=pf.qualname)
  ends = all(o == 'raise' for o in decide('\x00no-such-algorithm'))
  ctx.check(ends, 'R2', 'unknown algorithm names are refused', pf.node, 'an unknown name ends in a raise on every path',
            'an unknown algorithm name falls through without an error', construct='else-raise', func=pf.qualname)
  # hosted designer classes (both policy kinds)
  hosted: List[ClassInfo] = []
  local_imports: Dict[str, str] = {}
  for m in pf.methods.values():
    for x in ast.walk(m.node):
      if isinstance(x, ast.ImportFrom):
        for a in x.names:
          local_imports[a.asname or a.name] = f'{x.module}.{a.name}'
  for m in pf.methods.values():
    for ret in ast.walk(m.node):
      if isinstance(ret, ast.Return) and isinstance(ret.value, ast.Call) and 'DesignerPolicy' in (dotted(ret.value.func) or ''):
        for a in ret.value.args:
          d = dotted(a)
          if d and d.split('.')[0] in local_imports:
            sym = ctx.index.lookup(local_imports[d.split('.')[0]] + d[len(d.split('.')[0]):])
            if isinstance(sym, ClassInfo):
              hosted.append(sym)
            elif isinstance(sym, FuncInfo) and sym.cls is not None:
              hosted.append(sym.cls)
  return hosted


# ----------------------------------------------------------------------- R3
def r3_refusals(ctx, hosted: List[ClassInfo]) -> None:
  seen = set()
  for ci in hosted:
    if ci.qualname in seen:
      continue
    seen.add(ci.qualname)
    ctor_like = [ctx.index.find_method(ci, n) for n in ('__init__', '__attrs_post_init__', 'from_problem')]
    ctor_like = [m for m in ctor_like if m is not None]
    # follow one level of construction helpers / superclass init / builder functions
    texts = []
    for m in ctor_like:
      texts.append(m.node)
      for c in flow.calls_in(m.node):
        d = dotted(c.func) or ''
        if d.startswith('self.') and d.count('.') == 1:
          h = ctx.index.find_method(ci, d[5:])
          if h is not None:
            texts.append(h.node)
        sym = ctx.index.resolve(m.module, d) if d else None
        if isinstance(sym, FuncInfo):
          texts.append(sym.node)
        elif isinstance(sym, ClassInfo):
          ii = ctx.index.find_method(sym, '__init__') or ctx.index.find_method(sym, '__attrs_post_init__')
          if ii is not None:
            texts.append(ii.node)
    refused = False
    for t in texts:
      for n in ast.walk(t):
        if isinstance(n, ast.If) and 'is_conditional' in unparse(n.test, 0) and any(isinstance(x, ast.Raise) for x in n.body):
          refused = True
    ctx.check(refused, 'R3', f'{ci.name}: conditional search spaces refused', ci.node,
              '`if ...is_conditional: raise` on the construction path',
              f'{ci.name} does not refuse conditional search spaces when constructed: it would answer with flat suggestions that '
              'assign inactive parameters', construct=f'{ci.name}:conditional', func=ci.qualname)
  if len(seen) < 8:
    raise AnalysisError(f'only {len(seen)} hosted designers resolved')
  cma = ctx.index.need_class('vizier._src.algorithms.designers.cmaes.CMAESDesigner')
  t = unparse(cma.methods['__init__'].node, 0)
  ctx.check('is_continuous()' in t and 'raise ValueError' in t, 'R3', 'CMAESDesigner: non-continuous parameters refused', cma.node,
            'raises unless every parameter is continuous', 'CMA-ES accepts non-continuous parameters', construct='cma-continuous', func=cma.qualname)


# ----------------------------------------------------------------------- R4
def r4_provenance(ctx) -> None:
  n_sites = 0
  for f in DESIGNER_FILES:
    mi = ctx.index.module_of_file(f)
    funcs = [m for c in mi.classes.values() for m in c.methods.values()] + list(mi.functions.values())
    for fi in funcs:
      sites = [c for c in flow.calls_in(fi.node) if (dotted(c.func) or '').endswith('TrialSuggestion')]
      if not sites:
        continue
      g = cfgmod.CFG(fi.node)
      rd = flow.ReachingDefs(g)
      prov = flow.Provenance(g, rd, on_call=lambda c: 'stop', on_attr=lambda a: 'through')
      for c in sites:
        pexpr = None
        if c.args:
          pexpr = c.args[0]
        for k in c.keywords:
          if k.arg == 'parameters':
            pexpr = k.value
        inst = f'{f.rsplit("/", 1)[-1]}:{fi.name}: TrialSuggestion at line {c.lineno}'
        if pexpr is None:
          # empty suggestion filled later: parameters[...] = v stores on the variable
          ctx.ok('R4', inst, c, 'constructed empty; values assigned below are checked at their stores')
          n_sites += 1
          _check_stores(ctx, fi, g, rd, prov, c, f)
          continue
        n_sites += 1
        node = g.node_of(c)
        verdict, why = _classify_params(ctx, fi, g, rd, prov, pexpr, node, 0)
        if verdict == 'ok':
          ctx.ok('R4', inst, c, why)
        elif verdict == 'literal':
          consts = why
          guard = _literal_guard(ctx, fi, consts)
          ctx.check(guard, 'R4', inst, c, 'literals proven equal to the feasible set by a constructor guard',
                    f'the suggested values are the literals {consts} for every parameter, but the constructor only checks '
                    'external_type == BOOLEAN, not that both values are feasible: a boolean parameter restricted to one value '
                    '(add_bool_param(feasible_values=[True])) gets an out-of-domain suggestion instead of a refusal',
                    construct=f'{fi.name}:literal-params', func=fi.qualname)
        else:
          ctx.bad('R4', inst, c, why, construct=f'{fi.name}:{"stores" if "stored" in why else "literal-params"}', func=fi.qualname)
  if n_sites < 10:
    raise AnalysisError(f'only {n_sites} TrialSuggestion constructions found')


def _classify_params(ctx, fi, g, rd, prov, pexpr, node, depth):
  """('ok', why) | ('literal', consts) | ('bad', why) for the expression that becomes a suggestion's parameters."""
  o = prov.origins(pexpr, node)
  calls = [v for k, v in o if k == 'call']
  cnames = [(dotted(v.func) or '').split('.')[-1] for v in calls]
  attrs = [dotted(v) or '' for k, v in o if k == 'attr']
  if any(x in DECODERS for x in cnames) or any(a.endswith(('.parameters',)) and not a.startswith('self.') for a in attrs) \
      or any('_grid_values' in a for a in attrs):
    return 'ok', f'parameters come from {sorted(set(x for x in cnames if x in DECODERS)) or "config-enumerated values"}'
  # a private helper of the same class / module builds the parameters: judge what it returns
  if depth < 2:
    for cv in calls:
      callee = None
      d = dotted(cv.func) or ''
      if d.startswith('self.') and d.count('.') == 1 and fi.cls is not None:
        callee = ctx.index.find_method(fi.cls, d[5:])
      elif isinstance(cv.func, ast.Name) and cv.func.id in fi.module.functions:
        callee = fi.module.functions[cv.func.id]
      if callee is None or callee is fi:
        continue
      g2 = cfgmod.CFG(callee.node)
      rd2 = flow.ReachingDefs(g2)
      prov2 = flow.Provenance(g2, rd2, on_call=lambda c_: 'stop', on_attr=lambda a: 'through')
      rets = [r for r in ast.walk(callee.node) if isinstance(r, ast.Return) and r.value is not None]
      if not rets:
        continue
      verdicts = [_classify_params(ctx, callee, g2, rd2, prov2, r.value, g2.node_of(r), depth + 1) for r in rets]
      if all(v == 'ok' for v, _ in verdicts):
        return 'ok', f'built by {callee.name}(): ' + verdicts[0][1]
      badv = next((vw for vw in verdicts if vw[0] != 'ok'), None)
      if badv is not None and badv[0] == 'bad':
        return badv
  # a ParameterDict (or a list of them) filled by item stores in this function: check the stores
  pd_vars = {t.id for x in ast.walk(fi.node) if isinstance(x, ast.Assign) and isinstance(x.value, ast.Call)
             and (dotted(x.value.func) or '').endswith('ParameterDict') for t in x.targets if isinstance(t, ast.Name)}
  stores = [x for x in ast.walk(fi.node) if isinstance(x, ast.Assign) and any(
      isinstance(t, ast.Subscript) and isinstance(t.value, ast.Name) and t.value.id in pd_vars for t in x.targets)]
  if stores and not any(k == 'const' and isinstance(v, str) for k, v in o):
    for x in stores:
      so = prov.origins(x.value, g.node_of(x))
      scalls = [(dotted(v.func) or '').split('.')[-1] for k, v in so if k == 'call']
      sattrs = [dotted(v) or '' for k, v in so if k == 'attr']
      if not (any(n in DECODERS for n in scalls) or any('_grid_values' in a or 'feasible_values' in a for a in sattrs)):
        return 'bad', 'a value stored into the suggested ParameterDict is neither enumerated from the config nor decoded by a clipping decoder'
    return 'ok', 'every stored value is enumerated from the config (grid / feasible values) or decoded'
  consts = sorted({repr(v) for k, v in o if k == 'const' and isinstance(v, str)})
  if not consts:
    for x in stores:
      consts += [repr(v) for k, v in prov.origins(x.value, g.node_of(x)) if k == 'const' and isinstance(v, str)]
    consts = sorted(set(consts))
  if consts:
    return 'literal', consts
  return 'bad', 'the suggested parameters do not derive from a clipping decoder or from config-enumerated values'


def _check_stores(ctx, fi, g, rd, prov, c, f) -> None:
  par = None
  from vzstatic.source import parent
  p = parent(c)
  if isinstance(p, ast.Assign) and isinstance(p.targets[0], ast.Name):
    var = p.targets[0].id
    for x in ast.walk(fi.node):
      if isinstance(x, ast.Assign) and any(isinstance(t, ast.Subscript) and unparse(t.value, 0) == f'{var}.parameters' for t in x.targets):
        o = prov.origins(x.value, g.node_of(x))
        calls = [(dotted(v.func) or '').split('.')[-1] for k, v in o if k == 'call']
        ok = any(n in ('combine_two_parameters', 'perturb_parameter', 'sample_categorical', 'get_closest_element') + DECODERS for n in calls) \
            or any(k == 'attr' and (dotted(v) or '').endswith('.parameters') for k, v in o) or any(k == 'iter' for k, _ in o)
        ctx.check(ok, 'R4', f'{f.rsplit("/", 1)[-1]}:{fi.name}: parameters[...] = ... at line {x.lineno}', x,
                  'value produced by a clamping / snapping producer or copied from a suggestion',
                  'a parameter value is assigned from an expression that is neither clamped nor enumerated from the config',
                  construct=f'{fi.name}:store', func=fi.qualname)


def _literal_guard(ctx, fi: FuncInfo, consts: List[str]) -> bool:
  if fi.cls is None:
    return False
  init = ctx.index.find_method(fi.cls, '__init__')
  if init is None:
    return False
  t = unparse(init.node, 0)
  # accepted guard: every parameter's feasible_values is checked to contain both literals
  return 'feasible_values' in t and ('len(' in t or 'set(' in t or 'sorted(' in t) and 'raise' in t


# ----------------------------------------------------------------------- R5
def r5_eagle(ctx) -> None:
  sc = ctx.index.need_class('vizier.pyvizier.converters.embedder.ProblemAndTrialsScaler')
  un = sc.methods['unmap']
  # every value written into the un-mapped parameters is either under the CATEGORICAL test (left as it is) or comes out
  # of the clipping decoder
  g_un = cfgmod.CFG(un.node)
  prov_un = flow.Provenance(g_un, on_call=lambda c: 'all', on_attr=lambda a: 'through')
  stores_un = [n for n in g_un.nodes if n.kind == 'stmt' and isinstance(n.ast, ast.Assign) and any(
      isinstance(t_, ast.Subscript) and 'param' in unparse(t_.value, 0).lower() for t_ in n.ast.targets)]
  if not stores_un:
    raise AnalysisError('ProblemAndTrialsScaler.unmap: no store into the parameter dict found')
  ok = arm_ok = True
  for n in stores_un:
    conds = g_un.controlling_conditions(n)
    cat = any(pol and isinstance(c_, ast.Compare) and len(c_.ops) == 1 and isinstance(c_.ops[0], (ast.Eq, ast.Is)) and
              any((dotted(x) or '').endswith('ParameterType.CATEGORICAL') for x in (c_.left, c_.comparators[0])) for c_, pol in conds) or \
        any((not pol) and isinstance(c_, ast.Compare) and len(c_.ops) == 1 and isinstance(c_.ops[0], (ast.NotEq, ast.IsNot)) and
            any((dotted(x) or '').endswith('ParameterType.CATEGORICAL') for x in (c_.left, c_.comparators[0])) for c_, pol in conds)
    if cat:
      continue
    decoded = any(k == 'call' and isinstance(v.func, ast.Attribute) and v.func.attr in ('to_parameter_values', 'to_parameters')
                  for k, v in prov_un.origins(n.ast.value, n))
    arm_ok = arm_ok and decoded
  # no parameter is skipped: every pass through the per-parameter loop reaches one of the stores
  for st_n in stores_un[:1]:
    if st_n.loops:
      hdr = next((m for m in g_un.nodes if m.kind == 'for' and m.ast is st_n.loops[-1]), None)
      if hdr is not None:
        starts = [m for m, lab in hdr.succs if m.loops and m.loops[-1] is hdr.ast]
        inner_stores = [m for m in stores_un if m.loops and m.loops[-1] is hdr.ast]
        skip = hdr in g_un.reachable(starts, blocked=inner_stores, include_starts=True)
        ctx.check(not skip, 'R5', 'ProblemAndTrialsScaler.unmap keeps every parameter', hdr.ast,
                  'every pass through the per-parameter loop stores a value',
                  'a parameter can be skipped while un-mapping (a path through the loop body stores nothing): the suggestion comes back without '
                  'one of its parameters, i.e. outside the search space, where the conversion used to raise', construct='unmap-skips', func=un.qualname)
  ctx.check(ok and arm_ok, 'R5', 'ProblemAndTrialsScaler.unmap', un.node,
            'non-categorical values decoded with param_converter.to_parameter_values (clipping decoder)',
            'unmap returns scaled values without the clipping decoder', construct='unmap', func=un.qualname)
  ut = ctx.index.need_class('vizier._src.algorithms.designers.eagle_strategy.eagle_strategy_utils.EagleStrategyUtils')
  for name in ('combine_two_parameters', 'perturb_parameter'):
    m = ut.methods[name]
    bad, rows = _eagle_value_model(m)
    ctx.count(f'eagle_{name}_model_rows', rows)
    ctx.check(bad is None, 'R5', f'EagleStrategyUtils.{name}', m.node,
              f'clamped to bounds / snapped to feasible values on every row of the finite model ({rows} rows)',
              f'{name} can return a value outside the (scaled) parameter range or outside the feasible set: {bad}',
              construct=name, func=m.qualname)


def _eagle_value_model(m: FuncInfo):
  """Interprets an EagleStrategyUtils value-producing method on a finite model (each parameter type; values at and
  between the bounds; weights / perturbations far outside [0, 1]; both outcomes of every random draw) and returns
  (description of the first row whose result leaves the parameter's domain or None, number of rows)."""
  from vzstatic import pathcond
  import itertools
  cfgp = [p for p in m.params if p != 'self'][0]
  lo, hi = 2, 5
  fv_num = [2.0, 3.5, 5.0]
  fv_cat = ['a', 'b', 'c']
  types = ('DOUBLE', 'INTEGER', 'DISCRETE', 'CATEGORICAL')
  rows = 0
  prefixes = set()
  for x in ast.walk(m.node):
    d = dotted(x) if isinstance(x, ast.Attribute) else None
    if d and d.rsplit('.', 1)[-1] in types + ('CUSTOM',) and 'ParameterType' in d:
      prefixes.add(d.rsplit('.', 1)[0])
  if not prefixes:
    raise AnalysisError(f'{m.name}: no ParameterType dispatch found')
  others = [p for p in m.params if p not in ('self', cfgp)]
  for T in types:
    fv = fv_cat if T == 'CATEGORICAL' else fv_num
    vals = fv_cat[:2] if T == 'CATEGORICAL' else ([2, 5, 3] if T == 'INTEGER' else [2.0, 5.0, 3.5])
    for v1, v2, w, coin in itertools.product(vals, vals, (-1000.0, -0.5, 0.0, 0.3, 1.0, 1000.0), (0, 1)):
      env = {f'{cfgp}.type': T, f'{cfgp}.bounds': (lo, hi), f'{cfgp}.bounds[0]': lo, f'{cfgp}.bounds[1]': hi,
             f'{cfgp}.feasible_values': list(fv), f'{cfgp}.name': 'p'}
      for pre in prefixes:
        for t_ in types + ('CUSTOM',):
          env[f'{pre}.{t_}'] = t_
      # value-like and weight-like parameters by position: dict-like params are indexed by the config's name
      for p in others:
        env[p] = w
      if m.name == 'combine_two_parameters':
        env[f'{others[0]}[{cfgp}.name].value'] = v1
        env[f'{others[1]}[{cfgp}.name].value'] = v2
        env[others[2]] = w
      else:
        env[others[0]] = v1
        env[others[1]] = w

      def hook(c, env_, coin=coin, fv=fv):
        d = (dotted(c.func) or '').rsplit('.', 1)[-1]
        if d == 'get_closest_element' and len(c.args) == 2:
          arr, x = pathcond.neval(c.args[0], env_), pathcond.neval(c.args[1], env_)
          return min(arr, key=lambda a: abs(a - x))
        if d == 'sample_categorical':
          return pathcond.neval(c.args[1], env_)[coin]
        if d == 'sample_uniform':
          return 0.0 if coin else 0.999999
        if d == 'sample_bernoulli' and len(c.args) == 4:
          return pathcond.neval(c.args[2 + coin], env_)
        if d == 'round' and len(c.args) == 1:
          return round(pathcond.neval(c.args[0], env_))
        return NotImplemented
      env['__callhook__'] = hook
      rows += 1
      try:
        got = pathcond.run_concrete(m.node, env)
      except pathcond.Raised:
        continue
      except pathcond.NoValue as e:
        raise AnalysisError(f'{m.name}: cannot be evaluated on the finite model ({e})')
      in_dom = (got in fv) if T in ('DISCRETE', 'CATEGORICAL') else (isinstance(got, (int, float)) and lo <= got <= hi and
                                                                      (T != 'INTEGER' or float(got).is_integer()))
      if not in_dom:
        return (f'type {T}, bounds ({lo}, {hi}), feasible_values {fv if T in ("DISCRETE", "CATEGORICAL") else "-"}, values {v1!r}/{v2!r}, '
                f'weight or perturbation {w}: result {got!r}'), rows
  return None, rows


# ----------------------------------------------------------------------- R12
def r12_converter_precision(ctx) -> None:
  n = 0
  for f in DESIGNER_FILES:
    mi = ctx.index.module_of_file(f)
    for c in ast.walk(mi.tree):
      if not (isinstance(c, ast.Call) and 'onverter' in (dotted(c.func) or '')):
        continue
      n += 1
      narrow = next((k for k in c.keywords if k.arg == 'dtype' and any(w in unparse(k.value, 0) for w in ('float32', 'float16', 'bfloat16'))), None)
      ctx.check(narrow is None, 'R12', f'{f}: {unparse(c.func, 50)}(...)', c, 'default precision',
                f'`{unparse(narrow, 40) if narrow else ""}`: bounds beyond the range of the narrower type scale to inf/NaN, `to_parameters` leaves such a parameter '
                'out, and the suggestion lacks a parameter of the space', construct=f'{f}:narrow-converter', func=f)
  if n < 3:
    raise AnalysisError(f'only {n} converter constructions found in the hosted designers')


# ----------------------------------------------------------------------- R9
def r9_literal_values(ctx) -> None:
  """`parameters[p.name] = 'True' if .. else 'False'`: only correct for parameters whose feasible values are exactly those
  strings, i.e. BOOLEAN external type - the constructor must refuse everything else."""
  n = 0
  for f in DESIGNER_FILES:
    mi = ctx.index.module_of_file(f)
    for ci in mi.classes.values():
      lits = []
      for m in ci.methods.values():
        for x in ast.walk(m.node):
          if isinstance(x, ast.Assign) and any(isinstance(t, ast.Subscript) and 'param' in unparse(t.value, 0).lower() for t in x.targets):
            consts = [c.value for c in ast.walk(x.value) if isinstance(c, ast.Constant) and isinstance(c.value, str)]
            if consts and not isinstance(x.value, ast.Constant) or (isinstance(x.value, ast.Constant) and isinstance(x.value.value, str)):
              lits.append((m, x, consts))
      if not lits:
        continue
      n += 1
      init = ci.methods.get('__init__') or ci.methods.get('__attrs_post_init__')
      guard = False
      if init is not None:
        for t in ast.walk(init.node):
          if isinstance(t, ast.If) and t.body and isinstance(t.body[-1], ast.Raise):
            tst, neg = t.test, False
            while isinstance(tst, ast.UnaryOp) and isinstance(tst.op, ast.Not):
              tst, neg = tst.operand, not neg
            if isinstance(tst, ast.Compare) and len(tst.ops) == 1 and isinstance(tst.ops[0], (ast.NotEq, ast.Eq, ast.IsNot, ast.Is)):
              sides = [dotted(tst.left) or '', dotted(tst.comparators[0]) or '']
              ne = isinstance(tst.ops[0], (ast.NotEq, ast.IsNot)) != neg
              if ne and any(x.endswith('.external_type') for x in sides) and any(x.endswith('ExternalType.BOOLEAN') for x in sides):
                guard = True
      m, x, consts = lits[0]
      ctx.check(guard, 'R9', f'{ci.name}: literal values {sorted(set(consts))} only for BOOLEAN parameters', x,
                'the constructor raises for every parameter whose external type is not BOOLEAN',
                f'`{unparse(x, 70)}` writes the literal values {sorted(set(consts))}, but the constructor does not refuse parameters that are not '
                'declared BOOLEAN: for any other two-valued categorical parameter the suggestion carries a value outside its feasible values',
                construct=f'{ci.name}:literal-values', func=ci.qualname)
  if n < 1:
    raise AnalysisError('no designer writing literal parameter values found (BOCS and Harmonica on the pinned tree)')


# ----------------------------------------------------------------------- R8
def r8_grid_values(ctx) -> None:
  """The grid values (trusted by R4 as "enumerated from the config") really are: per type arm, every returned
  list is produced by the clipping decoder, or enumerates bounds / range(bounds) / feasible_values exactly."""
  ci = ctx.index.need_class('vizier._src.algorithms.designers.grid.GridSearchDesigner')
  fi = ci.methods.get('_grid_points_from_parameter_config') or ci.module.functions.get('_grid_points_from_parameter_config')
  if fi is None:
    raise AnalysisError('GridSearchDesigner._grid_points_from_parameter_config not found')
  g = cfgmod.CFG(fi.node)
  rd = flow.ReachingDefs(g)
  prov = flow.Provenance(g, rd, on_call=lambda c: 'all', on_attr=lambda a: 'through')
  rets = [r for r in ast.walk(fi.node) if isinstance(r, ast.Return) and r.value is not None]
  if len(rets) < 3:
    raise AnalysisError(f'_grid_points_from_parameter_config: only {len(rets)} returns (4 on the pinned tree)')
  for r in rets:
    o = prov.origins(r.value, g.node_of(r))
    calls = {(dotted(v.func) or '').split('.')[-1] for k, v in o if k == 'call'}
    attrs = {(dotted(v) or '') for k, v in o if k == 'attr'}
    trans = sorted(calls & set(_TRANSCENDENTAL))
    decoded = bool(calls & {'to_parameter_values', 'to_parameters'})
    clamped = bool(calls & {'clip'})
    from_cfg = any(a.endswith(('.bounds', '.feasible_values')) for a in attrs)
    inst = f'grid values returned at line {r.lineno}'
    if decoded or (clamped and from_cfg):
      ctx.ok('R8', inst, r, 'produced by the clipping decoder')
    elif trans:
      ctx.bad('R8', inst, r, f'grid points are computed through {trans} and returned without the clipping decoder or a clamp: '
              'exp(log(bound)) is not always the bound, so end points of LOG / REVERSE_LOG axes land an ulp outside [lo, hi]',
              construct=f'grid:{trans}', func=fi.qualname)
    elif from_cfg:
      bad_model = _grid_enumeration_model(fi, g, rd, r)
      ctx.check(bad_model is None, 'R8', inst, r, 'enumerates bounds / range(bounds) / feasible_values exactly (finite model)',
                f'the grid values are not the values of the configuration: {bad_model}: grid suggestions leave the domain '
                '(or values of the domain are never suggested)', construct='grid:enumeration', func=fi.qualname)
    else:
      raise AnalysisError(f'grid values at line {r.lineno}: provenance {sorted(calls)} / {sorted(attrs)} not recognised')
  r8_grid_whole_function(ctx, fi)


def _grid_enumeration_model(fi: FuncInfo, g, rd, r: ast.Return) -> Optional[str]:
  """Evaluates a returned `[ParameterValue(value=v) for v in ITER]` / `[ParameterValue(value=x)]` on small concrete
  configurations; returns a description of the first model on which the values are not exactly the integers of the
  bounds / the feasible values / a bound, or None."""
  from vzstatic import pathcond
  cfgp = [p for p in fi.params if p != 'self'][0]
  node = g.node_of(r)
  pths = pathcond.paths(g, [g.entry], node)
  if not pths:
    raise AnalysisError(f'grid values at line {r.lineno}: no path from the entry')
  expr = pathcond.substitute_on_path(pths[0], r.value)

  def strip(e):
    # ParameterValue(value=X) / ParameterValue(X) -> X
    class S(ast.NodeTransformer):
      def visit_Call(self, c):
        self.generic_visit(c)
        if (dotted(c.func) or '').endswith('ParameterValue'):
          kw = {k.arg: k.value for k in c.keywords}
          return kw.get('value', c.args[0] if c.args else c)
        return c
    import copy
    return S().visit(copy.deepcopy(e))
  expr = strip(expr)
  uses_feasible = any(isinstance(x, ast.Attribute) and x.attr == 'feasible_values' for x in ast.walk(expr))
  models = [((0, 0), [0.5]), ((0, 3), [1.5, 2.5, 7.0]), ((-2, 2), ['a', 'b'])]
  for (lo, hi), fv in models:
    env = {f'{cfgp}.bounds': (lo, hi), f'{cfgp}.feasible_values': list(fv), f'{cfgp}.bounds[0]': lo, f'{cfgp}.bounds[1]': hi}
    try:
      got = pathcond.neval(expr, env)
    except pathcond.NoValue as e:
      raise AnalysisError(f'grid values at line {r.lineno}: `{unparse(expr, 80)}` cannot be evaluated on the finite model ({e})')
    got = list(got) if isinstance(got, (list, tuple)) else [got]
    if uses_feasible:
      want = list(fv)
      if got != want:
        return f'with feasible_values={fv} the grid is {got}'
    elif len(got) == 1 and isinstance(r.value, ast.List):
      if not (lo <= got[0] <= hi):
        return f'with bounds=({lo}, {hi}) the single grid value is {got[0]}'
    else:
      want = list(range(lo, hi + 1))
      if got != want:
        return f'with bounds=({lo}, {hi}) the grid is {got}, expected {want}'
  return None


def r8_grid_whole_function(ctx, fi: FuncInfo) -> None:
  """The grid of a non-continuous parameter, with the whole function interpreted per parameter type on small and large
  configurations: exactly the integers of the bounds / the feasible values."""
  from vzstatic import pathcond
  cfgp = [p for p in fi.params if p != 'self'][0]
  prefixes = {d.rsplit('.', 1)[0] for x in ast.walk(fi.node) for d in [dotted(x) if isinstance(x, ast.Attribute) else None]
              if d and 'ParameterType' in d and d.rsplit('.', 1)[-1].isupper()}
  if not prefixes:
    raise AnalysisError('_grid_points_from_parameter_config: no ParameterType dispatch')

  def hook(c, env_):
    if (pathcond.dotted_name(c.func) or '').endswith('ParameterValue'):
      kw = {k.arg: k.value for k in c.keywords}
      return pathcond.neval(kw.get('value', c.args[0] if c.args else None), env_)
    return NotImplemented
  rows = 0
  for T, models in (('INTEGER', [((0, 0), None), ((-2, 2), None), ((16, 4096), None)]),
                    ('DISCRETE', [((1.5, 7.0), [1.5, 2.5, 7.0])]), ('CATEGORICAL', [(None, ['a', 'b'])])):
    for bounds, fv in models:
      env = {f'{cfgp}.type': T, '__callhook__': hook}
      for pre in prefixes:
        for t_ in ('DOUBLE', 'INTEGER', 'DISCRETE', 'CATEGORICAL', 'CUSTOM'):
          env[f'{pre}.{t_}'] = t_
      if bounds is not None:
        env[f'{cfgp}.bounds'] = bounds
        env[f'{cfgp}.bounds[0]'], env[f'{cfgp}.bounds[1]'] = bounds
      if fv is not None:
        env[f'{cfgp}.feasible_values'] = list(fv)
      rows += 1
      try:
        got = pathcond.run_concrete(fi.node, env, tolerant=True)
      except pathcond.Raised as r_:
        got = f'raise {r_}'
      except pathcond.NoValue as e:
        raise AnalysisError(f'grid points of a {T} parameter with bounds {bounds}: cannot be evaluated on the finite model ({e})')
      want = list(fv) if fv is not None else list(range(bounds[0], bounds[1] + 1))
      ok = isinstance(got, list) and got == want
      ctx.check(ok, 'R8', f'grid of a {T} parameter ({bounds or fv})', fi.node, 'exactly the values of the configuration',
                f'for a {T} parameter with bounds {bounds} / feasible values {fv} the grid is '
                f'{(str(got[:3]) + " .. " + str(got[-3:]) + f" ({len(got)} values)") if isinstance(got, list) and len(got) > 8 else got}, not the '
                f'{len(want)} values of the configuration: values outside the domain are suggested (or values of the domain never are)',
                construct=f'grid:{T}:{bounds or "fv"}', func=fi.qualname)
  ctx.count('grid_whole_function_rows', rows)


# ----------------------------------------------------------------------- R6
_TRANSCENDENTAL = ('exp', 'log', 'log2', 'log10', 'log1p', 'expm1', 'sqrt', 'pow', 'power', 'exp2')


def _is_midpoint(e: ast.AST) -> bool:
  """(X + Y) / 2  |  0.5 * (X + Y)  |  (X + Y) * 0.5  with X, Y the two bounds."""
  def is_sum(x):
    return isinstance(x, ast.BinOp) and isinstance(x.op, ast.Add) and \
        {unparse(x.left, 0)[-10:], unparse(x.right, 0)[-10:]} == {'.bounds[0]', '.bounds[1]'}
  def const(x, v):
    return isinstance(x, ast.Constant) and isinstance(x.value, (int, float)) and x.value == v
  if isinstance(e, ast.BinOp) and isinstance(e.op, ast.Div):
    return is_sum(e.left) and const(e.right, 2)
  if isinstance(e, ast.BinOp) and isinstance(e.op, ast.Mult):
    return (is_sum(e.left) and const(e.right, 0.5)) or (is_sum(e.right) and const(e.left, 0.5))
  return False


def r6_default(ctx) -> None:
  mod = ctx.index.need_module('vizier._src.pythia.suggest_default')
  fi = mod.functions.get('get_default_parameters')
  if fi is None:
    raise AnalysisError('get_default_parameters not found')
  # (1) every return hands out `<builder>.parameters` of a SequentialParameterBuilder built in this function
  builders = set()
  for n in ast.walk(fi.node):
    if isinstance(n, ast.Assign) and isinstance(n.value, ast.Call) and (dotted(n.value.func) or '').endswith('SequentialParameterBuilder'):
      builders |= {t.id for t in n.targets if isinstance(t, ast.Name)}
  rets = [r for r in ast.walk(fi.node) if isinstance(r, ast.Return) and r.value is not None]
  if not rets:
    raise AnalysisError('get_default_parameters: no return found')
  for r in rets:
    v = r.value
    ok = isinstance(v, ast.Attribute) and v.attr == 'parameters' and isinstance(v.value, ast.Name) and v.value.id in builders
    ctx.check(ok, 'R6', f'return at line {r.lineno}: parameters of the validating builder', r,
              'SequentialParameterBuilder.choose_value validates every value against its ParameterConfig (C16.R7)',
              f'`return {unparse(v, 70)}` hands out default/centre values that never went through '
              'SequentialParameterBuilder.choose_value: an out-of-domain default_value (the factory does not check it) '
              'becomes the first suggestion instead of being refused', construct='return-bypasses-builder', func=fi.qualname)
  stores = [x for x in ast.walk(fi.node) if isinstance(x, ast.Assign) and any(
      isinstance(tg, ast.Subscript) and 'parameters' in unparse(tg.value, 0) for tg in x.targets)]
  ctx.check(not stores, 'R6', 'no direct store into the builder\'s ParameterDict', stores[0] if stores else fi.node,
            'values enter only through choose_value', 'default parameters are written into the ParameterDict without validation',
            construct='direct-store', func=fi.qualname)
  # (2) the chosen values: follow module-level helpers; no transcendental round trips; midpoint shape
  exprs: List[Tuple[ast.AST, FuncInfo]] = []
  def collect(fn: FuncInfo, e: ast.AST, depth=0):
    if isinstance(e, ast.Call) and isinstance(e.func, ast.Name) and e.func.id in mod.functions and depth < 3:
      h = mod.functions[e.func.id]
      for rr in ast.walk(h.node):
        if isinstance(rr, ast.Return) and rr.value is not None:
          collect(h, rr.value, depth + 1)
      return
    if isinstance(e, ast.Name):
      defs = [n.value for n in ast.walk(fn.node) if isinstance(n, ast.Assign) and any(isinstance(t, ast.Name) and t.id == e.id for t in n.targets)]
      if defs and depth < 4:
        for d in defs:
          collect(fn, d, depth + 1)
        return
    exprs.append((e, fn))
  chooses = [c for c in flow.calls_in(fi.node) if isinstance(c.func, ast.Attribute) and c.func.attr == 'choose_value'
             and isinstance(c.func.value, ast.Name) and c.func.value.id in builders and c.args]
  if not chooses:
    raise AnalysisError('get_default_parameters: no builder.choose_value call found')
  for c in chooses:
    collect(fi, c.args[0])
  n_mid = 0
  for e, fn in exprs:
    trans = sorted({(dotted(x.func) or '').split('.')[-1] for x in ast.walk(e) if isinstance(x, ast.Call)} & set(_TRANSCENDENTAL))
    clamped = any(isinstance(x, ast.Call) and (dotted(x.func) or '').split('.')[-1] in ('clip', 'min', 'max') for x in ast.walk(e))
    ctx.check(not trans or clamped, 'R6', f'chosen value `{unparse(e, 50)}`', e,
              'taken from the config or computed with exact arithmetic',
              f'the seeded value is computed through {trans} without a final clamp: exp(log(x)) round trips overshoot a bound by an ulp '
              'for singleton or very narrow ranges, so the centre value is not in the domain', construct=f'choose:{trans}', func=fn.qualname)
    t = unparse(e, 0)
    if 'bounds[0]' in t and 'bounds[1]' in t and not trans:
      n_mid += 1
      ctx.check(_is_midpoint(e), 'R6', 'continuous default is the arithmetic midpoint of the bounds', e,
                '(lo + hi) / 2 lies in [lo, hi] for finite bounds',
                f'the centre value is computed as `{unparse(e, 60)}`, not as the midpoint (lo + hi) / 2 of the bounds',
                construct='midpoint', func=fn.qualname)
  if n_mid == 0 and not any('bounds' in unparse(e, 0) for e, _ in exprs):
    raise AnalysisError('get_default_parameters: centre of a continuous parameter not found')


_PF = 'vizier/_src/service/policy_factory.py'
VARIANTS = [
    Variant('drop-clip', C15.CORE, '      if self._should_clip:\n        value = np.clip(',
            '      if False:\n        value = np.clip(', rule='R1'),
    Variant('factory-drop-harmonica-arm', _PF,
            "    elif algorithm == 'HARMONICA':\n      from vizier._src.algorithms.designers import harmonica\n\n      return dp.DesignerPolicy(policy_supporter, harmonica.HarmonicaDesigner)\n", '', rule='R2'),
    Variant('factory-default-fallthrough', _PF, "    else:\n      raise ValueError(f'Algorithm {algorithm} is not registered.')",
            "    else:\n      from vizier._src.algorithms.policies import random_policy\n      return random_policy.RandomPolicy(policy_supporter)", rule='R2'),
    Variant('quasi-accepts-conditional', 'vizier/_src/algorithms/designers/quasi_random.py',
            "    if search_space.is_conditional:\n      raise ValueError(\n          f'This designer {self} does not support conditional search.'\n      )\n", '', rule='R3'),
    Variant('random-raw-floats', 'vizier/_src/algorithms/designers/random.py',
            'vz.TrialSuggestion(p) for p in self._converter.to_parameters(sample)',
            'vz.TrialSuggestion({k: float(v[i, 0]) for k, v in sample.items()}) for i in range(count)', rule='R4'),
    Variant('unmap-without-decoder', 'vizier/pyvizier/converters/embedder.py',
            '          parameters[name] = param_converter.to_parameter_values(\n              np.array(value)\n          )[0]',
            '          parameters[name] = float(param_converter.scaler.backward_fn(np.array(value)))', rule='R5'),
    Variant('benign-rename', 'vizier/_src/algorithms/designers/random.py', 'sample', 'drawn', expect='silent', count=5),
]
