"""C20 — benchmark experimenters evaluate faithfully and leave suggestions intact.

Structural clauses:
  R1 by-value problem statements: every problem_statement() of every
     Experimenter subclass returns copy.deepcopy(..), an object constructed in
     the function, or the (inductively by-value) result of another
     experimenter's problem_statement(); a bare attribute of self or a shallow
     copy is a violation;
  R2 save / transform / delegate / restore: every wrapper whose evaluate()
     rebinds suggestion.parameters before delegating captures the original
     parameter objects first and re-installs them after the delegate call on
     every normal path (or delegates on a deep copy of the suggestions);
  R3 the permutation is a bijection by construction (zip(E, rng.permuted(E))
     over the same expression E) and the seed reaches the generator;
  R4 sign flip: both goal arms are swapped, objective values are multiplied by
     the literal -1.0, nothing else changes;
  R5 NumpyExperimenter evaluates on raw values (scale=False,
     flip_sign_for_minimization_metrics=False) and every path of evaluate()
     completes the trial with the configured metric or marks it infeasible;
  R6 the shifting wrapper restricts the declared bounds on the correct side.
The algebraic relations at each point are not decided.
"""

from __future__ import annotations

import ast
from typing import Dict, List, Optional, Set

from vzstatic import cfg as cfgmod
from vzstatic import flow
from vzstatic.index import ClassInfo, FuncInfo, dotted
from vzstatic.selftest import Variant
from vzstatic.source import AnalysisError, ancestors, loc, unparse

MANIFEST = {
    'technique': ('return-provenance (fresh / deep copy / delegated) of every problem_statement(), '
                  'save-transform-delegate-restore typestate on the CFG of the wrapper evaluate()s, '
                  'same-expression check of the permutation table, structural checks of sign flip, '
                  'numpy converter options and bound restriction'
                  '; shifted bounds evaluated on a finite sample grid along CFG paths; shared C14.R1'
                  '; stateless-evaluate lint, row-at-a-time call of the wrapped function, broken-swap lint'),
    'level_text': (
        'Static: every experimenter returns its problem statement by value; every wrapper that '
        'rewrites the suggested parameters restores the original objects after delegating; the '
        'permutation table is a bijection by construction and seeded; the sign-flip wrapper swaps '
        'both goals and negates with -1.0; the numpy experimenter evaluates raw values and always '
        'completes or marks infeasible. Necessary for "leave suggestions intact / by value / '
        'transform only what is documented". Pointwise objective identities are not decided.'),
    'level_note': 'Trusted: copy.deepcopy is deep; Generator.permuted returns a permutation of its argument.',
}

EXP = 'vizier._src.benchmarks.experimenters.experimenter.Experimenter'
DIR = 'vizier/_src/benchmarks/experimenters'


def run(ctx) -> None:
  ctx.rule('R1', 'problem_statement() returns by value (deepcopy / constructed / delegated)', 20)
  ctx.rule('R2', 'wrappers that rebind suggestion.parameters restore the originals after delegating', 3)
  ctx.rule('R3', 'permutation table is zip(E, rng.permuted(E)) over one expression; seed reaches the rng', 2)
  ctx.rule('R4', 'sign flip swaps both goals and multiplies objective values by -1.0', 2)
  ctx.rule('R5', 'NumpyExperimenter: raw-value converter; every path completes or marks infeasible', 2)
  ctx.rule('R6', 'shifting wrapper shrinks the declared bounds on the side the shift leaves', 1)
  ctx.rule('R8', 'every given trial is completed: completing loops range over the whole argument, not a filtered sub-list', 8)
  ctx.rule('R10', 'evaluate() keeps nothing on the experimenter between calls (no memo of measurements / results on self)', 15)
  ctx.rule('R11', 'NumpyExperimenter calls the wrapped function with one feature row at a time', 1)
  ctx.rule('R15', 'a wrapper stores the experimenter it was given (it does not look inside it, unwrap it or branch on its class)', 5)
  ctx.rule('R14', 'a wrapper around one experimenter hands it the caller\'s own trial objects (what the base records on them - '
           'measurement, infeasibility - is what the caller sees)', 5)
  ctx.rule('R13', 'a value that comes out of a memoised function (lru_cache / cache) is never modified in place by its callers', 0)
  ctx.rule('R12', 'mirrored bounds / ranges are swapped through temporaries or a tuple assignment (no `a = f(b); b = f(a)`)', 1)
  ctx.rule('R9', 'feature rows are built by parameter name, never from the iteration order of a trial\'s parameter dict', 1)
  ctx.import_rules('C14', {'R1'}, 'R7', 'seeded noise/permutation wrappers use no ambient entropy (process hash seed, clock, global RNG)')
  subs = [c for c in ctx.index.subclasses(EXP) if c.file.startswith(DIR)]
  if len(subs) < 20:
    raise AnalysisError(f'only {len(subs)} Experimenter subclasses found under {DIR}')
  r1_by_value(ctx, subs)
  r2_restore(ctx, subs)
  r3_permutation(ctx)
  r4_sign_flip(ctx)
  r5_numpy(ctx)
  r6_shift(ctx)
  r8_all_given_trials(ctx, subs)
  r9_by_name(ctx, subs)
  r10_stateless_evaluate(ctx, subs)
  r11_row_at_a_time(ctx)
  r12_no_broken_swap(ctx, subs)
  r13_cached_values_not_mutated(ctx)
  r14_delegation_by_reference(ctx, subs)
  r15_wrappers_wrap_what_they_are_given(ctx, subs)


# ----------------------------------------------------------------------- R1
def r1_by_value(ctx, subs: List[ClassInfo]) -> None:
  for ci in subs:
    m = ci.methods.get('problem_statement')
    if m is None:
      continue
    if all(isinstance(s, (ast.Pass, ast.Raise)) or (isinstance(s, ast.Expr) and isinstance(s.value, ast.Constant)) for s in m.node.body):
      continue
    g = cfgmod.CFG(m.node)
    rd = flow.ReachingDefs(g)

    def fresh(e: ast.AST, node, depth=0) -> Optional[str]:
      """None if by value, else a reason."""
      if depth > 6:
        return 'unresolved'
      if isinstance(e, ast.Call):
        d = dotted(e.func) or ''
        if d == 'copy.deepcopy':
          return None
        if d == 'copy.copy' or (isinstance(e.func, ast.Attribute) and e.func.attr == 'copy'):
          return f'`{unparse(e, 50)}` is a shallow copy: search space, metric information and metadata stay shared'
        if isinstance(e.func, ast.Attribute) and e.func.attr == 'problem_statement':
          return None  # by induction
        return None  # constructor / factory call: a new object
      if isinstance(e, ast.Name):
        defs = [d for d in rd.at(node, e.id) if d.kind in ('assign', 'for', 'with')]
        if not defs:
          return f'`{e.id}` is not a local object'
        for d in defs:
          v = d.value
          r = fresh(v, g.nodes[d.node_id], depth + 1) if v is not None else 'unknown'
          if r:
            return r
        return None
      if isinstance(e, ast.Attribute):
        dd = dotted(e) or ''
        if dd.startswith('self.'):
          return f'returns `{dd}` itself: callers can corrupt the experimenter\'s own problem statement'
        return fresh(e.value, node, depth + 1)
      if isinstance(e, ast.IfExp):
        return fresh(e.body, node, depth + 1) or fresh(e.orelse, node, depth + 1)
      return None

    probs = []
    for n in g.nodes:
      if n.kind == 'stmt' and isinstance(n.ast, ast.Return) and n.ast.value is not None:
        r = fresh(n.ast.value, n)
        if r:
          probs.append((n, r))
    if probs:
      n, r = probs[0]
      ctx.bad('R1', f'{ci.name}.problem_statement', n.ast, r, construct=f'{ci.name}.problem_statement', func=m.qualname)
    else:
      ctx.ok('R1', f'{ci.name}.problem_statement', m.node, 'returns a private copy / new object')


# ----------------------------------------------------------------------- R2
def r2_restore(ctx, subs: List[ClassInfo]) -> None:
  n_wrappers = 0
  for ci in subs:
    m = ci.methods.get('evaluate')
    if m is None:
      continue
    closure = [m] + [ctx.index.find_method(ci, (dotted(c.func) or '')[5:]) for c in flow.calls_in(m.node)
                     if (dotted(c.func) or '').startswith('self._') and (dotted(c.func) or '').count('.') == 1]
    closure = [x for x in closure if x is not None]
    rebinds = any(isinstance(x, ast.Assign) and any(isinstance(t, ast.Attribute) and t.attr == 'parameters' for t in x.targets)
                  for f in closure for x in ast.walk(f.node))
    delegates = [c for c in flow.calls_in(m.node) if isinstance(c.func, ast.Attribute) and c.func.attr == 'evaluate'
                 and (dotted(c.func.value) or '').startswith(('self._', 'self.')) or
                 (isinstance(c.func, ast.Attribute) and c.func.attr == 'evaluate' and isinstance(c.func.value, ast.Name))]
    if not rebinds or not delegates:
      continue
    n_wrappers += 1
    g = cfgmod.CFG(m.node)
    dom = g.dominators()
    deleg_nodes = [n for n in g.nodes if any(c in delegates for c in flow.node_calls(n))]
    # accepted idiom 2: delegate on a deep copy of the suggestions
    on_copy = False
    for c in delegates:
      if c.args and isinstance(c.args[0], ast.Name):
        v = c.args[0].id
        on_copy = any(isinstance(x, ast.Assign) and any(isinstance(t, ast.Name) and t.id == v for t in x.targets)
                      and isinstance(x.value, ast.Call) and dotted(x.value.func) == 'copy.deepcopy' for x in ast.walk(m.node))
    if on_copy:
      ctx.ok('R2', f'{ci.name}.evaluate', m.node, 'delegates on a deep copy of the suggestions')
      continue
    # idiom 1: save before first rebind, restore loop after delegate on every normal path
    saves = [n for n in g.nodes if n.kind == 'stmt' and any(
        isinstance(x, ast.Attribute) and x.attr == 'parameters' and isinstance(x.ctx, ast.Load) for x in ast.walk(n.ast))
        and (isinstance(n.ast, ast.Assign) or any(isinstance(c.func, ast.Attribute) and c.func.attr == 'append' for c in flow.node_calls(n)))]
    restores = [n for n in g.nodes if n.kind == 'stmt' and isinstance(n.ast, ast.Assign) and any(
        isinstance(t, ast.Attribute) and t.attr == 'parameters' for t in n.ast.targets)
        and deleg_nodes and deleg_nodes[0].id in dom[n.id]]
    # every rewrite before the delegate (a direct `.parameters = ...` store, or a call to a helper of
    # self that rebinds parameters) is dominated by a save of the original object
    helper_names = {f.name for f in closure if f is not m and any(
        isinstance(x, ast.Assign) and any(isinstance(t, ast.Attribute) and t.attr == 'parameters' for t in x.targets)
        for x in ast.walk(f.node))}
    rewrites = [n for n in g.nodes if n.kind == 'stmt' and deleg_nodes and deleg_nodes[0].id not in dom[n.id] and (
        (isinstance(n.ast, ast.Assign) and any(isinstance(t, ast.Attribute) and t.attr == 'parameters' for t in n.ast.targets))
        or any((dotted(c.func) or '')[5:] in helper_names for c in flow.node_calls(n) if (dotted(c.func) or '').startswith('self.')))]
    saved_first = bool(saves) and bool(rewrites) and all(any(sv.id in dom[r.id] and sv is not r for sv in saves) for r in rewrites)
    # restore loop is on every normal path after the delegate: the for header post-dominates the delegate
    restore_loops = [n for n in g.nodes if n.kind == 'for' and any(r in g.reachable([n]) for r in restores)
                     and deleg_nodes and deleg_nodes[0].id in dom[n.id]]
    every_path = bool(restore_loops) and g.exit not in g.reachable(deleg_nodes, blocked=restore_loops)
    # restored objects are the saved ones: loop zips the saved list with the suggestions
    same = False
    for lp in restore_loops:
      it = unparse(lp.ast.iter, 0)
      saved_names = set()
      for s in saves:
        if isinstance(s.ast, ast.Assign):
          saved_names |= {t.id for t in s.ast.targets if isinstance(t, ast.Name)}
        for c in flow.node_calls(s):
          if isinstance(c.func, ast.Attribute) and c.func.attr == 'append' and isinstance(c.func.value, ast.Name):
            saved_names.add(c.func.value.id)
      if it.startswith('zip(') and any(nm in it for nm in saved_names) and 'suggestions' in it:
        same = True
    ok = saved_first and every_path and same
    ctx.check(ok, 'R2', f'{ci.name}.evaluate', m.node,
              'original parameter objects saved before the rewrite and re-installed after the delegate on every path',
              ('the original parameters are not captured before they are rewritten' if not saved_first else
               'no restore loop over the saved parameters runs on every path after the delegate call' if not every_path else
               'the restore loop does not re-install the saved parameter objects') +
              ': callers see their suggestions with transformed (shifted / permuted / discretised) parameters',
              construct=f'{ci.name}.evaluate', func=m.qualname)
  if n_wrappers < 3:
    raise AnalysisError(f'only {n_wrappers} parameter-rewriting wrappers found')


# ----------------------------------------------------------------------- R3
def r3_permutation(ctx) -> None:
  ci = ctx.index.need_class('vizier._src.benchmarks.experimenters.permuting_experimenter.PermutingExperimenter')
  init = ci.methods['__init__']
  # the table: any mapping built from zip(E, P) where P is (a local holding) <rng>.permuted(E) / permutation(E) of the
  # *same* expression E - as a dict comprehension over the zip, or dict(zip(E, P))
  perm_src = None
  ok = False
  zips = [z for z in ast.walk(init.node) if isinstance(z, ast.Call) and dotted(z.func) == 'zip' and len(z.args) == 2]
  for z in zips:
    keys_e, vals_e = z.args
    pv = flow.resolve_local(init.node, vals_e)
    if not (isinstance(pv, ast.Call) and isinstance(pv.func, ast.Attribute) and pv.func.attr in ('permuted', 'permutation') and pv.args):
      continue
    perm_src = (None, unparse(pv.args[0], 0), dotted(pv.func.value))
    same = unparse(flow.resolve_local(init.node, keys_e), 0) == unparse(flow.resolve_local(init.node, pv.args[0]), 0)
    par = getattr(z, '_vz_parent', None)
    as_dict = isinstance(par, ast.Call) and dotted(par.func) == 'dict' and par.args and par.args[0] is z
    as_comp = False
    if isinstance(par, ast.comprehension):
      comp = getattr(par, '_vz_parent', None)
      if isinstance(comp, ast.DictComp) and isinstance(par.target, ast.Tuple) and len(par.target.elts) == 2 and not par.ifs:
        as_comp = [unparse(t, 0) for t in par.target.elts] == [unparse(comp.key, 0), unparse(comp.value, 0)]
    ok = ok or (same and (as_dict or as_comp))
  ctx.check(ok, 'R3', 'permutation table is a bijection by construction', init.node,
            'mapping over zip(E, rng.permuted(E)) for one expression E',
            'the permutation table is not built from an expression and a permutation of that same expression: '
            'it need not be a bijection of the feasible values', construct='perm-table', func=init.qualname)
  seeded = any(isinstance(x, ast.Call) and (dotted(x.func) or '').endswith('default_rng') and x.args
               and isinstance(x.args[0], ast.Name) and x.args[0].id == 'seed' for x in ast.walk(init.node))
  uses_rng = perm_src is not None and perm_src[2] == 'self._rng'
  ctx.check(seeded and uses_rng, 'R3', 'permutation is drawn from the seeded generator', init.node, 'default_rng(seed) -> permuted',
            'the seed does not reach the generator that draws the permutation', construct='perm-seed', func=init.qualname)


# ----------------------------------------------------------------------- R4
def r4_sign_flip(ctx) -> None:
  ci = ctx.index.need_class('vizier._src.benchmarks.experimenters.sign_flip_experimenter.SignFlipExperimenter')
  ps = ci.methods['problem_statement']
  # member-wise: with the metric's goal bound to MAXIMIZE / MINIMIZE, which goal does the loop body store?
  from vzstatic import enumeval
  stores = [x for x in ast.walk(ps.node) if isinstance(x, ast.Assign) and any(isinstance(t_, ast.Attribute) and t_.attr == 'goal' for t_ in x.targets)]
  if not stores:
    raise AnalysisError('SignFlipExperimenter.problem_statement: no store into <metric>.goal')
  var = unparse(next(t_ for t_ in stores[0].targets if isinstance(t_, ast.Attribute)).value, 0)
  loop = next((a for a in ancestors(stores[0]) if isinstance(a, ast.For)), None)
  body = loop.body if loop is not None else ps.node.body
  tables = dict(ps.module.assigns)
  flipped = {}
  for member, other in (('MAXIMIZE', 'MINIMIZE'), ('MINIMIZE', 'MAXIMIZE')):
    binding = {f'{var}.goal': member, f'{var}.goal.is_maximize': member == 'MAXIMIZE', f'{var}.goal.is_minimize': member == 'MINIMIZE'}

    def tev(t_, binding=binding):
      # membership in a module-level table: decided on the table's keys
      if isinstance(t_, ast.Compare) and len(t_.ops) == 1 and isinstance(t_.ops[0], (ast.In, ast.NotIn)) \
          and isinstance(t_.comparators[0], ast.Name) and isinstance(tables.get(t_.comparators[0].id), ast.Dict):
        keys = ast.Tuple(elts=list(tables[t_.comparators[0].id].keys), ctx=ast.Load())
        t_ = ast.Compare(left=t_.left, ops=t_.ops, comparators=[keys])
      v_ = enumeval.eval_test(t_, binding)
      if v_ is None and not any(var in unparse(x_, 0) for x_ in ast.walk(t_) if isinstance(x_, (ast.Attribute, ast.Name))):
        return True  # a test that does not look at the metric (e.g. "flip this metric?") : the flipping case
      return v_
    tr = enumeval.trace(body, tev)
    got = None
    for st_ in (tr or []):
      if isinstance(st_, ast.Assign) and any(isinstance(t_, ast.Attribute) and t_.attr == 'goal' and unparse(t_.value, 0) == var for t_ in st_.targets):
        got = enumeval.value_of(st_.value, binding, tables)
    flipped[member] = got
  swap_ok = flipped == {'MAXIMIZE': 'MINIMIZE', 'MINIMIZE': 'MAXIMIZE'}
  ctx.check(swap_ok, 'R4', 'goals swapped in both directions', ps.node,
            'MAXIMIZE -> MINIMIZE and MINIMIZE -> MAXIMIZE',
            f'member-wise the stored goal is {flipped}: one goal direction is not swapped, flipping twice is not the identity',
            construct='goal-swap', func=ps.qualname)
  ev = ci.methods['evaluate']
  muls = [x for x in ast.walk(ev.node) if isinstance(x, ast.BinOp) and isinstance(x.op, ast.Mult)]
  ok = bool(muls) and all(
      any(isinstance(s, ast.UnaryOp) and isinstance(s.op, ast.USub) and isinstance(s.operand, ast.Constant) and s.operand.value == 1.0
          or (isinstance(s, ast.Constant) and s.value == -1.0) for s in (m.left, m.right)) for m in muls)
  ctx.check(ok, 'R4', 'objective values multiplied by -1.0', ev.node, f'{len(muls)} multiplication(s) by -1.0',
            'metric values are not negated by exactly -1.0', construct='negate', func=ev.qualname)


# ----------------------------------------------------------------------- R5
def r5_numpy(ctx) -> None:
  ci = ctx.index.need_class('vizier._src.benchmarks.experimenters.numpy_experimenter.NumpyExperimenter')
  init = ci.methods['__init__']
  kw = {}
  for c in flow.calls_in(init.node):
    if (dotted(c.func) or '').endswith('from_study_config'):
      kw = {k.arg: unparse(k.value, 0) for k in c.keywords}
  ok = kw.get('scale') == 'False' and kw.get('flip_sign_for_minimization_metrics') == 'False'
  ctx.check(ok, 'R5', 'converter evaluates raw parameter values', init.node, 'scale=False, flip_sign_for_minimization_metrics=False',
            f'converter options {kw}: the base objective is evaluated on scaled / sign-flipped values', construct='converter', func=init.qualname)
  ev = ci.methods['evaluate']
  g = cfgmod.CFG(ev.node)
  completes = [n for n in g.nodes if any(isinstance(c.func, ast.Attribute) and c.func.attr == 'complete' for c in flow.node_calls(n))]
  loop = [n for n in g.nodes if n.kind == 'for']
  every = bool(loop) and bool(completes)
  if every:
    # within one iteration: from the loop header's body entry back to the header, a complete() is unavoidable
    body_entry = [m for m, lab in loop[0].succs if lab == 'T']
    every = loop[0] not in g.reachable(body_entry, blocked=completes, include_starts=False) or all(b in completes for b in body_entry)
  named = any(isinstance(c, ast.Call) and isinstance(c.func, ast.Attribute) and c.func.attr == 'complete'
              and 'self._metric_name' in unparse(c, 0) for c in ast.walk(ev.node))
  infeas = any(isinstance(c, ast.Call) and isinstance(c.func, ast.Attribute) and c.func.attr == 'complete'
               and any(k.arg == 'infeasibility_reason' for k in c.keywords) for c in ast.walk(ev.node))
  ctx.check(every and named and infeas, 'R5', 'every trial is completed with the configured metric or marked infeasible', ev.node,
            'complete(Measurement({metric: val})) or complete(..., infeasibility_reason=...) on every path of the loop body',
            'a path through evaluate() leaves a trial neither completed nor infeasible (or uses another metric name)',
            construct='complete', func=ev.qualname)


# ----------------------------------------------------------------------- R8
def r10_stateless_evaluate(ctx, subs: List[ClassInfo]) -> None:
  n = 0
  for ci in subs:
    ev = ci.methods.get('evaluate')
    if ev is None:
      continue
    n += 1
    kept = None
    for x in ast.walk(ev.node):
      tgs = x.targets if isinstance(x, ast.Assign) else [x.target] if isinstance(x, (ast.AugAssign, ast.AnnAssign)) else []
      for t in tgs:
        if isinstance(t, ast.Subscript) and (dotted(t.value) or '').startswith('self._') and 'rng' not in (dotted(t.value) or ''):
          kept = kept or x
      if isinstance(x, ast.Call) and isinstance(x.func, ast.Attribute) and x.func.attr in ('setdefault', 'append', 'add', 'update', 'extend') \
          and (dotted(x.func.value) or '').startswith('self._') and dotted(x.func.value).count('.') == 1:
        kept = kept or x
    ctx.check(kept is None, 'R10', f'{ci.name}.evaluate keeps no results', ev.node, 'no container of the experimenter is written while evaluating',
              f'`{unparse(kept, 70) if kept is not None else ""}` stores a result on the experimenter: a later evaluation of the same point is answered '
              'from it, and because wrappers rewrite the stored measurement in place (sign flip, noise, normalisation) the second answer differs '
              'from f(x)', construct=f'{ci.name}:evaluate-memo', func=ev.qualname)
  if n < 15:
    raise AnalysisError(f'only {n} evaluate() methods examined')


def r11_row_at_a_time(ctx) -> None:
  ci = ctx.index.need_class('vizier._src.benchmarks.experimenters.numpy_experimenter.NumpyExperimenter')
  bad = None
  n = 0
  for m in ci.methods.values():
    g = None
    for c in flow.calls_in(m.node):
      if dotted(c.func) != 'self.impl' or not c.args:
        continue
      n += 1
      a = c.args[0]
      row = False
      if isinstance(a, ast.Subscript) and not isinstance(a.slice, ast.Slice):
        row = True
      if isinstance(a, ast.Name):
        # a loop / comprehension variable ranging over the feature matrix
        for anc in ancestors(c):
          if isinstance(anc, (ast.For,)) and any(isinstance(t, ast.Name) and t.id == a.id for t in ast.walk(anc.target)):
            row = True
          if isinstance(anc, (ast.ListComp, ast.GeneratorExp)) and any(
              isinstance(t, ast.Name) and t.id == a.id for gen in anc.generators for t in ast.walk(gen.target)):
            row = True
      if not row:
        bad = bad or c
  if n < 1:
    raise AnalysisError('NumpyExperimenter: no call of self.impl found')
  ctx.check(bad is None, 'R11', 'NumpyExperimenter: impl(features[i])', ci.node, f'{n} call(s), each with a single row',
            f'`{unparse(bad, 50) if bad is not None else ""}` hands the whole feature matrix to a function documented for one point: a function that happens '
            'to accept a matrix (indexing x[i] picks rows instead of coordinates) returns values that mix the coordinates of different trials',
            construct='impl-on-batch', func=ci.qualname)


def r15_wrappers_wrap_what_they_are_given(ctx, subs: List[ClassInfo]) -> None:
  n = 0
  for ci in subs:
    init = ci.methods.get('__init__')
    if init is None:
      continue
    stores = [x for x in ast.walk(init.node) if isinstance(x, ast.Assign) and any(dotted(t) in ('self._exptr', 'self._experimenter') for t in x.targets)]
    if not stores:
      continue
    n += 1
    par = next((p_ for p_ in init.params if p_ in ('exptr', 'experimenter')), None) or (init.params[1] if len(init.params) > 1 else None)
    bad = None
    for x in stores:
      if not (isinstance(x.value, ast.Name) and x.value.id == par):
        bad = bad or x
    rebinds = [x for x in ast.walk(init.node) if isinstance(x, ast.Assign) and any(isinstance(t, ast.Name) and t.id == par for t in x.targets)]
    peeks = [x for x in ast.walk(init.node) if isinstance(x, ast.Attribute) and isinstance(x.value, ast.Name) and x.value.id == par and x.attr.startswith('_')]
    bad = bad or (rebinds[0] if rebinds else None) or (peeks[0] if peeks else None)
    ctx.check(bad is None, 'R15', f'{ci.name}.__init__ stores the experimenter it is given', init.node, f'self._exptr = {par}',
              f'`{unparse(bad, 60) if bad is not None else ""}`: the wrapper looks inside / replaces the experimenter it was given (e.g. unwraps a wrapper of its own kind): '
              'a stack of three or more such wrappers no longer composes - Flip(Flip(Flip(e))) behaves like e', construct=f'{ci.name}:unwraps',
              func=init.qualname)
  if n < 5:
    raise AnalysisError(f'only {n} single-experimenter wrapper constructors found')


def r14_delegation_by_reference(ctx, subs: List[ClassInfo]) -> None:
  n = 0
  for ci in subs:
    ev = ci.methods.get('evaluate')
    if ev is None or len(ev.params) < 2:
      continue
    par = ev.params[1]
    for c in flow.calls_in(ev.node):
      if not (isinstance(c.func, ast.Attribute) and c.func.attr == 'evaluate' and (dotted(c.func.value) or '') in ('self._exptr', 'self._experimenter')
              and c.args):
        continue
      n += 1
      a = flow.resolve_local(ev.node, c.args[0])
      same = isinstance(a, ast.Name) and a.id == par
      if not same:
        # copies are fine when the whole outcome is handed back: complete(<copy>.final_measurement,
        # infeasibility_reason=<copy>.infeasibility_reason)
        same = any(isinstance(cc.func, ast.Attribute) and cc.func.attr == 'complete' and any(
            k.arg == 'infeasibility_reason' and isinstance(k.value, ast.Attribute) and k.value.attr == 'infeasibility_reason'
            for k in cc.keywords) and cc.args and isinstance(cc.args[0], ast.Attribute) and cc.args[0].attr == 'final_measurement'
                   for cc in flow.calls_in(ev.node))
      ctx.check(same, 'R14', f'{ci.name}.evaluate delegates with the given trials', c, f'inner evaluate({par})',
                f'the wrapped experimenter is given `{unparse(a, 50)}` instead of the caller\'s trials: whatever it records on its copies '
                '(an infeasible completion in particular) has to be copied back field by field, and what is not copied is lost - '
                'an infeasible evaluation comes back as an ordinary completed trial', construct=f'{ci.name}:delegates-copies', func=ev.qualname)
  if n < 5:
    raise AnalysisError(f'only {n} single-experimenter wrappers delegating evaluate() found')


def r13_cached_values_not_mutated(ctx) -> None:
  n = 0
  for f in ctx.src.py_files():
    if not f.startswith(DIR):
      continue
    mi = ctx.index.module_of_file(f)
    cached = set()
    fns = list(mi.functions.values()) + [m for c in mi.classes.values() for m in c.methods.values()]
    for fi in fns:
      for d in getattr(fi.node, 'decorator_list', []):
        t = unparse(d, 0)
        if 'lru_cache' in t or t in ('functools.cache', 'cache') or 'memoize' in t.lower():
          cached.add(fi.name)
    if not cached:
      continue
    for fi in fns:
      bound = {}
      for x in ast.walk(fi.node):
        if isinstance(x, ast.Assign) and len(x.targets) == 1 and isinstance(x.targets[0], ast.Name) and isinstance(x.value, ast.Call):
          callee = (dotted(x.value.func) or '').rsplit('.', 1)[-1]
          if callee in cached:
            bound[x.targets[0].id] = callee
      if not bound:
        continue
      n += 1
      mut = None
      for x in ast.walk(fi.node):
        if isinstance(x, ast.AugAssign) and isinstance(x.target, ast.Name) and x.target.id in bound:
          mut = mut or x
        if isinstance(x, (ast.Assign, ast.AugAssign)):
          for t in (x.targets if isinstance(x, ast.Assign) else [x.target]):
            if isinstance(t, ast.Subscript) and isinstance(t.value, ast.Name) and t.value.id in bound:
              mut = mut or x
        if isinstance(x, ast.Call) and isinstance(x.func, ast.Attribute) and isinstance(x.func.value, ast.Name) and x.func.value.id in bound \
            and x.func.attr in ('sort', 'fill', 'resize', 'append', 'extend', 'update', 'clear', 'pop', 'itemset', 'put'):
          mut = mut or x
      ctx.check(mut is None, 'R13', f'{fi.qualname}: memoised value used read-only', fi.node, 'no in-place operation on the cached object',
                f'`{unparse(mut, 60) if mut is not None else ""}` changes in place an object that a memoised function hands out: the cache now holds the modified '
                'object, so every later evaluation (of this and of every other function sharing the cached value) computes with a different value',
                construct=f'{fi.name}:cached-value-mutated', func=fi.qualname)
  ctx.count('functions_using_memoised_values', n)


def r12_no_broken_swap(ctx, subs: List[ClassInfo]) -> None:
  n = 0
  for ci in subs:
    for m in ci.methods.values():
      for blk in [x for x in ast.walk(m.node) if hasattr(x, 'body') and isinstance(getattr(x, 'body'), list)]:
        for lst in (blk.body, getattr(blk, 'orelse', [])):
          if not isinstance(lst, list):
            continue
          for s1, s2 in zip(lst, lst[1:]):
            if not (isinstance(s1, ast.Assign) and isinstance(s2, ast.Assign) and len(s1.targets) == 1 and len(s2.targets) == 1):
              continue
            a, b = unparse(s1.targets[0], 0), unparse(s2.targets[0], 0)
            if a == b or isinstance(s1.targets[0], ast.Tuple):
              continue
            reads1 = {unparse(x, 0) for x in ast.walk(s1.value) if isinstance(x, (ast.Attribute, ast.Name, ast.Subscript))}
            reads2 = {unparse(x, 0) for x in ast.walk(s2.value) if isinstance(x, (ast.Attribute, ast.Name, ast.Subscript))}
            if b in reads1 and a in reads2:
              n += 1
              ctx.bad('R12', f'{ci.name}.{m.name}: `{a}` / `{b}`', s2,
                      f'`{unparse(s1, 50)}` followed by `{unparse(s2, 50)}`: the second statement reads the value the first one has just overwritten, so the pair is '
                      'not the intended exchange (a mirrored range [lo, hi] becomes [-hi, hi]); applying the wrapper twice no longer gives back the original',
                      construct=f'{ci.name}.{m.name}:broken-swap', func=m.qualname)
  ctx.ok('R12', 'experimenters: no sequential exchange through an overwritten value', DIR, f'{n} suspicious pair(s)') if n == 0 else None


def r8_all_given_trials(ctx, subs: List[ClassInfo]) -> None:
  """evaluate() completes every trial it is given: a loop that completes its loop variable ranges over the whole
  `suggestions` argument (possibly through enumerate / zip / a deep copy), never over a filtered sub-list, and no early
  return skips the batch."""
  n = 0
  for ci in subs:
    ev = ci.methods.get('evaluate')
    if ev is None or len(ev.params) < 2:
      continue
    par = ev.params[1]
    g = cfgmod.CFG(ev.node)
    rd = flow.ReachingDefs(g)
    for loop in [x for x in g.nodes if x.kind == 'for']:
      tv = {t.id for t in ast.walk(loop.ast.target) if isinstance(t, ast.Name)}
      completes = [c for st in loop.ast.body for c in ast.walk(st) if isinstance(c, ast.Call) and isinstance(c.func, ast.Attribute)
                   and c.func.attr == 'complete' and isinstance(c.func.value, ast.Name) and c.func.value.id in tv]
      if not completes:
        continue
      n += 1
      it = flow.unfold(loop.ast.iter, loop, g, rd)
      filt = [x for x in ast.walk(it) if (isinstance(x, (ast.ListComp, ast.GeneratorExp, ast.SetComp)) and any(gen.ifs for gen in x.generators))
              or (isinstance(x, ast.Call) and dotted(x.func) in ('filter', 'itertools.filterfalse', 'itertools.compress', 'itertools.takewhile', 'itertools.dropwhile'))
              or (isinstance(x, ast.Subscript) and isinstance(x.slice, ast.Slice))]
      whole = par in flow.names_in(it)
      ctx.check(whole and not filt, 'R8', f'{ci.name}.evaluate: completing loop ranges over all given trials', loop.ast,
                f'iterates `{unparse(loop.ast.iter, 40)}` (the whole argument)',
                (f'the loop that completes trials iterates `{unparse(it, 70)}`: trials filtered out of it (e.g. already completed ones) '
                 'keep whatever measurement they carried - a wrapper that evaluates one batch with several experimenters then reports '
                 'the first objective for every objective') if filt else
                f'the completing loop does not range over the `{par}` argument', construct=f'{ci.name}:filtered-batch', func=ev.qualname)
  if n < 8:
    raise AnalysisError(f'only {n} completing loops found in experimenters')


# ----------------------------------------------------------------------- R9
def r9_by_name(ctx, subs: List[ClassInfo]) -> None:
  """Numeric feature rows are built from parameters *by name* (through a converter / explicit keys), never from the
  iteration order of a trial's parameter dictionary: that order is whatever the caller inserted."""
  n = 0
  for ci in subs:
    for m in ci.methods.values():
      n += 1
      hits = []
      for x in ast.walk(m.node):
        if isinstance(x, ast.Call) and isinstance(x.func, ast.Attribute) and x.func.attr in ('values', 'items', 'keys') and not x.args:
          recv = unparse(x.func.value, 0)
          if recv.endswith('.parameters') or recv.endswith('parameters.as_dict()') or recv.endswith('.parameters.get_value'):
            # order-insensitive uses are fine: building a dict / set, membership, sorted(...)
            par_ = getattr(x, '_vz_parent', None)
            ordered_sink = False
            a = x
            for anc in ancestors(x):
              if isinstance(anc, ast.Call) and (dotted(anc.func) or '').rsplit('.', 1)[-1] in ('array', 'asarray', 'stack', 'list', 'tuple', 'fromiter', 'concatenate'):
                ordered_sink = True
              if isinstance(anc, ast.Call) and (dotted(anc.func) or '').rsplit('.', 1)[-1] in ('sorted', 'dict', 'set', 'frozenset', 'len'):
                break
              if isinstance(anc, ast.stmt):
                break
            if ordered_sink and x.func.attr == 'values':
              hits.append(x)
      if hits:
        ctx.bad('R9', f'{ci.name}.{m.name}: feature row from dict order', hits[0],
                f'`{unparse(hits[0], 60)}` is turned into an array by position: the coordinates follow the insertion order of the '
                'caller\'s ParameterDict, not the parameter names, so a trial whose parameters were set in another order is evaluated at '
                'a permuted point', construct=f'{ci.name}.{m.name}:dict-order', func=m.qualname)
  ctx.ok('R9', 'experimenters build feature rows by name', DIR, f'{n} methods scanned; no parameters.values() stacked into an array') \
      if not any(o.rule == 'R9' and not o.ok for o in ctx.obligations) else None


# ----------------------------------------------------------------------- R6
def r6_shift(ctx) -> None:
  """The bounds declared by the shifting wrapper are evaluated on a finite model: for sample (lo, hi, shift) triples and
  every path of the constructor loop whose branch decisions hold for the sample, the `bounds=` value must be
  (lo + shift, hi) for shift >= 0 and (lo, hi + shift) otherwise."""
  from vzstatic import pathcond
  ci = ctx.index.need_class('vizier._src.benchmarks.experimenters.shifting_experimenter.ShiftingExperimenter')
  init = ci.methods['__init__']
  g = cfgmod.CFG(init.node)
  site = None
  for n in g.nodes:
    for c in flow.node_calls(n):
      for k in c.keywords:
        if k.arg == 'bounds':
          site = (n, k.value)
  if site is None:
    raise AnalysisError('ShiftingExperimenter.__init__: `bounds=` of the rebuilt parameter not found')
  node, bexpr = site
  loop = next((l for l in g.nodes if l.kind == 'for' and node in g.reachable([l])), None)
  if loop is None:
    raise AnalysisError('ShiftingExperimenter.__init__: parameter loop not found')
  # the loop variable holding this parameter's shift, and the local holding the base bounds
  tnames = [x.id for x in ast.walk(loop.ast.target) if isinstance(x, ast.Name)]
  shift_var = next((t for t in tnames if 'shift' in t), None)
  if shift_var is None:
    raise AnalysisError('ShiftingExperimenter.__init__: loop variable carrying the shift not found')
  starts = [m for m, lab in loop.succs if not (isinstance(lab, tuple))]
  samples = [(lo, hi, sh) for lo, hi in ((0.0, 10.0), (-5.0, 5.0), (2.0, 3.0)) for sh in (-4.0, -0.5, 0.0, 0.5, 4.0)]
  checked = 0
  bad = None
  for path in pathcond.paths(g, [m for m in starts if node in g.reachable([m], include_starts=True)], node, stop=[loop]):
    dec = pathcond.conditions(path)
    val = pathcond.substitute_on_path(path, bexpr)
    for lo, hi, sh in samples:
      env = {shift_var: sh}
      # the base bounds: any `<x>.bounds` expression / a local `bounds`
      for x in ast.walk(val):
        if isinstance(x, ast.Attribute) and x.attr == 'bounds':
          env[unparse(x, 0)] = (lo, hi)
      for t_, _ in dec:
        for x in ast.walk(t_):
          if isinstance(x, ast.Attribute) and x.attr == 'bounds':
            env[unparse(x, 0)] = (lo, hi)
      try:
        feasible = True
        for t_, pol in dec:
          try:
            if bool(pathcond.neval(t_, env)) != pol:
              feasible = False
              break
          except pathcond.NoValue:
            continue  # a test that does not concern the bounds arithmetic (types, scale ...)
        if not feasible:
          continue
        got = pathcond.neval(val, env)
      except pathcond.NoValue as e:
        raise AnalysisError(f'ShiftingExperimenter.__init__: cannot evaluate `{unparse(val, 60)}` ({e})')
      if abs(sh) >= hi - lo:
        continue  # refused by the range check (must not reach here): reaching it is also wrong
      checked += 1
      want = (lo + sh, hi) if sh >= 0 else (lo, hi + sh)
      if tuple(got) != want and bad is None:
        bad = (lo, hi, sh, tuple(got), want)
  if checked == 0:
    raise AnalysisError('ShiftingExperimenter.__init__: no sample reached the bounds computation')
  ctx.check(bad is None, 'R6', 'restricted bounds', init.node,
            f'shift >= 0: (lo + shift, hi); shift < 0: (lo, hi + shift) on {checked} sample evaluations',
            ('the declared bounds are not shrunk on the side the shift leaves' +
             (f' (bounds ({bad[0]}, {bad[1]}), shift {bad[2]}: declared {bad[3]}, expected {bad[4]})' if bad else '') +
             ': points of the declared space map outside the base space and are silently clipped, so the wrapper no longer '
             'evaluates the base objective at the shifted point'),
            construct='shift-bounds', func=init.qualname)


_D = DIR + '/'
VARIANTS = [
    Variant('permuting-shallow-copy', _D + 'permuting_experimenter.py',
            '  def problem_statement(self) -> pyvizier.ProblemStatement:\n    return copy.deepcopy(self._problem_statement)',
            '  def problem_statement(self) -> pyvizier.ProblemStatement:\n    return copy.copy(self._problem_statement)', rule='R1'),
    Variant('shifting-no-restore', _D + 'shifting_experimenter.py',
            '    for parameters, suggestion in zip(previous_parameters, suggestions):\n      suggestion.parameters = parameters\n',
            '    del previous_parameters\n', rule='R2'),
    Variant('numpy-scale-true', _D + 'numpy_experimenter.py', '        study_config=self._problem_statement,\n        scale=False,',
            '        study_config=self._problem_statement,\n        scale=True,', rule='R5'),
    Variant('permutation-of-other-list', _D + 'permuting_experimenter.py',
            'permutation_list = self._rng.permuted(parameter.feasible_values)',
            'permutation_list = self._rng.permuted(sorted(parameter.feasible_values)[:-1] + [parameter.feasible_values[0]])', rule='R3'),
    Variant('sign-flip-one-way', _D + 'sign_flip_experimenter.py',
            '      elif metric_config.goal.is_minimize:\n        metric_config.goal = pyvizier.ObjectiveMetricGoal.MAXIMIZE\n', '', rule='R4'),
    Variant('shift-sign-slip', _D + 'shifting_experimenter.py',
            '          new_bounds = (bounds[0], bounds[1] + shift)', '          new_bounds = (bounds[0], bounds[1] - shift)', rule='R6'),
    Variant('benign-rename', _D + 'shifting_experimenter.py', 'previous_parameters', 'saved', expect='silent', count=2),
]
