"""C02 — suggest hands out exactly the requested trials, sticky per worker, fresh ids.

Structural clauses decided on SuggestTrials / CreateTrial / the client:
  R1 sources in order: own ACTIVE trials (filter needs state == ACTIVE *and*
     client_id == request.client_id) dominate the REQUESTED pool, which
     dominates the algorithm call; the algorithm is asked for exactly the
     missing count;
  R2 every trial in a SuggestTrialsResponse is ACTIVE (typestate) and every
     trial appended to the hand-out list had state=ACTIVE and
     client_id=request.client_id written and stored *before* it was appended;
  R3 every created trial gets id = max_trial_id(study) + 1 read in the same
     iteration as the create, and its name is built from the same id;
  R4 surplus algorithm output is consumed: a loop over the remainder stores
     each element as REQUESTED on every path to the final return;
  R5 every pop() loop tests its list for emptiness (sibling cross-check);
  R6 the client returns [] only for FAILED_PRECONDITION (see C06.R3).
"""

from __future__ import annotations

import ast
from typing import Dict, List, Optional, Set

from vzstatic import cfg as cfgmod
from vzstatic import flow
from vzstatic.index import FuncInfo, dotted
from vzstatic.rules import C06
from vzstatic.selftest import Variant
from vzstatic.source import AnalysisError, ancestors, loc, unparse
from vzstatic.svc import Svc, where
from vzstatic.typestate import TypeState

MANIFEST = {
    'technique': ('typestate of the hand-out list, dominance/ordering over the SuggestTrials CFG, '
                  'def-use from max_trial_id reads to the id/name of created trials, '
                  'post-dominance of the surplus loop, pop-guard contradiction rule'
                  '; hand-out and surplus loops evaluated on a finite model of the slice/count arithmetic (list lengths 0..5 x missing counts -1..7), stale-count detection by reaching definitions; shared C07.R7-R9'
                  '; provenance of every returned operation (pending operation of this worker or the one created in this call)'),
    'level_text': (
        'Static: the three-source fill order, the own-trial filter, ACTIVE+client_id written and '
        'stored before hand-out, per-create fresh max+1 ids, complete consumption of algorithm '
        'output and guarded pops hold on every path of SuggestTrials/CreateTrial. Each is '
        'necessary for the stated behaviour (stickiness, no double assignment, increasing ids, '
        'nothing dropped). The *count* returned for every history is arithmetic over runtime '
        'values and is not decided.'),
    'level_note': ('Id uniqueness under concurrency is C04; equality of datastore listings across '
                   'backends is C07. Trusted: list.pop/append semantics.'),
}


def run(ctx) -> None:
  svc = Svc(ctx)
  ctx.rule('R1', 'own ACTIVE trials (state and client filter) before REQUESTED pool before algorithm; '
           'algorithm asked for the missing count', 3)
  ctx.rule('R2', 'response trials are ACTIVE; appended trials had state/client_id written and stored first', 4)
  ctx.rule('R3', 'created trials: id = max_trial_id()+1 read per create, name from the same id', 2)
  ctx.rule('R4', 'surplus algorithm output is stored as REQUESTED on every path to the final return', 1)
  ctx.rule('R5', 'pop() loops test their list for emptiness', 2)
  ctx.rule('R9', 'the algorithm\'s whole answer reaches SuggestTrials (the Pythia servicer does not cut or re-bind it); every finished '
           'operation carries the collected trials', 3)
  ctx.rule('R7', 'SuggestTrials answers with the worker\'s pending operation or with the operation it created in this call, '
           'never with a finished earlier one (its trials may meanwhile belong to someone else)', 2)
  ctx.import_rules('C06', {'R1'}, 'R10', 'every operation SuggestTrials stores open is stored finished on every exit (or the same worker never gets trials again)')
  ctx.import_rules('C01', {'R1', 'R2'}, 'R8', 'a trial handed to a worker stays ACTIVE and its own on every path, failure paths included (no ACTIVE -> REQUESTED)')
  ctx.import_rules('C07', {'R6', 'R7', 'R8', 'R9'}, 'R6', 'fresh ids and sticky hand-out rest on the datastores: max_trial_id is a maximum, list_trials filters by exact study key')
  fi = svc.rpcs.get('SuggestTrials')
  if fi is None:
    raise AnalysisError('SuggestTrials not found')
  ts = TypeState(svc, fi)
  ts.run()
  g = ts.cfg
  dom = g.dominators()
  rd = flow.ReachingDefs(g)
  prov = flow.Provenance(g, rd)

  # ------------------------------------------------------------------ R1
  own = pool = None  # nodes
  for n in g.nodes:
    if n.kind == 'stmt' and isinstance(n.ast, ast.Assign) and isinstance(n.ast.value, ast.ListComp):
      lc = n.ast.value
      gen = lc.generators[0]
      src = ts._eval(ts.state.get(n.id, {}), gen.iter)
      if src is None or not src.is_list or src.kind != 'trial':
        continue
      conds = []
      for c in gen.ifs:
        conds += c.values if isinstance(c, ast.BoolOp) and isinstance(c.op, ast.And) else [c]
      states = ts._eval(ts.state.get(n.id, {}), lc)
      cur = states.cur() if states is not None else set()
      if cur == {'ACTIVE'}:
        own = n
        has_client = any(
            isinstance(c, ast.Compare) and len(c.ops) == 1 and isinstance(c.ops[0], ast.Eq)
            and {dotted(c.left) or '', dotted(c.comparators[0]) or ''} >= {'request.client_id'}
            and any((dotted(x) or '').endswith('.client_id') and (dotted(x) or '') != 'request.client_id'
                    for x in (c.left, c.comparators[0]))
            for c in conds)
        ctx.check(has_client, 'R1', 'own-trial filter: client_id == request.client_id', where(fi, n),
                  'own ACTIVE trials are selected by state and by the requesting worker',
                  'the filter for the worker\'s own trials does not require client_id == '
                  'request.client_id: ACTIVE trials of other workers are handed out again',
                  construct=lc, func=fi.qualname)
      elif cur == {'REQUESTED'}:
        pool = n
  ctx.check(own is not None, 'R1', 'own-trial filter: state == ACTIVE', fi.node,
            'list comprehension over list_trials selecting exactly ACTIVE trials found',
            'no list of exactly-ACTIVE stored trials is computed (own trials first)',
            construct='own-filter', func=fi.qualname)
  ctx.check(pool is not None, 'R1', 'REQUESTED pool', fi.node,
            'list of exactly-REQUESTED stored trials found', 'no REQUESTED pool is computed',
            construct='pool-filter', func=fi.qualname)
  algo = [n for n in g.nodes if any(isinstance(c.func, ast.Attribute) and c.func.attr == 'Suggest'
                                    for c in flow.node_calls(n))]
  if not algo:
    raise AnalysisError('SuggestTrials: algorithm call (.Suggest) not found')
  if own is not None and pool is not None:
    def first_use(defn):
      """First node (in dominance order) that reads the list bound at `defn`."""
      names = [t.id for t in defn.ast.targets if isinstance(t, ast.Name)]
      users = [m for m in g.nodes if m is not defn and any(
          isinstance(x, ast.Name) and isinstance(x.ctx, ast.Load) and x.id in names
          and any(d.node_id == defn.id for d in rd.at(m, x.id)) for e_ in flow.node_exprs(m) for x in ast.walk(e_))]
      tops = [m for m in users if all(m.id in dom[o.id] for o in users)]
      return tops[0] if tops else None
    uo, up = first_use(own), first_use(pool)
    ok = uo is not None and up is not None and uo.id in dom[up.id] and uo is not up and up.id in dom[algo[0].id]
    ctx.check(ok, 'R1', 'source order own -> pool -> algorithm', where(fi, algo[0]),
              'the first use of the own-trial list dominates the first use of the pool, which dominates the algorithm call',
              'the three sources are not consulted in the documented order',
              construct='source-order', func=fi.qualname)
  # ------------------------------------------------------------------ R2
  n_resp = 0
  out_lists: Set[str] = set()
  for n in g.nodes:
    for c in flow.node_calls(n):
      if (dotted(c.func) or '').endswith('SuggestTrialsResponse'):
        for k in c.keywords:
          if k.arg == 'trials':
            n_resp += 1
            v = ts._eval(ts.state.get(n.id, {}), k.value)
            for nm in flow.names_in(k.value):
              out_lists.add(nm)
            ok = v is not None and v.is_list and v.cur() <= {'ACTIVE'}
            ctx.check(ok, 'R2', f'response at line {n.lineno}: all trials ACTIVE', where(fi, n),
                      'every element of the returned list is ACTIVE on every path',
                      f'a returned trial can be in state(s) {sorted(v.cur() - {"ACTIVE"}) if v else "unknown"}',
                      construct=k.value, func=fi.qualname)
  if n_resp < 3:
    raise AnalysisError(f'only {n_resp} SuggestTrialsResponse constructions found')
  # aliases of the hand-out list (output_trials = active_trials)
  changed = True
  while changed:
    changed = False
    for n in g.nodes:
      if n.kind == 'stmt' and isinstance(n.ast, ast.Assign) and isinstance(n.ast.value, ast.Name) \
          and any(isinstance(t, ast.Name) and t.id in out_lists for t in n.ast.targets) \
          and n.ast.value.id not in out_lists:
        out_lists.add(n.ast.value.id)
        changed = True
  n_app = 0
  for n in g.nodes:
    for c in flow.node_calls(n):
      if isinstance(c.func, ast.Attribute) and c.func.attr == 'append' and isinstance(c.func.value, ast.Name) \
          and c.func.value.id in out_lists and c.args and isinstance(c.args[0], ast.Name):
        n_app += 1
        v = c.args[0].id
        loop = n.loops[-1] if n.loops else None

        def in_iter(m):
          return (m.loops[-1] if m.loops else None) is loop and m.id in dom[n.id]

        st = [m for m in g.nodes if in_iter(m) and m.kind == 'stmt' and isinstance(m.ast, ast.Assign)
              and any(dotted(t) == f'{v}.state' for t in m.ast.targets)]
        cl = [m for m in g.nodes if in_iter(m) and m.kind == 'stmt' and isinstance(m.ast, ast.Assign)
              and any(dotted(t) == f'{v}.client_id' for t in m.ast.targets)
              and dotted(flow.resolve_local(fi.node, m.ast.value)) == 'request.client_id']
        wr = [m for m in g.nodes if in_iter(m) and any(
            svc.ds_call(x) in ('update_trial', 'create_trial') and x.args and isinstance(x.args[0], ast.Name)
            and x.args[0].id == v for x in flow.node_calls(m))]
        ok = bool(st and cl and wr) and all(s.id in dom[wr[0].id] for s in st + cl)
        ctx.check(ok, 'R2', f'hand-out of `{v}` at line {n.lineno}', where(fi, n),
                  'state=ACTIVE and client_id=request.client_id are written, then stored, then handed out',
                  'a trial is appended to the hand-out list without state/client_id having been written '
                  'and stored first in the same iteration (the stored trial would not belong to the worker)',
                  construct=c, func=fi.qualname)
  if n_app < 2:
    raise AnalysisError(f'only {n_app} appends to the hand-out list found')

  # ------------------------------------------------------------------ R3
  n_create = 0
  for name in ('SuggestTrials', 'CreateTrial'):
    f2 = svc.rpcs[name]
    g2 = svc.rpc_cfg(f2)
    rd2 = flow.ReachingDefs(g2)
    prov2 = flow.Provenance(g2, rd2)
    for n in g2.nodes:
      for c in flow.node_calls(n):
        if svc.ds_call(c) != 'create_trial' or not c.args or not isinstance(c.args[0], ast.Name):
          continue
        n_create += 1
        x = c.args[0].id
        loop = n.loops[-1] if n.loops else None
        id_defs, name_defs = [], []
        for d in rd2.at(n, x):
          if d.kind != 'attrstore' or d.node_id < 0:
            continue
          dn = g2.nodes[d.node_id]
          if isinstance(dn.ast, ast.Assign):
            for t in dn.ast.targets:
              if dotted(t) == f'{x}.id':
                id_defs.append((dn, d.value))
              if dotted(t) == f'{x}.name':
                name_defs.append((dn, d.value))
        good = bool(id_defs) and bool(name_defs)
        why = 'id or name of the created trial is not assigned'
        for dn, val in id_defs:
          o = prov2.origins(val, dn)
          reads = [v for k, v in o if k == 'call' and svc.ds_call(v) == 'max_trial_id']
          plus1 = any(isinstance(b, ast.BinOp) and isinstance(b.op, ast.Add)
                      and isinstance(b.right, ast.Constant) and b.right.value == 1
                      and any(isinstance(z, ast.Call) and svc.ds_call(z) == 'max_trial_id' for z in ast.walk(b.left))
                      for b in _binops_reaching(val, dn, rd2, g2))
          if not reads or not plus1:
            good, why = False, 'id is not max_trial_id(study) + 1'
          for r in reads:
            rn = g2.node_of(r)
            if (rn.loops[-1] if rn.loops else None) is not loop:
              good, why = False, ('max_trial_id is read outside the loop that creates the trials: '
                                  'two creates in one call get the same id')
        for dn, val in name_defs:
          o_name = prov2.origins(val, dn)
          if not any(k == 'call' and svc.ds_call(v) == 'max_trial_id' for k, v in o_name) and not any(
              k == 'attr' and dotted(v) == f'{x}.id' for k, v in o_name):
            good, why = False, 'resource name is not built from the allocated id'
        ctx.check(good, 'R3', f'{name}: create_trial({x}) at line {n.lineno}', where(f2, n),
                  'id = max_trial_id()+1 read in the same iteration; name built from it', why,
                  construct=c, func=f2.qualname)
  if n_create < 2:
    raise AnalysisError(f'only {n_create} create_trial sites found')

  # ------------------------------------------------------------------ R4, R5
  r45_handout(ctx, svc, fi, g, dom, prov, algo, out_lists)
  r7_returned_operation(ctx, svc, fi, g, prov)
  r9_whole_answer(ctx, svc, fi, out_lists)


def _len_of(e: ast.AST, names: Set[str]) -> bool:
  return isinstance(e, ast.Call) and dotted(e.func) == 'len' and len(e.args) == 1 and isinstance(e.args[0], ast.Name) \
      and e.args[0].id in names


def _is_missing_count(e: ast.AST, out_lists: Set[str]) -> bool:
  """request.suggestion_count - len(<hand-out list>)"""
  return isinstance(e, ast.BinOp) and isinstance(e.op, ast.Sub) and dotted(e.left) == 'request.suggestion_count' \
      and _len_of(e.right, out_lists)


def _bound_test(test: ast.AST, out_lists: Set[str]) -> bool:
  """loop test contains  request.suggestion_count > len(out)  (or the mirrored form)."""
  for c in ast.walk(test):
    if isinstance(c, ast.Compare) and len(c.ops) == 1:
      l, r, op = c.left, c.comparators[0], c.ops[0]
      if dotted(l) == 'request.suggestion_count' and _len_of(r, out_lists) and isinstance(op, ast.Gt):
        return True
      if dotted(r) == 'request.suggestion_count' and _len_of(l, out_lists) and isinstance(op, ast.Lt):
        return True
  return False


def r9_whole_answer(ctx, svc, fi, out_lists) -> None:
  # (a) PythiaServicer.Suggest returns the policy's decision as it is
  ps = ctx.index.need_class('vizier._src.service.pythia_service.PythiaServicer')
  sg = ps.methods['Suggest']
  cut = None
  for x in ast.walk(sg.node):
    if isinstance(x, ast.Subscript) and isinstance(x.slice, ast.Slice) and 'suggestion' in unparse(x.value, 0):
      cut = cut or x
    if isinstance(x, (ast.Assign, ast.AugAssign, ast.Delete)):
      tgs = x.targets if isinstance(x, (ast.Assign, ast.Delete)) else [x.target]
      for t in tgs:
        if isinstance(t, (ast.Attribute, ast.Subscript)) and 'suggestions' in unparse(t, 0):
          cut = cut or x
    if isinstance(x, ast.Call) and isinstance(x.func, ast.Attribute) and x.func.attr in ('pop', 'remove', 'clear') \
        and 'suggestions' in unparse(x.func.value, 0):
      cut = cut or x
  ctx.check(cut is None, 'R9', 'PythiaServicer.Suggest forwards every suggestion', sg.node, 'the decision of the policy is not cut, re-bound or emptied',
            f'`{unparse(cut, 70) if cut is not None else ""}` drops part of the algorithm\'s answer before the Vizier service sees it: suggestions beyond '
            'the requested count are lost instead of being queued as REQUESTED trials', construct='pythia-truncates', func=sg.qualname)
  # (b) every response built in SuggestTrials carries the hand-out list
  n = 0
  for c in flow.calls_in(fi.node):
    if not (dotted(c.func) or '').endswith('SuggestTrialsResponse'):
      continue
    n += 1
    kw = {k.arg: k.value for k in c.keywords}
    tv = kw.get('trials')
    ok = tv is not None and any(isinstance(x, ast.Name) and x.id in out_lists for x in ast.walk(tv))
    ctx.check(ok, 'R9', f'SuggestTrials: response at line {c.lineno} carries the collected trials', c,
              'trials=<hand-out list>',
              f'`{unparse(c, 70)}` finishes the operation without the trials collected so far: the worker is told "nothing" while trials were '
              'already made ACTIVE for it', construct='response-without-trials', func=fi.qualname)
  if n < 2:
    raise AnalysisError(f'SuggestTrials: only {n} SuggestTrialsResponse constructions found')


def r7_returned_operation(ctx, svc, fi, g, prov) -> None:
  rets = [n for n in g.nodes if n.kind == 'stmt' and isinstance(n.ast, ast.Return) and n.ast.value is not None]
  if len(rets) < 2:
    raise AnalysisError(f'SuggestTrials: only {len(rets)} value returns found')
  for n in rets:
    calls = [v for k, v in prov.origins(n.ast.value, n) if k == 'call']
    names = []
    for c in calls:
      d = dotted(c.func) or ''
      m = svc.ds_call(c)
      names.append(m or d.rsplit('.', 1)[-1])
    stored = [x for x in names if x.startswith(('get_', 'load_')) and x.endswith('operation')]
    ok = not stored and any(x in ('Operation', 'list_suggestion_operations') for x in names)
    ctx.check(ok, 'R7', f'SuggestTrials: operation returned at line {n.lineno}', where(fi, n),
              'the pending operation of this worker (list_suggestion_operations, not done) or the operation created in this call',
              f'returns an operation obtained from {sorted(set(stored)) or sorted(set(names))}: a finished earlier operation is replayed, although the '
              'trials it lists may have been deleted and re-created for another worker since (same trial handed to two workers, nothing new created)',
              construct='return:stored-operation', func=fi.qualname)


def r45_handout(ctx, svc, fi, g, dom, prov, algo, out_lists) -> None:
  """Hand-out loops are bounded by the *current* missing count; algorithm output is partitioned into
  handed-out and queued parts; the queue loop is on every normal path from the algorithm to the return."""
  rd = prov.rd
  # lists holding algorithm output: provenance reaches the .Suggest(...) call
  algo_calls = [c for c in flow.node_calls(algo[0]) if isinstance(c.func, ast.Attribute) and c.func.attr == 'Suggest']

  def from_algo(name_node: ast.Name, node) -> bool:
    return any(k == 'call' and v in algo_calls for k, v in prov.origins(name_node, node))

  appenders = [n for n in g.nodes for c in flow.node_calls(n)
               if isinstance(c.func, ast.Attribute) and c.func.attr in ('append', 'extend') and isinstance(c.func.value, ast.Name)
               and c.func.value.id in out_lists]
  # R1: the algorithm is asked for the *current* missing count
  cnt_ok, cnt_why = False, 'no SuggestRequest(count=...) found'
  for n in g.nodes:
    for c in flow.node_calls(n):
      if (dotted(c.func) or '').endswith('SuggestRequest'):
        for k in c.keywords:
          if k.arg != 'count':
            continue
          vals = [(k.value, n)]
          if isinstance(k.value, ast.Name):
            vals = [(d.value, g.nodes[d.node_id]) for d in rd.at(n, k.value.id) if d.node_id >= 0 and d.value is not None]
          shape = bool(vals) and all(_is_missing_count(v, out_lists) for v, _ in vals)
          stale = None
          for v, dn in vals:
            if dn is n:
              continue
            after = g.reachable([dn])
            for a in appenders:
              if a in after and n in g.reachable([a]):
                stale = a
          cnt_ok = shape and stale is None
          cnt_why = ('count is `%s`, not request.suggestion_count - len(<hand-out list>)' % unparse(k.value, 50)) if not shape else \
              f'the count was computed before the hand-out list grew (append at line {stale.lineno})' if stale is not None else ''
  ctx.check(cnt_ok, 'R1', 'algorithm asked for suggestion_count - len(collected)', fi.node,
            'count = request.suggestion_count - len(<hand-out list>) at the time of the request',
            'the algorithm is not asked for exactly the missing number of suggestions: ' + cnt_why,
            construct='count', func=fi.qualname)
  # ---- hand-out loops
  class _NoEval(Exception):
    pass

  def concrete(e: ast.AST, node, env: Dict[str, object], stale_sink: List, depth: int = 0):
    """Evaluates list/slice/count arithmetic on a finite model: env maps list names to concrete lists,
    'M' to the current missing count.  Locals are followed through their (unique) reaching definition."""
    if depth > 10:
      raise _NoEval('too deep')
    if _is_missing_count(e, out_lists):
      stale_sink.append((e, node))
      return env['M']
    if isinstance(e, ast.Constant) and isinstance(e.value, int):
      return e.value
    if isinstance(e, ast.Name):
      if e.id in env:
        return env[e.id]
      defs = [d for d in rd.at(node, e.id) if d.node_id >= 0 and d.value is not None and d.kind == 'assign']
      if len(defs) != 1:
        raise _NoEval(f'`{e.id}` has {len(defs)} reaching definitions')
      return concrete(defs[0].value, g.nodes[defs[0].node_id], env, stale_sink, depth + 1)
    if isinstance(e, ast.ListComp) and len(e.generators) == 1 and not e.generators[0].ifs \
        and isinstance(e.generators[0].target, ast.Name):
      out = []
      for v in concrete(e.generators[0].iter, node, env, stale_sink, depth + 1):
        out.append(concrete(e.elt, node, dict(env, **{e.generators[0].target.id: v}), stale_sink, depth + 1))
      return out
    if isinstance(e, ast.Subscript) and not isinstance(e.slice, ast.Slice):
      base = concrete(e.value, node, env, stale_sink, depth + 1)
      i = concrete(e.slice, node, env, stale_sink, depth + 1)
      if not isinstance(i, int) or not isinstance(base, list) or not (-len(base) <= i < len(base)):
        raise _NoEval(f'index {i!r} out of range for a list of {len(base) if isinstance(base, list) else "?"} elements')
      return base[i]
    if isinstance(e, ast.Subscript) and isinstance(e.slice, ast.Slice):
      base = concrete(e.value, node, env, stale_sink, depth + 1)
      lo = concrete(e.slice.lower, node, env, stale_sink, depth + 1) if e.slice.lower is not None else None
      hi = concrete(e.slice.upper, node, env, stale_sink, depth + 1) if e.slice.upper is not None else None
      st = concrete(e.slice.step, node, env, stale_sink, depth + 1) if e.slice.step is not None else None
      return list(base)[lo:hi:st]
    if isinstance(e, ast.Call):
      fn_ = dotted(e.func) or ''
      args = [concrete(a, node, env, stale_sink, depth + 1) for a in e.args]
      if fn_ == 'len' and len(args) == 1:
        return len(args[0])
      if fn_ == 'range' and 1 <= len(args) <= 3 and all(isinstance(a, int) for a in args):
        return list(range(*args))
      if fn_ in ('min', 'max') and args:
        return (min if fn_ == 'min' else max)(*args) if len(args) > 1 else (min if fn_ == 'min' else max)(args[0])
      if fn_ in ('reversed', 'list', 'tuple', 'sorted') and len(args) == 1:
        return list(reversed(args[0])) if fn_ == 'reversed' else list(args[0])
      if fn_ in ('itertools.islice', 'islice') and len(args) == 2:
        return list(args[0])[:max(args[1], 0)] if args[1] is not None else list(args[0])
      if fn_ in ('itertools.islice', 'islice') and len(args) == 3:
        return list(args[0])[args[1]:args[2]]
      raise _NoEval(f'call `{fn_}`')
    if isinstance(e, ast.BinOp) and isinstance(e.op, (ast.Add, ast.Sub)):
      l, r = concrete(e.left, node, env, stale_sink, depth + 1), concrete(e.right, node, env, stale_sink, depth + 1)
      return l + r if isinstance(e.op, ast.Add) else l - r
    if isinstance(e, ast.UnaryOp) and isinstance(e.op, ast.USub):
      return -concrete(e.operand, node, env, stale_sink, depth + 1)
    raise _NoEval(f'expression `{unparse(e, 40)}`')

  def base_list(e: ast.AST, node, depth=0) -> Optional[str]:
    """Name of the list an iterable expression draws from (through slices / reversed / locals)."""
    if depth > 8:
      return None
    if isinstance(e, ast.Name):
      defs = [d for d in rd.at(node, e.id) if d.node_id >= 0 and d.value is not None and d.kind == 'assign']
      if len(defs) == 1 and isinstance(defs[0].value, (ast.Subscript, ast.Call)) and not (
          isinstance(defs[0].value, ast.Call) and not (dotted(defs[0].value.func) or '') in ('reversed', 'list', 'sorted', 'tuple', 'itertools.islice', 'islice')):
        inner = base_list(defs[0].value, g.nodes[defs[0].node_id], depth + 1)
        if inner:
          return inner
      return e.id
    if isinstance(e, ast.Subscript):
      return base_list(e.value, node, depth + 1)
    if isinstance(e, ast.Call) and (dotted(e.func) or '') in ('reversed', 'list', 'sorted', 'tuple', 'itertools.islice', 'islice') and e.args:
      return base_list(e.args[0], node, depth + 1)
    return None

  handouts = []  # (loop ast, list name, form, iter expr, node)
  for n in g.nodes:
    if n.kind == 'stmt' and isinstance(n.ast, ast.Assign) and isinstance(n.ast.value, ast.Call) \
        and isinstance(n.ast.value.func, ast.Attribute) and n.ast.value.func.attr == 'pop' \
        and isinstance(n.ast.value.func.value, ast.Name) and n.loops:
      lst = n.ast.value.func.value.id
      handouts.append((n.loops[-1], lst, 'pop', None, n))
    if n.kind == 'for' and any(a in g.reachable([n]) for a in appenders if a.loops and a.loops[-1] is n.ast):
      itexpr_ = n.ast.iter
      if isinstance(itexpr_, ast.Call) and dotted(itexpr_.func) == 'range' and isinstance(n.ast.target, ast.Name):
        # index loop: `for i in range(..): x = L[f(i)]` hands out [L[f(i)] for i in range(..)]
        subs = [st.value for st in n.ast.body if isinstance(st, ast.Assign) and isinstance(st.value, ast.Subscript)
                and not isinstance(st.value.slice, ast.Slice)
                and any(isinstance(x, ast.Name) and x.id == n.ast.target.id for x in ast.walk(st.value.slice))]
        if len(subs) == 1:
          itexpr_ = ast.copy_location(ast.ListComp(elt=subs[0], generators=[ast.comprehension(
              target=n.ast.target, iter=n.ast.iter, ifs=[], is_async=0)]), n.ast.iter)
          bl = base_list(subs[0].value, n)
        else:
          bl = None
      else:
        bl = base_list(n.ast.iter, n)
      if bl is None:
        raise AnalysisError(f'SuggestTrials: iterable of the hand-out loop at line {n.lineno} not understood')
      handouts.append((n.ast, bl, 'iter', itexpr_, n))
  if len(handouts) < 2:
    raise AnalysisError(f'SuggestTrials: only {len(handouts)} hand-out loops recognised (pool and algorithm output)')
  helper = C06.OpTypestate.__new__(C06.OpTypestate)
  algo_handout = None
  GRID = [(N, M) for N in range(0, 6) for M in range(-1, 8)]
  for loop, lst, form, itexpr, n in handouts:
    inst = f'hand-out loop over `{lst}` at line {loop.lineno}'
    is_algo = any(from_algo(x, n) for x in [ast.copy_location(ast.Name(id=lst, ctx=ast.Load()), n.ast)]) if False else \
        any(isinstance(x, ast.Name) and from_algo(x, n) for x in ast.walk(n.ast.iter if form == 'iter' else n.ast))
    if is_algo:
      algo_handout = (loop, lst, form, itexpr, n)
    if form == 'pop':
      ctx.check(C06.OpTypestate._pop_guarded(helper, n, lst), 'R5', f'{lst}.pop() at line {n.lineno}',
                where(fi, n), 'loop condition tests the list for emptiness',
                f'`{lst}.pop()` is not guarded by an emptiness test of `{lst}`: when fewer elements are '
                'available than requested the call fails instead of handing out the short delivery',
                construct=f'{lst}.pop', func=fi.qualname)
      ok = isinstance(loop, ast.While) and _bound_test(loop.test, out_lists)
      ctx.check(ok, 'R5', inst + ': bounded by the current missing count', where(fi, n),
                'loop runs while request.suggestion_count > len(<hand-out list>)',
                'the loop condition does not compare request.suggestion_count with the current length of the hand-out list: '
                'more (or fewer) than the requested number of trials are handed out', construct=f'{lst}:bound', func=fi.qualname)
      continue
    # for-loop over a slice / reversed slice: evaluate the slice arithmetic on a finite model
    sink: List = []
    wrong = None
    try:
      for N, M in GRID:
        got = concrete(itexpr, n, {lst: list(range(N)), 'M': M}, sink)
        if len(got) != min(N, max(M, 0)) or len(set(got)) != len(got):
          wrong = (N, M, len(got))
          break
    except _NoEval as e:
      raise AnalysisError(f'{inst}: cannot evaluate `{unparse(itexpr, 60)}` ({e})')
    stale = None
    for e_, dn in sink:
      if dn is n:
        continue
      after_def = g.reachable([dn])
      for a in appenders:
        if a in after_def and n in g.reachable([a]) and not (a.loops and a.loops[-1] is loop):
          stale = a
    if stale is not None:
      ctx.bad('R5', inst + ': bounded by the current missing count', where(fi, n),
              f'the number of elements handed out is computed from a missing count taken before the hand-out list grew (append at line '
              f'{stale.lineno}): it still counts trials that were already filled from an earlier source, so the worker '
              'gets more than the requested number of trials and fewer surplus suggestions are queued',
              construct=f'{lst}:stale-bound', func=fi.qualname)
    else:
      ctx.check(wrong is None and bool(sink), 'R5', inst + ': bounded by the current missing count', where(fi, n),
                'hands out min(len(list), missing) distinct elements for every list length and missing count (finite model 0..5 x -1..7)',
                (f'with {wrong[0]} elements available and {wrong[1]} missing the loop hands out {wrong[2]} elements'
                 if wrong else f'`{unparse(itexpr, 50)}` does not depend on request.suggestion_count - len(<hand-out list>)') +
                ': more (or fewer) than the requested number of trials are handed out',
                construct=f'{lst}:bound', func=fi.qualname)
  if algo_handout is None:
    raise AnalysisError('SuggestTrials: hand-out loop over the algorithm output not found')
  hloop, lst, form, hiter, hn = algo_handout
  # R4: the remainder of the algorithm output is queued as REQUESTED
  ok4 = False
  detail = 'no loop over the remaining algorithm output stores it as REQUESTED'
  succ_rets = [m for m, lab in g.exit.preds
               if m in g.reachable([algo[0]], follow=lambda a, b, lab2: not (isinstance(lab2, tuple) and lab2 and lab2[0] == 'exc'))]
  for n in g.nodes:
    if n.kind != 'for' or not isinstance(n.ast.target, ast.Name) or n.ast is hloop:
      continue
    if base_list(n.ast.iter, n) != lst:
      continue
    v = n.ast.target.id
    body = n.ast.body
    creates = any(svc.ds_call(c) == 'create_trial' and c.args and isinstance(c.args[0], ast.Name)
                  and c.args[0].id == v for st in body for c in flow.calls_in(st))
    req = any(isinstance(st, ast.Assign) and any(dotted(t) == f'{v}.state' for t in st.targets)
              and (dotted(st.value) or '').endswith('.REQUESTED')
              for top in body for st in ast.walk(top))
    if not (creates and req):
      continue
    # partition: handed-out part and queued part are disjoint and cover the algorithm output
    part_ok = True
    if form == 'pop':
      part_ok = isinstance(n.ast.iter, ast.Name) and n.ast.iter.id == lst  # the pops removed what was handed out
    else:
      try:
        for N, M in GRID:
          env = {lst: list(range(N)), 'M': M}
          h = concrete(hiter, hn, env, [])
          r = concrete(n.ast.iter, n, env, [])
          if sorted(h + r) != list(range(N)):
            part_ok = False
            detail = (f'with {N} suggestions delivered and {M} missing, {len(h)} are handed out and {len(r)} queued: '
                      'some suggestions are dropped or stored twice')
            break
      except _NoEval as e:
        raise AnalysisError(f'surplus loop at line {n.lineno}: cannot evaluate `{unparse(n.ast.iter, 60)}` ({e})')
    after = g.reachable([hn])
    through = bool(succ_rets) and all(n.id in dom[m.id] for m in succ_rets if m in after)
    if part_ok and through:
      ok4 = True
    elif part_ok:
      detail = 'a normal path from the hand-out loop to a return bypasses the surplus loop'
  ctx.check(ok4, 'R4', 'surplus algorithm output queued as REQUESTED', fi.node,
            'a for-loop over the rest of the algorithm output creates each element as REQUESTED, is disjoint from and complementary '
            'to the hand-out, and dominates every normal return after the hand-out',
            detail + ': surplus suggestions are dropped', construct='surplus-loop', func=fi.qualname)


def _binops_reaching(val: ast.AST, node, rd, g) -> List[ast.BinOp]:
  """BinOp expressions in `val` or in the definitions of the names it uses (1 hop)."""
  out = [b for b in ast.walk(val) if isinstance(b, ast.BinOp)]
  for nm in flow.names_in(val):
    for d in rd.at(node, nm):
      if d.value is not None and d.kind == 'assign':
        out += [b for b in ast.walk(d.value) if isinstance(b, ast.BinOp)]
  return out


_SVC = 'vizier/_src/service/vizier_service.py'
VARIANTS = [
    Variant('drop-client-filter', _SVC,
            '            if t.state == study_pb2.Trial.State.ACTIVE\n            and t.client_id == request.client_id\n',
            '            if t.state == study_pb2.Trial.State.ACTIVE\n', rule='R1'),
    Variant('own-filter-includes-stopping', _SVC,
            '            if t.state == study_pb2.Trial.State.ACTIVE\n            and t.client_id',
            '            if t.state in self._TRIAL_MUTABLE_STATES\n            and t.client_id', rule='R'),
    Variant('update-before-client-id', _SVC,
            """          assigned_trial.client_id = request.client_id
          assigned_trial.start_time.CopyFrom(start_time)
          self.datastore.update_trial(assigned_trial)""",
            """          assigned_trial.start_time.CopyFrom(start_time)
          self.datastore.update_trial(assigned_trial)
          assigned_trial.client_id = request.client_id""", rule='R2'),
    Variant('one-id-for-all-creates', _SVC,
            """      while new_trials and request.suggestion_count > len(output_trials):
        new_trial = new_trials.pop()
        # Trial ids are also allocated by CreateTrial, under the study lock.
        with self._study_name_to_lock[study_name]:
          trial_id = self.datastore.max_trial_id(request.parent) + 1
""",
            """      trial_id = self.datastore.max_trial_id(request.parent) + 1
      while new_trials and request.suggestion_count > len(output_trials):
        new_trial = new_trials.pop()
        # Trial ids are also allocated by CreateTrial, under the study lock.
        with self._study_name_to_lock[study_name]:
""", rule='R3'),
    Variant('drop-surplus-loop', _SVC,
            """      for remain_trial in new_trials:
        with self._study_name_to_lock[study_name]:
          trial_id = self.datastore.max_trial_id(request.parent) + 1
          remain_trial.id = str(trial_id)
          remain_trial.name = TrialResource(owner_id, study_id, trial_id).name
          remain_trial.state = study_pb2.Trial.State.REQUESTED
          self.datastore.create_trial(remain_trial)
""", """      del new_trials
""", rule='R4'),
    Variant('unguarded-pop', _SVC,
            '      while new_trials and request.suggestion_count > len(output_trials):',
            '      while request.suggestion_count > len(output_trials):', rule='R5'),
    Variant('id-plus-zero', _SVC,
            '      trial.id = str(self.datastore.max_trial_id(request.parent) + 1)',
            '      trial.id = str(self.datastore.max_trial_id(request.parent))', rule='R3'),
    Variant('benign-rename-output', _SVC, 'output_trials', 'handed_out', expect='silent', count=11),
]
