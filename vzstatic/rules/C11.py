"""C11 — optimal trials are exactly the non-dominated completed trials.

Decided structurally:
  R1 candidate filter of ListOptimalTrials: a trial is considered only under
     state == SUCCEEDED, all configured metrics reported, and no objective
     value NaN;
  R2 MINIMIZE metrics are negated and only those (both arms of the goal test);
  R3 every dominance predicate in the library normalises — over the algebra of
     all/any, <=,<,>=,>,==, &,|,~ with operand swap and De Morgan — to
     "weakly worse everywhere and strictly worse somewhere" with the candidate
     on the dominated side, and the reduction / negation around it keeps that
     orientation (5 sites);
  R4 the in-memory best-trial query flips signs for MINIMIZE, warps unsafe
     trials first, ranks descending and uses the Pareto routine for several
     objectives.
Not decided: correctness of the divide-and-conquer recursion and of the
sharded JAX filter (index arithmetic over runtime data).
"""

from __future__ import annotations

import ast
import itertools
from typing import Callable, Dict, List, Optional, Set, Tuple

from vzstatic import cfg as cfgmod
from vzstatic import flow
from vzstatic.index import FuncInfo, dotted
from vzstatic.selftest import Variant
from vzstatic.source import AnalysisError, ancestors, loc, unparse
from vzstatic.svc import Svc, where

MANIFEST = {
    'technique': ('control-dependence of the candidate filter; truth-table normalisation of each '
                  'dominance predicate over the atoms all(A<=B), all(B<=A) (comparison operators, '
                  'all/any, &,|,~, De Morgan, operand swap), orientation by reduction-axis tracking'
                  '; predicates evaluated per `strict` flag on flag-restricted CFGs with reaching-definition unfolding; function- and method-style reductions; difference-comparison rule for +-inf'
                  '; path-condition implication (truth tables) for the candidate filter through carried values; strictness of the rank predicate; label-column layout of the population converter; broadcast form of the rank predicate (roles from inserted axes); finite three-trial model of the selection step of ListOptimalTrials (returned trials == flagged trials)'),
    'level_text': (
        'Static: the service filters candidates by SUCCEEDED / all metrics / not-NaN, flips the '
        'sign of exactly the MINIMIZE metrics, and each of the five dominance predicates in the '
        'library is the Pareto dominance relation with a consistent orientation, negated exactly '
        'once before being used as "optimal". The recursive fast algorithm and the sharded JAX '
        'filter are index arithmetic on runtime data and are not decided here (the baseline '
        'test compares them with the naive routine on random points).'),
    'level_note': 'Trusted: numpy/jax broadcasting, all/any reduction and vmap axis semantics.',
}

# atoms: p = all(A <= B), q = all(B <= A);  dominated(A by B) = p and not q
DOM = {(p, q): (p and not q) for p in (False, True) for q in (False, True)}


class Pred:
  """Boolean function of (p, q) or 'other' when it leaves the algebra."""

  def __init__(self, table: Optional[Dict[Tuple[bool, bool], bool]]):
    self.table = table

  def __invert__(self):
    return Pred(None if self.table is None else {k: not v for k, v in self.table.items()})

  def __and__(self, o):
    if self.table is None or o.table is None:
      return Pred(None)
    return Pred({k: self.table[k] and o.table[k] for k in self.table})

  def __or__(self, o):
    if self.table is None or o.table is None:
      return Pred(None)
    return Pred({k: self.table[k] or o.table[k] for k in self.table})

  def is_dom(self) -> bool:
    return self.table == DOM

  def is_not_dom(self) -> bool:
    return self.table is not None and self.table == {k: not v for k, v in DOM.items()}


P = Pred({(p, q): p for p in (False, True) for q in (False, True)})
Q = Pred({(p, q): q for p in (False, True) for q in (False, True)})


def reduction(e: ast.AST) -> Optional[Tuple[str, ast.AST, Optional[object]]]:
  """('all'|'any'|'sum', operand, axis) for np.all(X, axis=k) / jnp.any(X) / X.all(axis=k) / X.sum(axis=k)."""
  if not isinstance(e, ast.Call):
    return None
  axis = None
  for k in e.keywords:
    if k.arg == 'axis':
      axis = k.value.value if isinstance(k.value, ast.Constant) else (
          -k.value.operand.value if isinstance(k.value, ast.UnaryOp) and isinstance(k.value.op, ast.USub)
          and isinstance(k.value.operand, ast.Constant) else '?')
  d = dotted(e.func) or ''
  last = d.rsplit('.', 1)[-1] if d else (e.func.attr if isinstance(e.func, ast.Attribute) else '')
  if last not in ('all', 'any', 'sum'):
    return None
  head = d.split('.')[0] if d else ''
  if head in ('np', 'jnp', 'numpy', 'jax') and e.args:
    if len(e.args) >= 2 and axis is None and isinstance(e.args[1], ast.Constant):
      axis = e.args[1].value
    return last, e.args[0], axis
  if isinstance(e.func, ast.Attribute) and not (head in ('np', 'jnp', 'numpy')):
    if e.args and axis is None and isinstance(e.args[0], ast.Constant):
      axis = e.args[0].value
    return last, e.func.value, axis
  return None


def parse_pred(e: ast.AST, role: Callable[[ast.AST], Optional[str]], env: Dict[str, ast.AST]) -> Pred:
  """Truth table of a numpy/jax boolean expression over operands A (candidate) and B."""
  if isinstance(e, ast.Name) and e.id in env:
    return parse_pred(env[e.id], role, env)
  if isinstance(e, ast.BinOp) and isinstance(e.op, ast.BitAnd):
    return parse_pred(e.left, role, env) & parse_pred(e.right, role, env)
  if isinstance(e, ast.BinOp) and isinstance(e.op, ast.BitOr):
    return parse_pred(e.left, role, env) | parse_pred(e.right, role, env)
  if isinstance(e, ast.BoolOp):
    acc = parse_pred(e.values[0], role, env)
    for v in e.values[1:]:
      acc = (acc & parse_pred(v, role, env)) if isinstance(e.op, ast.And) else (acc | parse_pred(v, role, env))
    return acc
  if isinstance(e, ast.UnaryOp) and isinstance(e.op, (ast.Invert, ast.Not)):
    return ~parse_pred(e.operand, role, env)
  if isinstance(e, ast.Call):
    fn = (dotted(e.func) or '').rsplit('.', 1)[-1]
    if fn == 'logical_not' and e.args:
      return ~parse_pred(e.args[0], role, env)
    if fn == 'logical_and' and len(e.args) == 2:
      return parse_pred(e.args[0], role, env) & parse_pred(e.args[1], role, env)
    if fn == 'logical_or' and len(e.args) == 2:
      return parse_pred(e.args[0], role, env) | parse_pred(e.args[1], role, env)
    red = reduction(e)
    if red is not None and red[0] in ('all', 'any') and isinstance(red[1], ast.Compare) and len(red[1].ops) == 1:
      fn = red[0]
      c = red[1]
      l, r = role(c.left), role(c.comparators[0])
      if {l, r} != {'A', 'B'}:
        return Pred(None)
      op = type(c.ops[0])
      # express with X=left, Y=right ; swap to A,B
      le_xy = P if (l, r) == ('A', 'B') else Q  # all(X <= Y)
      le_yx = Q if (l, r) == ('A', 'B') else P  # all(Y <= X)
      if fn == 'all':
        if op is ast.LtE:
          return le_xy
        if op is ast.GtE:
          return le_yx
        if op is ast.Eq:
          return le_xy & le_yx
        return Pred(None)  # all(<), all(>): not expressible — wrong predicate
      else:
        if op is ast.Gt:
          return ~le_xy
        if op is ast.Lt:
          return ~le_yx
        if op is ast.NotEq:
          return ~(le_xy & le_yx)
        return Pred(None)  # any(<=), any(>=)
  return Pred(None)


def flag_cfg(fn: ast.AST, flag: str, value: bool) -> cfgmod.CFG:
  """CFG of `fn` restricted to the paths on which the boolean parameter `flag` has `value`."""
  g = cfgmod.CFG(fn)

  def forced(t: ast.AST) -> Optional[bool]:
    # outcome of test t that is impossible under flag == value -> returns the branch label to drop
    if isinstance(t, ast.Name) and t.id == flag:
      return not value
    if isinstance(t, ast.UnaryOp) and isinstance(t.op, ast.Not) and isinstance(t.operand, ast.Name) and t.operand.id == flag:
      return value
    if isinstance(t, ast.BoolOp) and isinstance(t.op, ast.And):
      for v in t.values:
        f = forced(v)
        if f is True:  # conjunct is False under the assumption -> whole test cannot be True
          return True
    if isinstance(t, ast.BoolOp) and isinstance(t.op, ast.Or):
      for v in t.values:
        f = forced(v)
        if f is False:  # disjunct is True -> whole test cannot be False
          return False
    return None
  for tn in g.nodes:
    if tn.kind == 'test':
      imp = forced(tn.ast)
      if imp is not None:
        lab_drop = 'T' if imp else 'F'
        for m_, lab in list(tn.succs):
          if lab == lab_drop:
            tn.succs.remove((m_, lab))
            m_.preds.remove((tn, lab))
  return g


unfold = flow.unfold


def simplify_bool(e: ast.AST) -> ast.AST:
  """Constant-folds `True and X`, `False or X`, `not True` ... left behind by unfolding a flag."""
  if isinstance(e, ast.BoolOp):
    vals = [simplify_bool(v) for v in e.values]
    if isinstance(e.op, ast.And):
      if any(isinstance(v, ast.Constant) and v.value is False for v in vals):
        return ast.Constant(value=False)
      vals = [v for v in vals if not (isinstance(v, ast.Constant) and v.value is True)]
    else:
      if any(isinstance(v, ast.Constant) and v.value is True for v in vals):
        return ast.Constant(value=True)
      vals = [v for v in vals if not (isinstance(v, ast.Constant) and v.value is False)]
    if not vals:
      return ast.Constant(value=isinstance(e.op, ast.And))
    return vals[0] if len(vals) == 1 else ast.BoolOp(op=e.op, values=vals)
  if isinstance(e, ast.UnaryOp) and isinstance(e.op, ast.Not):
    v = simplify_bool(e.operand)
    if isinstance(v, ast.Constant) and isinstance(v.value, bool):
      return ast.Constant(value=not v.value)
    return ast.UnaryOp(op=ast.Not(), operand=v)
  return e


def run(ctx) -> None:
  ctx.rule('R1', 'ListOptimalTrials considers a trial only if SUCCEEDED, all metrics present, no NaN objective', 3)
  ctx.rule('R2', 'objective values of MINIMIZE metrics (and only those) are negated; columns follow the study metric order', 2)
  ctx.rule('R3', 'each dominance predicate is Pareto dominance with consistent orientation and a '
           'single negation towards "optimal"', 5)
  ctx.rule('R4', 'GetBestTrials: sign flip for MINIMIZE, unsafe trials warped first, descending rank / Pareto routine', 3)
  ctx.rule('R7', 'sharded Pareto filter: num_shards (default and every explicit argument) is at least 2', 1)
  ctx.rule('R6', 'the client marks a completion infeasible iff a reason was given (presence, not truthiness)', 1)
  ctx.rule('R5', 'dominance predicates compare coordinates directly, never `X - Y <op> 0` (inf - inf = NaN; the property covers +-inf)', 5)
  ctx.import_rules('C09', {'R12'}, 'R9', 'every reported metric value reaches the service, +-inf included (no metric is dropped on its value)')
  ctx.import_rules('C07', {'R8'}, 'R8', 'ListOptimalTrials ranks the trials of the requested study only: exact key filters in both datastores')
  svc = Svc(ctx)
  fi = svc.rpcs['ListOptimalTrials']
  r1_r2_service(ctx, svc, fi)
  r3_service(ctx, fi)
  r3_nsga2(ctx)
  r3_population_columns(ctx)
  r3_xla(ctx)
  r3_naive(ctx)
  r4_best_trials(ctx)
  r4_safety_alignment(ctx)
  r5_no_difference_compare(ctx)
  r6_client_infeasible_flag(ctx)
  r7_shard_counts(ctx)


# ------------------------------------------------------------------- R1, R2
def r1_r2_service(ctx, svc, fi: FuncInfo) -> None:
  appends = [c for c in flow.calls_in(fi.node) if isinstance(c.func, ast.Attribute) and c.func.attr == 'append'
             and c.args and isinstance(c.args[0], ast.Name)]
  # the append of the trial itself to the considered list (argument is the loop variable over list_trials)
  loopvars = set()
  for n in ast.walk(fi.node):
    if isinstance(n, ast.For) and isinstance(n.target, ast.Name):
      loopvars.add(n.target.id)
  cand = [c for c in appends if c.args[0].id in loopvars]
  if not cand:
    raise AnalysisError('ListOptimalTrials: append of the considered trial not found')
  c = cand[0]
  trialv = c.args[0].id
  g = cfgmod.CFG(fi.node)
  node = g.node_of(c)
  conds = g.controlling_conditions(node)
  txt = [('' if pol else 'not ') + unparse(x, 0) for x, pol in conds]

  def cmp_is(x, pol, left, right_suffix):
    if not (isinstance(x, ast.Compare) and len(x.ops) == 1 and dotted(x.left) == left
            and (dotted(x.comparators[0]) or '').endswith(right_suffix)):
      return False
    return (isinstance(x.ops[0], ast.Eq) and pol) or (isinstance(x.ops[0], ast.NotEq) and not pol)

  has_state = any(cmp_is(x, pol, f'{trialv}.state', '.SUCCEEDED') for x, pol in conds)
  has_subset = any(pol and ('issubset' in unparse(x, 0) or ('<=' in unparse(x, 0) and 'metric' in unparse(x, 0))) for x, pol in conds) \
      or any(pol and isinstance(x, ast.Compare) and isinstance(x.ops[0], ast.Eq) and 'len(' in unparse(x, 0) and 'metric' in unparse(x, 0)
             for x, pol in conds)
  has_nan = any(('isnan' in unparse(x, 0) and not pol and 'any(' in unparse(x, 0)) or ('isnan' in unparse(x, 0) and not pol)
                or ('isfinite' in unparse(x, 0) and pol) for x, pol in conds)
  if not (has_state and has_subset and has_nan) and node is not None and node.loops:
    # the tests may reach the append through a carried value (`vec = None ... if vec is None: continue`): decide on the
    # paths of one iteration instead - every feasible path to the append must have taken the three tests
    from vzstatic import pathcond
    header = next((m for m in g.nodes if m.kind == 'for' and m.ast is node.loops[-1]), None)
    if header is not None:
      starts = [m for m, lab in header.succs if lab in ('T', 'body', 'iter') or (m.loops and m.loops[-1] is header.ast)]
      pths = pathcond.paths(g, starts, node, stop=[header])
      def all_paths(formula):
        if not pths:
          return False
        for p_ in pths:
          ok_, _ = pathcond.implies(pathcond.conditions(p_), formula)
          if not ok_:
            return False
        return True
      has_state = has_state or all_paths(lambda a: a.get(lambda k: f'{trialv}.state' in k and 'SUCCEEDED' in k and '==' in k))
      has_subset = has_subset or all_paths(lambda a: a.get(lambda k: 'issubset' in k and 'metric' in k)) \
          or all_paths(lambda a: a.get(lambda k: k.startswith('all(') and ' in ' in k and 'metric' in k))
      def nan_ok_on(p_) -> bool:
        dec_ = pathcond.conditions(p_)
        ok_, _ = pathcond.implies(dec_, lambda a: (a.get(lambda k: 'isnan' in k) is False) or (a.get(lambda k: 'isfinite' in k) is True))
        if ok_:
          return True
        # a path that never enters the loop over the configured metrics has no objective value that could be NaN
        atoms_ = set()
        for t_, _pol in dec_:
          pathcond.atoms_of(t_, atoms_)
        if any('isnan' in k or 'isfinite' in k for k in atoms_):
          return False
        on_path = {n_.id for n_, _ in p_}
        for h_ in g.nodes:
          if h_.kind == 'for' and h_.id in on_path and any('isnan' in unparse(x_, 0) for x_ in ast.walk(h_.ast) if isinstance(x_, ast.Call)):
            body_first = {m_.id for m_, lab_ in h_.succs if m_.loops and m_.loops[-1] is h_.ast}
            if not (body_first & on_path):
              return True
        return False
      has_nan = has_nan or (bool(pths) and all(nan_ok_on(p_) for p_ in pths))
  ctx.check(has_state, 'R1', 'considered only if state == SUCCEEDED', c,
            'append is control-dependent on trial.state == SUCCEEDED',
            'infeasible / unfinished trials can enter the candidate set', construct='state-filter', func=fi.qualname)
  ctx.check(has_subset, 'R1', 'considered only if every configured metric is reported', c,
            'required metric ids must be a subset of the reported ones',
            'trials missing a configured metric can enter the candidate set (KeyError or wrong vector)',
            construct='metric-filter', func=fi.qualname)
  ctx.check(has_nan, 'R1', 'considered only if no objective value is NaN', c,
            'NaN objectives are filtered out',
            'no NaN test guards the candidate set: every comparison with NaN is False, so a trial whose '
            'objective is NaN is never dominated and is always reported as optimal',
            construct='nan-filter', func=fi.qualname)
  # R2: sign flip — an `if`/conditional expression whose test is `<goal> == ...GoalType.MINIMIZE` (possibly through a
  # local alias) with a negated value in the MINIMIZE arm and the plain value in the other arm
  def is_minimize(e: ast.AST) -> bool:
    e = flow.resolve_local(fi.node, e)
    return (dotted(e) or '').endswith('GoalType.MINIMIZE')

  def negated(e: ast.AST) -> bool:
    if isinstance(e, ast.UnaryOp) and isinstance(e.op, ast.USub):
      return True
    if isinstance(e, ast.BinOp) and isinstance(e.op, ast.Mult):
      return any((isinstance(x, ast.UnaryOp) and isinstance(x.op, ast.USub)) or
                 (isinstance(x, ast.Constant) and isinstance(x.value, (int, float)) and x.value < 0) for x in (e.left, e.right))
    return False

  def plain(e: ast.AST) -> bool:
    return isinstance(e, (ast.Subscript, ast.Name, ast.Attribute))
  ok = False
  for n in ast.walk(fi.node):
    if isinstance(n, (ast.If, ast.IfExp)) and isinstance(n.test, ast.Compare) and len(n.test.ops) == 1:
      op = n.test.ops[0]
      sides = [n.test.left, n.test.comparators[0]]
      if not any(is_minimize(x) for x in sides) or not isinstance(op, (ast.Eq, ast.NotEq)):
        continue
      if isinstance(n, ast.IfExp):
        t_arm, f_arm = [n.body], [n.orelse]
      else:
        def arm_values(stmts):
          out = [st.value for st in stmts if isinstance(st, ast.Assign)]
          out += [st.value.args[0] for st in stmts if isinstance(st, ast.Expr) and isinstance(st.value, ast.Call)
                  and isinstance(st.value.func, ast.Attribute) and st.value.func.attr == 'append' and len(st.value.args) == 1]
          return out
        t_arm, f_arm = arm_values(n.body), arm_values(n.orelse)
      if isinstance(op, ast.NotEq):
        t_arm, f_arm = f_arm, t_arm
      if any(negated(x) for x in t_arm) and any(plain(x) for x in f_arm) and not any(negated(x) for x in f_arm):
        ok = True
  # column order: the objective vector is built by iterating the study's metric specs, so that
  # every trial's vector has the same column order
  vec_iters = []
  for n2 in ast.walk(fi.node):
    if isinstance(n2, ast.For) and any(isinstance(cc.func, ast.Attribute) and cc.func.attr == 'append'
                                       and 'vector' in unparse(cc.func.value, 0) for cc in flow.calls_in(n2)) \
        and isinstance(n2.target, (ast.Tuple, ast.Name)) and n2 is not None:
      vec_iters.append(n2.iter)
    if isinstance(n2, ast.Assign) and isinstance(n2.value, (ast.ListComp,)) and any(
        isinstance(t, ast.Name) and 'vector' in t.id for t in n2.targets):
      vec_iters.append(n2.value.generators[0].iter)
  inner = [it for it in vec_iters if 'trial' not in unparse(it, 0).split('.')[0] or 'metric_id_to' in unparse(it, 0)]
  prov_ok = False
  g2 = cfgmod.CFG(fi.node)
  pv = flow.Provenance(g2, on_attr=lambda a: 'through')
  for it in vec_iters:
    o = pv.origins(it, g2.node_of(it))
    from_spec = any(k == 'attr' and (dotted(v) or '').endswith('study_spec.metrics') for k, v in o)
    from_trial = any(k == 'attr' and (dotted(v) or '').endswith('final_measurement.metrics') for k, v in o)
    if from_spec and not from_trial and 'raw_trial_list' not in unparse(it, 0):
      prov_ok = True
  ctx.check(prov_ok, 'R2', 'objective vector columns follow the study\'s metric order', fi.node,
            'vector built by iterating the configured metrics',
            'the objective vector is built in the order each trial happens to list its metrics: trials reporting the same metrics '
            'in a different order are compared column against the wrong column', construct='column-order', func=fi.qualname)
  ctx.check(ok, 'R2', 'sign flip keyed by GoalType.MINIMIZE', fi.node,
            'MINIMIZE arm negates, the other arm does not',
            'objective values are not negated for exactly the MINIMIZE metrics (dominance would be '
            'computed in the wrong direction for them)', construct='sign-flip', func=fi.qualname)


# ----------------------------------------------------------------------- R3
def _report(ctx, inst, node, fi, pred: Pred, want: str, extra_ok: bool = True, why_extra: str = '') -> None:
  if want == 'dominated':
    ok = pred.is_dom()
  else:
    ok = pred.is_not_dom()
  detail = ('predicate is outside the dominance algebra (e.g. all(<) or any(<=))' if pred.table is None else
            f'predicate truth table over (all(A<=B), all(B<=A)) is {pred.table}, expected '
            f'{"A<=B everywhere and not B<=A" if want == "dominated" else "not (A<=B everywhere and not B<=A)"}')
  ctx.check(ok and extra_ok, 'R3', inst, node,
            f'normalises to Pareto dominance ({want}) with the candidate on the dominated side',
            (detail if not ok else why_extra) + ': ties/duplicates or dominating points are classified wrongly',
            construct=inst, func=fi.qualname)


def r3_service(ctx, fi: FuncInfo) -> None:
  # dominated = asarray([[PRED for i in range(n)] for j in range(n)]); any(dominated, axis=0); logical_not
  target = None
  for n in ast.walk(fi.node):
    if isinstance(n, ast.ListComp) and isinstance(n.elt, ast.ListComp):
      target = n
  mat = None
  if target is not None:
    outer_v = target.generators[0].target.id
    inner_v = target.elt.generators[0].target.id
    pred_e = target.elt.elt
    # variable that holds the matrix, then the reduction
    asg = None
    for a in ancestors(target):
      if isinstance(a, ast.Assign):
        asg = a
    if asg is None:
      raise AnalysisError('dominance matrix is not assigned to a variable')
    mat = asg.targets[0].id
  else:
    # loop form: `M[j, i] = PRED` (or `M[j][i] = PRED`) inside two nested loops over the points: M[row][column]
    for n in ast.walk(fi.node):
      if isinstance(n, ast.Assign) and len(n.targets) == 1 and isinstance(n.targets[0], ast.Subscript):
        t = n.targets[0]
        idx = None
        if isinstance(t.slice, ast.Tuple) and len(t.slice.elts) == 2 and all(isinstance(x, ast.Name) for x in t.slice.elts) \
            and isinstance(t.value, ast.Name):
          idx, base = [x.id for x in t.slice.elts], t.value.id
        elif isinstance(t.value, ast.Subscript) and isinstance(t.slice, ast.Name) and isinstance(t.value.slice, ast.Name) \
            and isinstance(t.value.value, ast.Name):
          idx, base = [t.value.slice.id, t.slice.id], t.value.value.id
        loops_ = [a for a in ancestors(n) if isinstance(a, ast.For) and isinstance(a.target, ast.Name)]
        if idx and len(loops_) >= 2 and {idx[0], idx[1]} <= {l.target.id for l in loops_} and idx[0] != idx[1]:
          outer_v, inner_v, pred_e, mat = idx[0], idx[1], n.value, base
    if mat is None:
      raise AnalysisError('ListOptimalTrials: dominance matrix (nested comprehension or M[j, i] = ... in nested loops) not found')
  red_axis = None
  negated = False
  for n in ast.walk(fi.node):
    red = reduction(n)
    if red is not None and red[0] == 'any' and isinstance(red[1], ast.Name) and red[1].id == mat:
      red_axis = red[2]
      for a in ancestors(n):
        if isinstance(a, ast.Call) and (dotted(a.func) or '').endswith('logical_not'):
          negated = True
        if isinstance(a, ast.UnaryOp) and isinstance(a.op, (ast.Invert, ast.Not)):
          negated = True
        if isinstance(a, (ast.stmt,)):
          break
  # matrix[outer][inner]; reducing axis 0 removes the outer variable -> candidate = inner variable
  cand_v = inner_v if red_axis == 0 else outer_v if red_axis in (1, -1) else None

  def role(x):
    t = unparse(x, 0)
    if cand_v and t.endswith(f'[{cand_v}]'):
      return 'A'
    other = outer_v if cand_v == inner_v else inner_v
    if t.endswith(f'[{other}]'):
      return 'B'
    return None

  r3_selection(ctx, fi, mat)
  pred = parse_pred(pred_e, role, {})
  _report(ctx, 'ListOptimalTrials dominance matrix', pred_e, fi, pred, 'dominated',
          extra_ok=negated and cand_v is not None,
          why_extra='the reduced matrix is not negated exactly once before selecting optimal trials'
          if cand_v is not None else 'reduction axis of the dominance matrix not recognised')


def r3_selection(ctx, fi: FuncInfo, mat: str) -> None:
  """The trials returned are exactly the considered trials whose "optimal" flag is set: the statements between the
  flag vector and the response are interpreted on a three-trial model (flags True/False/True)."""
  from vzstatic import pathcond
  body = fi.node.body
  sel_i, sel = None, None
  for i, st in enumerate(body):
    if isinstance(st, ast.Assign) and len(st.targets) == 1 and isinstance(st.targets[0], ast.Name):
      for n in ast.walk(st.value):
        red = reduction(n)
        if red is not None and red[0] == 'any' and isinstance(red[1], ast.Name) and red[1].id == mat:
          sel_i, sel = i, st.targets[0].id
  loopvars = {n.target.id for n in ast.walk(fi.node) if isinstance(n, ast.For) and isinstance(n.target, ast.Name)}
  lists = [c.func.value.id for c in flow.calls_in(fi.node) if isinstance(c.func, ast.Attribute) and c.func.attr == 'append'
           and len(c.args) == 1 and isinstance(c.args[0], ast.Name) and c.args[0].id in loopvars and isinstance(c.func.value, ast.Name)]
  for n in ast.walk(fi.node):  # comprehension form of the considered list
    if isinstance(n, ast.Assign) and len(n.targets) == 1 and isinstance(n.targets[0], ast.Name) and isinstance(n.value, ast.ListComp) \
        and isinstance(n.value.elt, ast.Name) and len(n.value.generators) == 1 and isinstance(n.value.generators[0].target, ast.Name) \
        and n.value.elt.id == n.value.generators[0].target.id and n.value.generators[0].ifs and n in body and (sel_i is None or body.index(n) < sel_i):
      lists.append(n.targets[0].id)
  if sel is None or not lists:
    return  # flags not held in a top-level local: the reduction/negation obligations above are all that is decided
  tail = []
  for st in body[sel_i + 1:]:
    if isinstance(st, ast.Return) and isinstance(st.value, ast.Call):
      kw = next((k.value for k in st.value.keywords if k.arg == 'optimal_trials'), None)
      if kw is None and len(st.value.args) == 1:
        kw = st.value.args[0]
      if kw is None:
        return
      st = ast.copy_location(ast.Return(value=kw), st)
    tail.append(st)
  fn = ast.FunctionDef(name='<selection>', args=ast.arguments(posonlyargs=[], args=[], kwonlyargs=[], kw_defaults=[], defaults=[]),
                       body=tail, decorator_list=[])
  verdicts = []
  for T in dict.fromkeys(lists):
    for flags in ([True, False, True], [False, True, True], [False, False, True]):
      env = {T: ['t0', 't1', 't2'], sel: list(flags)}
      want = [t for t, b in zip(env[T], flags) if b]
      try:
        got = pathcond.run_concrete(fn, env, tolerant=True)
        got = list(got) if got is not None else None
      except (pathcond.NoValue, pathcond.Raised, TypeError, IndexError, KeyError):
        got = None
      verdicts.append((T, got, want))
  decided = [(T, g, w) for T, g, w in verdicts if g is not None]
  if decided:
    goodT = [T for T in dict.fromkeys(lists) if all(g == w for t, g, w in decided if t == T) and any(t == T for t, _, _ in decided)]
    ok = bool(goodT)
    bad = next(((T, g, w) for T, g, w in decided if g != w), None)
    ctx.check(ok, 'R3', 'ListOptimalTrials: the flagged trials are the ones returned', body[sel_i],
              f'three-trial model: the response holds exactly the trials of `{goodT[0] if goodT else ""}` whose flag in `{sel}` is set',
              f'three-trial model: with flags {bad[2] if bad else ""} expected, the response holds {bad[1] if bad else ""}: the trials returned '
              'are not the ones the dominance test marked optimal', construct='selection', func=fi.qualname)
    return
  # outside the model (array indexing, ...): structural fallback - flags and trials both feed the response, no further negation
  names = {x.id for st in tail for x in ast.walk(st) if isinstance(x, ast.Name)}
  neg = any((isinstance(x, ast.UnaryOp) and isinstance(x.op, (ast.Not, ast.Invert))) or
            (isinstance(x, ast.Call) and (dotted(x.func) or '').endswith('logical_not')) for st in tail for x in ast.walk(st))
  ctx.check(sel in names and any(T in names for T in lists) and not neg, 'R3', 'ListOptimalTrials: the flagged trials are the ones returned',
            body[sel_i], f'`{sel}` and the considered trials both feed the response, without a further negation',
            f'the response is not selected from the considered trials by `{sel}` (or the flags are negated again)',
            construct='selection', func=fi.qualname)


def _is_zero(e: ast.AST) -> bool:
  return isinstance(e, ast.Constant) and isinstance(e.value, (int, float)) and not isinstance(e.value, bool) and e.value == 0


def difference_compares(fn: ast.AST) -> List[ast.Compare]:
  """Comparisons `X - Y <op> 0` (directly or through a local bound to a subtraction) under all()/any().

  Deciding dominance on coordinate differences is not the order on the coordinates once +-inf may
  occur (the property quantifies over them): inf - inf is NaN and every comparison with NaN is
  False, so two points tied at +-inf in one coordinate are never related.
  """
  env: Dict[str, ast.AST] = {}
  for n in ast.walk(fn):
    if isinstance(n, ast.Assign) and len(n.targets) == 1 and isinstance(n.targets[0], ast.Name):
      env[n.targets[0].id] = n.value

  def is_diff(e: ast.AST, depth: int = 0) -> bool:
    if isinstance(e, ast.BinOp) and isinstance(e.op, ast.Sub):
      return True
    if isinstance(e, ast.Name) and e.id in env and depth < 4:
      return is_diff(env[e.id], depth + 1)
    if isinstance(e, ast.Subscript):
      return is_diff(e.value, depth)
    return False

  out = []
  for n in ast.walk(fn):
    if isinstance(n, ast.Call) and (dotted(n.func) or '').rsplit('.', 1)[-1] in ('all', 'any') and n.args:
      c = n.args[0]
      if isinstance(c, ast.Name) and c.id in env:
        c = env[c.id]
      if isinstance(c, ast.Compare) and len(c.ops) == 1:
        l, r = c.left, c.comparators[0]
        if (is_diff(l) and _is_zero(r)) or (is_diff(r) and _is_zero(l)):
          out.append(c)
  return out


def r7_shard_counts(ctx) -> None:
  """The sharded JAX filter compares every candidate against the slices between consecutive points of
  linspace(0, B, num_shards): with fewer than 2 points there is no slice, nothing is compared and every point is reported
  optimal.  So the default and every explicit num_shards argument in the library must be at least 2."""
  mod = ctx.index.need_module('vizier._src.jax.xla_pareto')
  n = 0

  def lower_bound(e: ast.AST) -> Optional[int]:
    if isinstance(e, ast.Constant) and isinstance(e.value, int):
      return e.value
    if isinstance(e, ast.Call) and dotted(e.func) == 'max':
      bs = [lower_bound(a) for a in e.args]
      known = [b for b in bs if b is not None]
      return max(known) if known else None
    if isinstance(e, ast.Call) and dotted(e.func) == 'min':
      bs = [lower_bound(a) for a in e.args]
      return None if any(b is None for b in bs) else min(bs)
    if isinstance(e, ast.BinOp) and isinstance(e.op, ast.Add):
      l, r = lower_bound(e.left), lower_bound(e.right)
      return None if l is None or r is None else l + r
    return None
  for fname in ('is_frontier', 'get_frontier'):
    f = mod.functions.get(fname)
    if f is None:
      continue
    a = f.node.args
    for arg, d in zip(a.kwonlyargs, a.kw_defaults):
      if arg.arg == 'num_shards' and d is not None:
        n += 1
        lb = lower_bound(d)
        ctx.check(lb is not None and lb >= 2, 'R7', f'xla_pareto.{fname}: default num_shards', d, f'default {unparse(d, 20)} >= 2',
                  f'default num_shards={unparse(d, 20)}: linspace(0, B, 1) has no slice, nothing is compared and every point is optimal',
                  construct=f'{fname}:default-shards', func=f.qualname)
  for f_ in ctx.src.py_files():
    if not f_.startswith('vizier/'):
      continue
    txt_ = ctx.src.read(f_)
    if 'is_frontier' not in txt_ and 'get_frontier' not in txt_:
      continue
    tree = ctx.src.parse(f_)
    for c in ast.walk(tree):
      if isinstance(c, ast.Call) and (dotted(c.func) or '').rsplit('.', 1)[-1] in ('is_frontier', 'get_frontier'):
        for k in c.keywords:
          if k.arg == 'num_shards':
            n += 1
            v = k.value
            fn_ = next((a_ for a_ in ancestors(c) if isinstance(a_, ast.FunctionDef)), None)
            if fn_ is not None:
              v = flow.resolve_local(fn_, v)
            lb = lower_bound(v)
            passthrough = isinstance(v, ast.Name)
            ctx.check(passthrough or (lb is not None and lb >= 2), 'R7', f'{f_.rsplit("/", 1)[-1]}: num_shards={unparse(k.value, 30)}', c,
                      'at least 2 (or the caller\'s own argument)',
                      f'num_shards = `{unparse(v, 50)}` can be {lb if lb is not None else "< 2"}: with one linspace point there is no shard, no point is '
                      'compared with any other, and every point of a small set is reported Pareto-optimal',
                      construct='shards<2', func=f_)
  if n == 0:
    raise AnalysisError('xla_pareto: no num_shards default found')


def r6_client_infeasible_flag(ctx) -> None:
  """Infeasible trials are never reported as optimal only if they are *stored* infeasible: the client marks a completion
  infeasible exactly when a reason was given (`is not None`), also for the empty reason string."""
  ci = ctx.index.need_class('vizier._src.service.vizier_client.VizierClient')
  fi = ci.methods.get('complete_trial')
  if fi is None:
    raise AnalysisError('VizierClient.complete_trial not found')
  site = None
  for c in ast.walk(fi.node):
    if isinstance(c, ast.Call) and (dotted(c.func) or '').endswith('CompleteTrialRequest'):
      for k in c.keywords:
        if k.arg == 'trial_infeasible':
          site = k.value
  for x in ast.walk(fi.node):
    if isinstance(x, ast.Assign) and any((dotted(t) or '').endswith('.trial_infeasible') for t in x.targets):
      site = x.value
  if site is None:
    raise AnalysisError('complete_trial: trial_infeasible is never set on the request')
  site = flow.resolve_local(fi.node, site)
  par = next((p_ for p_ in fi.params if 'reason' in p_), None)
  if par is None:
    raise AnalysisError('complete_trial: no reason parameter')

  def ev(e, val):
    if isinstance(e, ast.Name) and e.id == par:
      return val
    if isinstance(e, ast.Constant):
      return e.value
    if isinstance(e, ast.Call) and dotted(e.func) == 'bool' and len(e.args) == 1:
      return bool(ev(e.args[0], val))
    if isinstance(e, ast.UnaryOp) and isinstance(e.op, ast.Not):
      return not ev(e.operand, val)
    if isinstance(e, ast.Compare) and len(e.ops) == 1:
      l, r = ev(e.left, val), ev(e.comparators[0], val)
      op = e.ops[0]
      if isinstance(op, ast.Is):
        return l is r
      if isinstance(op, ast.IsNot):
        return l is not r
      if isinstance(op, ast.Eq):
        return l == r
      if isinstance(op, ast.NotEq):
        return l != r
    if isinstance(e, ast.BoolOp):
      vs = [ev(v, val) for v in e.values]
      return all(vs) if isinstance(e.op, ast.And) else any(vs)
    raise AnalysisError(f'complete_trial: cannot evaluate `{unparse(e, 50)}`')
  got = {repr(v): bool(ev(site, v)) for v in (None, '', 'oom')}
  want = {'None': False, "''": True, "'oom'": True}
  ctx.check(got == want, 'R6', 'client marks a completion infeasible iff a reason was given', fi.node,
            f'trial_infeasible = `{unparse(site, 50)}`: {got}',
            f'trial_infeasible = `{unparse(site, 50)}` gives {got}, expected {want}: a trial completed as infeasible with an empty reason is '
            'stored SUCCEEDED and can be reported as optimal', construct='client-infeasible-flag', func=fi.qualname)


def r5_no_difference_compare(ctx) -> None:
  sites = [
      ('vizier._src.algorithms.evolution.nsga2._pareto_rank', None),
      ('vizier._src.jax.xla_pareto._is_dominated', None),
      ('vizier._src.pyvizier.multimetric.pareto_optimal.NaiveParetoOptimalAlgorithm', 'is_pareto_optimal'),
      ('vizier._src.pyvizier.multimetric.pareto_optimal.NaiveParetoOptimalAlgorithm', 'is_pareto_optimal_against'),
      ('vizier._src.service.vizier_service.VizierServicer', 'ListOptimalTrials'),
  ]
  # the xla kernels: whatever functions are handed to the inner jax.vmap (resolved structurally)
  xmod = ctx.index.need_module('vizier._src.jax.xla_pareto')
  xk = []
  for user in ('_is_pareto_optimal_against', 'pareto_rank'):
    if user in xmod.functions:
      xk += [k_[0] for k_ in _xla_kernels(xmod, xmod.functions[user]).values()]
  sites = [s_ for s_ in sites if s_[0] != 'vizier._src.jax.xla_pareto._is_dominated']
  seen_k = set()
  for kfi in xk:
    if kfi.qualname in seen_k:
      continue
    seen_k.add(kfi.qualname)
    hits = difference_compares(kfi.node)
    ctx.check(not hits, 'R5', f'{kfi.qualname}: coordinates compared directly', hits[0] if hits else kfi.node,
              'no all()/any() over `X - Y <op> 0`',
              'dominance is decided on coordinate differences: inf - inf (and -inf - -inf) is NaN, which compares False, '
              'so points tied at +-inf in a coordinate are never dominated / never dominate',
              construct='difference-compare', func=kfi.qualname)
  if not seen_k:
    raise AnalysisError('xla_pareto: no dominance kernel resolved')
  for q, m in sites:
    if m is None:
      fi = ctx.index.need_func(q)
    else:
      fi = ctx.index.need_class(q).methods.get(m)
      if fi is None:
        raise AnalysisError(f'{q}.{m} not found')
    hits = difference_compares(fi.node)
    ctx.check(not hits, 'R5', f'{fi.qualname}: coordinates compared directly', hits[0] if hits else fi.node,
              'no all()/any() over `X - Y <op> 0`',
              'dominance is decided on coordinate differences: inf - inf (and -inf - -inf) is NaN, which compares False, '
              'so points tied at +-inf in a coordinate are never dominated / never dominate',
              construct='difference-compare', func=fi.qualname)


def r3_population_columns(ctx) -> None:
  """NSGA-II ranks `ys[:, :n_objectives]` and counts violations on the rest: the label columns must therefore be built
  from the objective metrics followed by the safety metrics, both as returned by `_filter_and_split`."""
  ci = ctx.index.need_class('vizier._src.algorithms.evolution.numpy_populations.PopulationConverter')
  init = ci.methods['__init__']
  split = None
  for x in ast.walk(init.node):
    if isinstance(x, ast.Assign) and isinstance(x.value, ast.Call) and (dotted(x.value.func) or '').endswith('_filter_and_split') \
        and isinstance(x.targets[0], ast.Tuple) and len(x.targets[0].elts) == 2:
      split = [unparse(t, 0) for t in x.targets[0].elts]
  if split is None:
    raise AnalysisError('PopulationConverter.__init__: `objective, safe = _filter_and_split(metrics)` not found')
  comps = [c for c in ast.walk(init.node) if isinstance(c, ast.ListComp)
           and any(isinstance(y, ast.Call) and (dotted(y.func) or '').endswith('_create_metric_converter') for y in ast.walk(c.elt))]
  if not comps:
    raise AnalysisError('PopulationConverter.__init__: metric converters are not built in a comprehension')

  def resolve(e, depth=0):
    # self._x = <expr> assigned once in __init__
    if depth < 4 and (isinstance(e, ast.Attribute) or isinstance(e, ast.Name)):
      defs = [a.value for a in ast.walk(init.node) if isinstance(a, ast.Assign) and len(a.targets) == 1 and unparse(a.targets[0], 0) == unparse(e, 0)]
      if len(defs) == 1:
        return resolve(defs[0], depth + 1)
    return e
  it = resolve(comps[0].generators[0].iter)
  ok = isinstance(it, ast.BinOp) and isinstance(it.op, ast.Add) and [unparse(it.left, 0), unparse(it.right, 0)] == split
  users = [m for m in ci.methods.values() for x in ast.walk(m.node) if isinstance(x, ast.Subscript) and 'num_objective' in unparse(x.slice, 0)]
  ctx.check(ok, 'R3', 'PopulationConverter: label columns are objectives then safety metrics', comps[0],
            f'metric converters built from `{split[0]} + {split[1]}`; {len(users)} column split(s) by the number of objectives',
            f'the label columns are built from `{unparse(comps[0].generators[0].iter, 50)}` (resolved: `{unparse(it, 60)}`), not from the objective metrics '
            'followed by the safety metrics, while the population is still split at the number of objectives: with a safety metric listed '
            'before an objective the dominance rank is computed on the wrong columns', construct='population-columns', func=ci.qualname)


def pathcond_sub(env, e):
  from vzstatic import pathcond
  import copy as _copy
  return pathcond._Sub(env).visit(_copy.deepcopy(e))


def r3_nsga2(ctx) -> None:
  fi = ctx.index.need_func('vizier._src.algorithms.evolution.nsga2._pareto_rank')
  comp = None
  for n in ast.walk(fi.node):
    if isinstance(n, ast.ListComp):
      comp = n
  loop_form = None
  if comp is None:
    # loop form: `for j in range(n): L.append(PRED(ys, ys[j]))` - the element is unfolded through the loop's locals
    for lp in (x for x in ast.walk(fi.node) if isinstance(x, ast.For) and isinstance(x.target, ast.Name)):
      apps = [st for st in lp.body if isinstance(st, ast.Expr) and isinstance(st.value, ast.Call) and isinstance(st.value.func, ast.Attribute)
              and st.value.func.attr == 'append' and len(st.value.args) == 1]
      if len(apps) == 1:
        env_ = {}
        for st in lp.body:
          if isinstance(st, ast.Assign) and len(st.targets) == 1 and isinstance(st.targets[0], ast.Name):
            env_[st.targets[0].id] = pathcond_sub(env_, st.value)
        loop_form = (lp, pathcond_sub(env_, apps[0].value.args[0]))
  if loop_form is not None:
    lp, elt = loop_form
    jv = lp.target.id
    axis = None
    for n in ast.walk(fi.node):
      if isinstance(n, ast.Call) and (dotted(n.func) or '').endswith('.sum'):
        for k in n.keywords:
          if k.arg == 'axis' and isinstance(k.value, ast.Constant):
            axis = k.value.value
    arr = fi.params[0]

    def role_l(x):
      t = unparse(x, 0)
      return 'B' if t == f'{arr}[{jv}]' else 'A' if t == arr else None
    pred = parse_pred(elt, role_l, {})
    _report(ctx, 'nsga2._pareto_rank', elt, fi, pred, 'dominated', extra_ok=axis == 0,
            why_extra='rank is not the count over the dominating points (sum over axis 0)')
    return
  if comp is None:
    # broadcast form: `ys[:, newaxis]` varies along axis 0, `ys[newaxis]` along axis 1; the points summed over are the
    # dominating ones
    env_b: Dict[str, ast.AST] = {}
    ret = None
    for st in fi.node.body:
      if isinstance(st, ast.Assign) and len(st.targets) == 1 and isinstance(st.targets[0], ast.Name):
        env_b[st.targets[0].id] = pathcond_sub(env_b, st.value)
      elif isinstance(st, ast.Return) and st.value is not None:
        ret = pathcond_sub(env_b, st.value)
    arr = fi.params[0]

    def bcast_axis(x) -> Optional[int]:
      """Axis along which `arr[...]` varies after inserting a new axis (None: not such an expression)."""
      if not (isinstance(x, ast.Subscript) and isinstance(x.value, ast.Name) and x.value.id == arr):
        return None
      def is_new(z):
        return (isinstance(z, ast.Constant) and z.value is None) or (dotted(z) or '').endswith('newaxis')
      def is_full(z):
        return isinstance(z, ast.Slice) and z.lower is None and z.upper is None and z.step is None
      sl = x.slice
      elts = list(sl.elts) if isinstance(sl, ast.Tuple) else [sl]
      if len(elts) == 1 and is_new(elts[0]):
        return 1
      if len(elts) >= 2 and is_new(elts[0]) and all(is_full(z) for z in elts[1:]):
        return 1
      if len(elts) == 2 and is_full(elts[0]) and is_new(elts[1]):
        return 0
      if len(elts) == 3 and is_full(elts[0]) and is_new(elts[1]) and is_full(elts[2]):
        return 0
      return None
    red = None
    if ret is not None:
      for n in ast.walk(ret):
        r_ = reduction(n)
        if r_ is not None and r_[0] == 'sum':
          red = r_
    if red is not None and any(bcast_axis(x) is not None for x in ast.walk(red[1])):
      axis = red[2]

      def role_b(x):
        ax = bcast_axis(x)
        if ax is None or axis not in (0, 1):
          return None
        return 'B' if ax == axis else 'A'
      pred = parse_pred(red[1], role_b, {})
      _report(ctx, 'nsga2._pareto_rank', red[1], fi, pred, 'dominated', extra_ok=axis in (0, 1),
              why_extra='rank is not the count over the dominating points (sum over one of the two point axes)')
      return
    if difference_compares(fi.node):
      ctx.bad('R3', 'nsga2._pareto_rank', fi.node,
              'the dominance predicate is computed on coordinate differences (see R5), not by comparing coordinates',
              construct='nsga2._pareto_rank', func=fi.qualname)
      return
    raise AnalysisError('_pareto_rank: comprehension not found')
  rv = comp.generators[0].target.id
  src = unparse(comp.generators[0].iter, 0)
  axis = None
  for n in ast.walk(fi.node):
    if isinstance(n, ast.Call) and (dotted(n.func) or '').endswith('.sum'):
      for k in n.keywords:
        if k.arg == 'axis' and isinstance(k.value, ast.Constant):
          axis = k.value.value
  # stack index 0 = r ; summing over axis 0 counts, per row of `ys`, the r that dominate it
  def role(x):
    t = unparse(x, 0)
    return 'B' if t == rv else 'A' if t == src else None
  pred = parse_pred(comp.elt, role, {})
  _report(ctx, 'nsga2._pareto_rank', comp.elt, fi, pred, 'dominated', extra_ok=axis == 0,
          why_extra='rank is not the count over the dominating points (sum over axis 0)')


def _xla_kernel_pred(ctx, mod, fi: FuncInfo, flagval: Optional[bool]) -> List[Tuple[ast.AST, Pred]]:
  """Dominance predicate(s) returned by a kernel `fi(y1, y2[, strict])`, with its `strict` flag (if it has one) fixed."""
  a, b = fi.params[0], fi.params[1]
  flag = next((p_ for p_ in fi.params if p_ == 'strict'), None)
  role = lambda x: 'A' if unparse(x, 0) == a else 'B' if unparse(x, 0) == b else None
  if flag is not None and flagval is not None:
    g = flag_cfg(fi.node, flag, flagval)
  else:
    g = cfgmod.CFG(fi.node)
  rd = flow.ReachingDefs(g)
  live = g.reachable([g.entry], include_starts=True)
  rets = [n for n in g.nodes if n in live and n.kind == 'stmt' and isinstance(n.ast, ast.Return) and n.ast.value is not None]
  if not rets:
    raise AnalysisError(f'{fi.name}: no return reachable (strict={flagval})')
  out = []
  for r in rets:
    e = simplify_bool(unfold(r.ast.value, r, g, rd, (flag, flagval) if flag is not None and flagval is not None else None))
    out.append((r.ast, parse_pred(e, role, {})))
  return out


def _xla_kernels(mod, user: FuncInfo) -> Dict[Optional[bool], Tuple[FuncInfo, Optional[bool]]]:
  """The kernel handed to the inner jax.vmap of `user`, per value of user's own `strict` parameter (key None when the
  choice does not depend on it): (kernel function, value of the kernel's strict flag or None)."""
  res: Dict[Optional[bool], Tuple[FuncInfo, Optional[bool]]] = {}

  def kernel_of(e, strict_val) -> Optional[Tuple[FuncInfo, Optional[bool]]]:
    e = flow.resolve_local(user.node, e)
    if isinstance(e, ast.IfExp) and unparse(e.test, 0) == 'strict' and strict_val is not None:
      return kernel_of(e.body if strict_val else e.orelse, strict_val)
    if isinstance(e, ast.Name) and e.id in mod.functions:
      return mod.functions[e.id], None
    if isinstance(e, ast.Call) and (dotted(e.func) or '').endswith('partial') and e.args and isinstance(e.args[0], ast.Name) \
        and e.args[0].id in mod.functions:
      fv = None
      for k in e.keywords:
        if k.arg == 'strict':
          if isinstance(k.value, ast.Constant):
            fv = bool(k.value.value)
          elif unparse(k.value, 0) == 'strict':
            fv = strict_val
      return mod.functions[e.args[0].id], fv
    return None
  vmaps = [c for c in ast.walk(user.node) if isinstance(c, ast.Call) and (dotted(c.func) or '').endswith('vmap') and c.args]
  inner = [c for c in vmaps if not (isinstance(c.args[0], ast.Name) and any(
      isinstance(x, ast.Assign) and any(isinstance(t, ast.Name) and t.id == c.args[0].id for t in x.targets)
      and isinstance(x.value, ast.Call) and (dotted(x.value.func) or '').endswith('vmap') for x in ast.walk(user.node)))]
  for c in inner:
    vals = (True, False) if 'strict' in user.params else (None,)
    for sv in vals:
      k = kernel_of(c.args[0], sv)
      if k is not None:
        res[sv] = k
  return res


def r3_xla(ctx) -> None:
  mod = ctx.index.need_module('vizier._src.jax.xla_pareto')
  f2 = mod.functions.get('_is_pareto_optimal_against')
  if f2 is None:
    raise AnalysisError('xla_pareto._is_pareto_optimal_against not found')
  ks = _xla_kernels(mod, f2)
  if True not in ks or False not in ks:
    raise AnalysisError(f'xla_pareto._is_pareto_optimal_against: dominance kernel handed to jax.vmap not resolved ({sorted(map(str, ks))})')
  fi = ks[True][0]
  for val, want in ((True, 'dominated'), (False, 'weak')):
    kfi, kflag = ks[val]
    for node_, pred in _xla_kernel_pred(ctx, mod, kfi, kflag):
      if want == 'dominated':
        _report(ctx, 'xla_pareto._is_dominated (strict)', node_, kfi, pred, 'dominated')
      else:
        ok = pred.table == {k: k[0] for k in DOM}
        ctx.check(ok, 'R3', 'xla_pareto._is_dominated (non-strict)', node_, 'weakly dominated: all(y1 <= y2)',
                  f'non-strict predicate has truth table {pred.table}, expected all(y1 <= y2)', construct='xla-weak', func=kfi.qualname)
  # usage: vmap(None,0) then vmap(0,None) -> [first arg index, second arg index]; any over last axis; not
  f2 = mod.functions.get('_is_pareto_optimal_against')
  txt = unparse(f2.node, 0)
  neg = any((isinstance(x, ast.Call) and (dotted(x.func) or '').endswith('logical_not')) or
            (isinstance(x, ast.UnaryOp) and isinstance(x.op, (ast.Invert, ast.Not))) for r in ast.walk(f2.node)
            if isinstance(r, ast.Return) and r.value is not None for x in [flow.resolve_local(f2.node, r.value)])
  reds = [reduction(x) for x in ast.walk(f2.node)]
  any_last = any(r is not None and r[0] == 'any' and r[2] in (-1, 1) for r in reds)
  ok = '(None, 0), 0' in txt and '(0, None)' in txt and any_last and neg
  ctx.check(ok, 'R3', 'xla_pareto._is_pareto_optimal_against orientation', f2.node,
            'matrix [candidate, baseline], any over the baseline axis, negated once',
            'the vmap axes / reduction axis / negation around _is_dominated no longer say "no baseline point dominates"',
            construct='xla-orientation', func=f2.qualname)
  f3 = mod.functions.get('pareto_rank')
  if f3 is not None:
    t3 = unparse(f3.node, 0)
    sums = [reduction(x) for x in ast.walk(f3.node)]
    row_sum = any(r is not None and r[0] == 'sum' and r[2] in (1, -1) for r in sums)
    ks3 = _xla_kernels(mod, f3)
    strict_ok = bool(ks3)
    for _, (kfi3, kflag3) in ks3.items():
      flag3 = 'strict' in kfi3.params
      fv3 = kflag3 if kflag3 is not None else (True if flag3 else None)  # an omitted flag takes the kernel's default
      if flag3 and kflag3 is None:
        dflt = dict(zip(reversed([a_.arg for a_ in kfi3.node.args.args]), reversed(kfi3.node.args.defaults))).get('strict')
        fv3 = bool(dflt.value) if isinstance(dflt, ast.Constant) else None
      for _, pred3 in _xla_kernel_pred(ctx, mod, kfi3, fv3):
        strict_ok = strict_ok and pred3.is_dom()
    rets3 = [r for r in ast.walk(f3.node) if isinstance(r, ast.Return) and r.value is not None]
    plain = all(reduction(flow.resolve_local(f3.node, r.value)) is not None for r in rets3)
    ctx.check(strict_ok and plain, 'R3', 'xla_pareto.pareto_rank counts strict dominance', f3.node,
              'rank = number of points that strictly dominate (no correction term)',
              'pareto_rank counts weak dominance (or corrects the count afterwards): every exact duplicate of a point raises its rank, so the '
              'rank-0 points are no longer the Pareto frontier', construct='xla-rank-strict', func=f3.qualname)
    ctx.check(row_sum and '(None, 0), 0' in t3 and '(0, None)' in t3, 'R3', 'xla_pareto.pareto_rank orientation', f3.node,
              'rank = row sum of the [candidate, other] domination matrix',
              'pareto_rank no longer counts the points dominating each candidate', construct='xla-rank', func=f3.qualname)


def r3_naive(ctx) -> None:
  ci = ctx.index.need_class('vizier._src.pyvizier.multimetric.pareto_optimal.NaiveParetoOptimalAlgorithm')
  f = ci.methods['is_pareto_optimal_against']
  other = f.params[2] if len(f.params) > 2 else 'against'
  flag = 'strict'
  # per row of `against` (B) and candidate `point` (A): the candidate becomes optimal iff all rows satisfy ROWPRED.
  # expected ROWPRED: non-strict: not weakly dominated (not p); strict: not dominated (not (p and not q))
  want = {False: {k: (not k[0]) for k in DOM}, True: {k: not v for k, v in DOM.items()}}
  for val in (False, True):
    g = flag_cfg(f.node, flag, val)
    rd = flow.ReachingDefs(g)
    live = g.reachable([g.entry], include_starts=True)
    loopv = None
    for n in ast.walk(f.node):
      if isinstance(n, ast.For) and isinstance(n.target, ast.Tuple) and len(n.target.elts) == 2 and isinstance(n.target.elts[1], ast.Name):
        loopv = n.target.elts[1].id
    pts = f.params[1] if len(f.params) > 1 else 'points'
    import re as _re
    role = lambda x: 'A' if (unparse(x, 0) == loopv or _re.fullmatch(_re.escape(pts) + r'\[\w+\]', unparse(x, 0))) \
        else 'B' if unparse(x, 0) == other else None
    rowpreds: List[Pred] = []
    for n in g.nodes:
      if n not in live or n.kind != 'stmt' or not isinstance(n.ast, ast.Assign):
        continue
      tg = n.ast.targets[0]
      if not (isinstance(tg, ast.Subscript) and 'is_optimal' in unparse(tg.value, 0)):
        continue
      val_e = n.ast.value
      conds: List[ast.AST] = []
      if isinstance(val_e, ast.Constant) and val_e.value is True:
        # optimal under the controlling conditions of this store
        for c_, pol in g.controlling_conditions(n):
          if not pol:
            continue
          conds.append(c_)
      elif isinstance(val_e, ast.Constant):
        continue
      else:
        conds.append(val_e)
      for c_ in conds:
        e = simplify_bool(unfold(c_, n, g, rd, (flag, val)))
        if isinstance(e, ast.Constant):
          continue
        red = reduction(e)
        if red is None or red[0] != 'all':
          if any(isinstance(x, ast.Name) and x.id in (loopv, other, pts) for x in ast.walk(e)) and not (
              isinstance(e, ast.UnaryOp) and 'is_optimal' in unparse(e, 0)) and 'is_optimal' not in unparse(e, 0):
            raise AnalysisError(f'is_pareto_optimal_against: condition `{unparse(e, 70)}` is not an all() over the rows of `{other}`')
          continue
        rowpreds.append(parse_pred(red[1], role, {}))
    if not rowpreds:
      raise AnalysisError(f'is_pareto_optimal_against: no store making a point optimal found (strict={val})')
    # the point is optimal if ANY of the conditions holds; with pointwise implication the weakest row predicate decides
    tabs = [p_.table for p_ in rowpreds]
    weakest = None
    if all(t is not None for t in tabs):
      for t in tabs:
        if all(all((not o[k]) or t[k] for k in DOM) for o in tabs):
          weakest = t
    ctx.check(weakest == want[val], 'R3', f'Naive.is_pareto_optimal_against (strict={val})', f.node,
              'optimal iff every row of `against` fails to ' + ('dominate' if val else 'weakly dominate') + ' the point',
              f'row predicate truth table over (all(A<=B), all(B<=A)) is {weakest or tabs}, expected {want[val]}: dominated / tied points are classified wrongly',
              construct=f'naive-against:{val}', func=f.qualname)
  # is_pareto_optimal: survivors q satisfy any(q > point) | all(q == point)  == q not dominated by point
  gm = ci.methods['is_pareto_optimal']
  expr = None
  lv = None
  stn = None
  for n in ast.walk(gm.node):
    if isinstance(n, ast.For) and isinstance(n.target, ast.Tuple) and len(n.target.elts) == 2 and isinstance(n.target.elts[1], ast.Name):
      lv = n.target.elts[1].id
    if isinstance(n, ast.Assign) and isinstance(n.targets[0], ast.Subscript) and isinstance(n.value, ast.BinOp):
      expr, stn = n.value, n
  if expr is None:
    raise AnalysisError('is_pareto_optimal: update expression not found')
  g2 = cfgmod.CFG(gm.node)
  rd2 = flow.ReachingDefs(g2)
  e2 = unfold(expr, g2.node_of(stn), g2, rd2)
  idx_vars = {t_.id for n_ in ast.walk(gm.node) if isinstance(n_, ast.For) for t_ in ast.walk(n_.target) if isinstance(t_, ast.Name)}

  def role2(x):
    t_ = unparse(x, 0)
    if lv is not None and t_ == lv:
      return 'B'
    if isinstance(x, ast.Subscript) and unparse(x.value, 0) == gm.params[1]:
      if isinstance(x.slice, ast.Name) and x.slice.id in idx_vars:
        return 'B'
      return 'A'
    return None
  p3 = parse_pred(e2, role2, {})
  _report(ctx, 'Naive.is_pareto_optimal survivor test', expr, gm, p3, 'optimal')


def r4_safety_alignment(ctx) -> None:
  """Per-trial flags are paired with the trials they were computed for: both operands of a zip() in the safety checker
  range over the same (unfiltered, or identically filtered) list."""
  mod = ctx.index.need_module('vizier._src.pyvizier.multimetric.safety')
  n = 0
  for ci in mod.classes.values():
    for m in ci.methods.values():
      asg = {}
      for x in ast.walk(m.node):
        if isinstance(x, ast.Assign) and len(x.targets) == 1 and isinstance(x.targets[0], ast.Name):
          asg.setdefault(x.targets[0].id, []).append(x.value)

      def sources(e, depth=0, seen=None):
        """names of filtered lists (comprehension with `if`, filter()) that `e` is computed from"""
        seen = seen if seen is not None else set()
        out = set()
        if depth > 5:
          return out
        for y in ast.walk(e):
          if isinstance(y, ast.Name) and y.id in asg and y.id not in seen:
            seen.add(y.id)
            for v in asg[y.id]:
              if (isinstance(v, (ast.ListComp, ast.GeneratorExp)) and any(g_.ifs for g_ in v.generators)) or \
                  (isinstance(v, ast.Call) and dotted(v.func) in ('filter', 'itertools.compress', 'list') and v.args and isinstance(v.args[0], ast.Call)
                   and dotted(v.args[0].func) == 'filter'):
                out.add(y.id)
              out |= sources(v, depth + 1, seen)
        return out
      for c in flow.calls_in(m.node):
        if dotted(c.func) == 'zip' and len(c.args) >= 2:
          n += 1
          srcs = [frozenset(sources(a)) for a in c.args]
          ctx.check(len(set(srcs)) == 1, 'R4', f'{ci.name}.{m.name}: `{unparse(c, 40)}` pairs like with like', c,
                    'all operands range over the same list',
                    f'`{unparse(c, 50)}`: the operands are computed from different selections of the trials ({[sorted(s_) for s_ in srcs]}): after the first '
                    'trial that was filtered out every flag is applied to the next trial - a safe, non-dominated trial is warped to the worst value '
                    'and an unsafe one is reported as best', construct=f'{ci.name}.{m.name}:misaligned-zip', func=m.qualname)
  if n < 1:
    raise AnalysisError('SafetyChecker: no zip of trials with their flags found')


# ----------------------------------------------------------------------- R4
def r4_best_trials(ctx) -> None:
  ci = ctx.index.need_class('vizier._src.pythia.local_policy_supporters.InRamPolicySupporter')
  fi = ci.methods.get('GetBestTrials')
  if fi is None:
    raise AnalysisError('InRamPolicySupporter.GetBestTrials not found')
  # the query is recomputed from the current trials: it keeps no memo (trials are handed out by reference and completed
  # in place, so nothing the supporter could key a cache on changes when the answer does)
  memo = [x for x in ast.walk(fi.node) if isinstance(x, (ast.Assign, ast.AugAssign)) and any(
      flow.root_name(t) == 'self' for t in (x.targets if isinstance(x, ast.Assign) else [x.target]))]
  memo += [d for d in fi.node.decorator_list if 'cache' in unparse(d, 0)]
  ctx.check(not memo, 'R4', 'GetBestTrials keeps no memo', memo[0] if memo else fi.node, 'no store to self.* and no caching decorator',
            f'`{unparse(memo[0], 60) if memo else ""}`: the best-trial query remembers an earlier answer; trials obtained from the supporter '
            'are completed in place, which no invalidation hook sees, so a later query returns trials that are no longer optimal',
            construct='best-trials-memo', func=fi.qualname)
  flip = any(isinstance(k, ast.keyword) and k.arg == 'flip_sign_for_minimization_metrics'
             and isinstance(k.value, ast.Constant) and k.value.value is True for k in ast.walk(fi.node))
  ctx.check(flip, 'R4', 'labels with flip_sign_for_minimization_metrics=True', fi.node,
            'all objectives are turned into maximisation before ranking',
            'MINIMIZE metrics are ranked as if they were maximised', construct='flip', func=fi.qualname)
  g = cfgmod.CFG(fi.node)
  warp = [n for n in g.nodes if any((dotted(c.func) or '').endswith('warp_unsafe_trials') for c in flow.node_calls(n))]
  rank = [n for n in g.nodes if any((dotted(c.func) or '').endswith(('argsort', 'is_pareto_optimal')) for c in flow.node_calls(n))]
  dom = g.dominators()
  ok = bool(warp) and bool(rank) and all(warp[0].id in dom[r.id] for r in rank)
  # the ranked labels derive from the warped trials
  prov = flow.Provenance(g)
  derived = True
  for r in rank:
    for c in flow.node_calls(r):
      if (dotted(c.func) or '').endswith(('argsort', 'is_pareto_optimal')):
        o = set()
        for a in list(c.args) + [k.value for k in c.keywords]:
          o |= prov.origins(a, r)
        if not any(k == 'call' and (dotted(v.func) or '').endswith('warp_unsafe_trials') for k, v in o):
          derived = False
  ctx.check(ok and derived, 'R4', 'unsafe trials are warped before ranking', fi.node,
            'warp_unsafe_trials dominates and feeds the ranking',
            'ranking does not use the safety-warped trials: unsafe trials can be reported as best',
            construct='warp', func=fi.qualname)
  desc = any(isinstance(c, ast.Call) and (dotted(c.func) or '').endswith('argsort') and c.args
             and isinstance(c.args[0], ast.UnaryOp) and isinstance(c.args[0].op, ast.USub) for c in ast.walk(fi.node))
  ctx.check(desc, 'R4', 'single objective: descending order', fi.node, 'argsort(-labels)',
            'single-objective best trials are not taken in descending label order', construct='desc', func=fi.qualname)


_SVC = 'vizier/_src/service/vizier_service.py'
VARIANTS = [
    Variant('svc-le-to-lt', _SVC, 'np.all(ys[i] <= ys[j]) & np.any(ys[j] > ys[i])',
            'np.all(ys[i] < ys[j]) & np.any(ys[j] > ys[i])', rule='R3'),
    Variant('svc-any-to-all', _SVC, 'np.all(ys[i] <= ys[j]) & np.any(ys[j] > ys[i])',
            'np.all(ys[i] <= ys[j]) & np.all(ys[j] > ys[i])', rule='R3'),
    Variant('svc-swapped-side', _SVC, 'np.all(ys[i] <= ys[j]) & np.any(ys[j] > ys[i])',
            'np.all(ys[j] <= ys[i]) & np.any(ys[j] > ys[i])', rule='R3'),
    Variant('svc-wrong-axis', _SVC, 'np.logical_not(np.any(dominated, axis=0))',
            'np.logical_not(np.any(dominated, axis=1))', rule='R3'),
    Variant('svc-drop-succeeded', _SVC,
            '          trial.state == study_pb2.Trial.State.SUCCEEDED\n          and required_metric_ids',
            '          required_metric_ids', rule='R1'),
    Variant('svc-drop-sign-flip', _SVC, 'vector_value = -1.0 * trial_metric_id_to_value[metric_id]',
            'vector_value = trial_metric_id_to_value[metric_id]', rule='R2'),
    Variant('nsga2-weak-only', 'vizier/_src/algorithms/evolution/nsga2.py',
            'np.all(ys <= r, axis=-1) & np.any(r > ys, axis=-1)', 'np.all(ys <= r, axis=-1)', rule='R3'),
    Variant('xla-swapped', 'vizier/_src/jax/xla_pareto.py', 'dominated_or_equal = jnp.all(y1 <= y2)',
            'dominated_or_equal = jnp.all(y2 <= y1)', rule='R3'),
    Variant('naive-ge', 'vizier/_src/pyvizier/multimetric/pareto_optimal.py',
            'np.any(points[is_optimal] > point, axis=1)', 'np.any(points[is_optimal] >= point, axis=1)', rule='R3'),
    Variant('best-no-flip', 'vizier/_src/pythia/local_policy_supporters.py',
            'flip_sign_for_minimization_metrics=True,\n        dtype=np.float32', 'flip_sign_for_minimization_metrics=False,\n        dtype=np.float32', rule='R4'),
    Variant('nsga2-gaps', 'vizier/_src/algorithms/evolution/nsga2.py',
            'dominated = [np.all(ys <= r, axis=-1) & np.any(r > ys, axis=-1) for r in ys]',
            'dominated = [np.all(r - ys >= 0, axis=-1) & np.any(r - ys > 0, axis=-1) for r in ys]', rule='R5'),
    Variant('benign-continue-guard', _SVC,
            "    for trial in raw_trial_list:\n      trial_metric_id_to_value = {",
            "    for trial in raw_trial_list:\n      if trial.state != study_pb2.Trial.State.SUCCEEDED:\n        continue\n      trial_metric_id_to_value = {",
            expect='silent'),
    Variant('benign-demorgan', _SVC, 'np.all(ys[i] <= ys[j]) & np.any(ys[j] > ys[i])',
            'np.all(ys[i] <= ys[j]) & ~np.all(ys[j] <= ys[i])', expect='silent'),
    Variant('benign-swap-operands', 'vizier/_src/algorithms/evolution/nsga2.py',
            'np.all(ys <= r, axis=-1) & np.any(r > ys, axis=-1)', 'np.all(r >= ys, axis=-1) & np.any(ys < r, axis=-1)', expect='silent'),
]
