"""C18 — output warping keeps the ranking, yields finite labels, leaves its input intact.

Structural clauses:
  R1 no input mutation: in every warp()/unwarp() of the module (and in
     _validate_labels) no in-place store goes to an array that may alias the
     caller's argument — flow-sensitive alias domain {fresh, may-alias} with a
     trusted table of fresh-producing and alias-preserving numpy operations;
  R2 an argsort result is an *index*, not a rank: it may be used only in the
     index position of a subscript or as the argument of another argsort;
     reaching arithmetic / a return as data replaces labels by positions in
     sort order, which reverses orderings;
  R3 pipeline composition: warp() copies and validates before its shortcuts and
     applies self.warpers in order, unwarp() in reverse order; in both
     factories the NaN-removing stage comes after every NaN-preserving or
     NaN-creating stage;
  R4 the infeasible stage assigns NaN entries `nanmin - (positive term)` and
     shifts afterwards;
  R5 stateful warpers are never shared between metrics (no `[<call>] * n`).
Monotonicity of the numerical transforms and unwarp(warp(x)) == x are not
decided.
"""

from __future__ import annotations

import ast
from typing import Dict, List, Optional, Set

from vzstatic import cfg as cfgmod
from vzstatic import flow
from vzstatic.index import ClassInfo, FuncInfo, dotted
from vzstatic.selftest import Variant
from vzstatic.source import AnalysisError, ancestors, loc, parent, unparse

MANIFEST = {
    'technique': ('flow-sensitive alias analysis (fresh / may-alias-argument) over the CFG of every '
                  'warp/unwarp; index-vs-data use classification of argsort results; stage-order '
                  'check of the pipeline factories against a table of stage kinds; sign-structure check'
                  '; exact-branch rule (no tolerance calls in warp conditions); definite assignment of warp->unwarp state; infeasible value positivity decided symbolically (sympy)'
                  '; stale-mask dataflow (mask defined, array written, mask reused); shape-provenance of zip operands'),
    'level_text': (
        'Static: no warper can write into its caller\'s array, no sort index is used as a label, '
        'pipelines run forward in order and backward in reverse with the NaN-removing stage last '
        'among the NaN-sensitive ones, infeasible entries are placed strictly below the minimum, '
        'and per-metric warpers are distinct objects. Necessary for "input intact", "never '
        'reverses an order" and "finite output". Monotonicity and numerical inverses are not decided.'),
    'level_note': ('Trusted numpy facts: astype/flatten/copy.deepcopy/np.array/arithmetic/boolean-mask '
                   'indexing return new arrays; np.asarray/reshape/ravel/basic slices/[:, None] may alias.'),
}

OW = 'vizier/_src/algorithms/designers/gp/output_warpers.py'
FRESH_METHODS = {'astype', 'flatten', 'copy', 'tolist'}
ALIAS_METHODS = {'reshape', 'ravel', 'squeeze', 'view', 'transpose', 'T'}
FRESH_FUNCS = {'copy.deepcopy', 'np.array', 'np.zeros', 'np.ones', 'np.zeros_like', 'np.ones_like', 'np.empty',
               'np.full', 'np.concatenate', 'np.stack', 'np.where', 'np.interp', 'np.unique', 'np.sort',
               'np.copy', 'np.nan_to_num', 'np.clip', 'np.exp', 'np.log', 'np.log1p', 'np.sqrt', 'np.abs'}
ALIAS_FUNCS = {'np.asarray', 'np.reshape', 'np.ravel', 'np.squeeze', 'np.atleast_2d', 'np.asanyarray', 'jnp.asarray'}
NAN_STAGES = {
    'HalfRankComponent': 'leaves NaN entries untouched',
    'LogWarperComponent': 'leaves NaN entries untouched',
    'DetectOutliers': 'turns outliers into NaN',
}
NAN_REMOVER = 'InfeasibleWarperComponent'


class AliasAnalysis:
  """var -> True if it may alias the caller's argument."""

  def __init__(self, ctx, fi: FuncInfo, param: str, fresh_callees: Set[str]):
    self.ctx, self.fi, self.param = ctx, fi, param
    self.fresh_callees = fresh_callees
    self.g = cfgmod.CFG(fi.node)
    self.violations: List[cfgmod.Node] = []

  def may_alias(self, e: ast.AST, env: Dict[str, bool]) -> bool:
    if isinstance(e, ast.Name):
      return env.get(e.id, False)
    if isinstance(e, ast.Call):
      d = dotted(e.func) or ''
      if d in FRESH_FUNCS or d in self.fresh_callees:
        return False
      if d in ALIAS_FUNCS:
        return any(self.may_alias(a, env) for a in e.args)
      if isinstance(e.func, ast.Attribute):
        if e.func.attr in FRESH_METHODS:
          return False
        if e.func.attr in ALIAS_METHODS:
          return self.may_alias(e.func.value, env)
      return False
    if isinstance(e, ast.Subscript):
      # boolean-mask / fancy indexing copies; basic slices and None-insertion alias
      s = e.slice
      elems = s.elts if isinstance(s, ast.Tuple) else [s]
      basic = all(isinstance(x, ast.Slice) or (isinstance(x, ast.Constant) and (x.value is None or isinstance(x.value, int)))
                  or (isinstance(x, ast.Attribute) and x.attr == 'newaxis') or isinstance(x, ast.UnaryOp)
                  for x in elems)
      return basic and self.may_alias(e.value, env)
    if isinstance(e, ast.Attribute):
      if e.attr == 'T':
        return self.may_alias(e.value, env)
      return False
    if isinstance(e, ast.IfExp):
      return self.may_alias(e.body, env) or self.may_alias(e.orelse, env)
    return False  # arithmetic, comparisons, literals: new objects

  def run(self) -> List[cfgmod.Node]:
    init = {self.param: True}

    def transfer(node, env, succ, label):
      if node.kind != 'stmt':
        if node.kind == 'for':
          env = dict(env)
          for name, _ in flow.target_names(node.ast.target):
            env[name] = False
        return env
      a = node.ast
      env = dict(env)
      if isinstance(a, ast.Assign):
        v = self.may_alias(a.value, env)
        for t in a.targets:
          if isinstance(t, ast.Name):
            env[t.id] = v
          elif isinstance(t, (ast.Tuple, ast.List)):
            for name, _ in flow.target_names(t):
              env[name] = False
      elif isinstance(a, ast.AnnAssign) and isinstance(a.target, ast.Name) and a.value is not None:
        env[a.target.id] = self.may_alias(a.value, env)
      return env

    def join(x, y):
      out = dict(x)
      for k, v in y.items():
        out[k] = out.get(k, False) or v
      return out

    state = cfgmod.forward(self.g, init, transfer, join)
    bad = []
    for n in self.g.nodes:
      if n.kind != 'stmt' or n.id not in state:
        continue
      env = state[n.id]
      a = n.ast
      targets = []
      if isinstance(a, ast.Assign):
        targets = [t for t in a.targets if isinstance(t, ast.Subscript)]
      elif isinstance(a, ast.AugAssign):
        targets = [a.target]
      for t in targets:
        base = t.value if isinstance(t, ast.Subscript) else t
        if self.may_alias(base, env):
          bad.append(n)
      for c in flow.node_calls(n):
        if isinstance(c.func, ast.Attribute) and c.func.attr in ('sort', 'fill', 'put', 'itemset', 'resize') \
            and self.may_alias(c.func.value, env):
          bad.append(n)
    return bad


def run(ctx) -> None:
  ctx.rule('R1', 'no in-place store into an array that may alias the argument of warp/unwarp/_validate_labels', 12)
  ctx.rule('R2', 'argsort results are used as indices only', 1)
  ctx.rule('R3', 'pipeline: copy+validate first, warpers in order / reverse order, NaN remover after NaN stages', 4)
  ctx.rule('R4', 'infeasible entries get nanmin - (positive term), assigned before the shift', 1)
  ctx.rule('R5', 'stateful warpers are not shared by list multiplication', 1)
  ctx.rule('R6', 'warp() selects its branches with exact comparisons (no isclose/allclose/rounding in branch conditions)', 8)
  ctx.rule('R9', 'arrays walked in lock step (zip) are both functions of the whole label array: none of them is computed from a '
           'masked subset', 0)
  ctx.rule('R8', 'a NaN / finiteness mask that selects entries of an array is computed from the array as it is at that point '
           '(not re-used after the array was written)', 4)
  ctx.rule('R7', 'state kept by warp() for unwarp() is assigned on every path of warp()', 1)
  mi = ctx.index.module_of_file(OW)
  # summary of helper(s): functions whose every return derives from a fresh producer applied first
  fresh_callees: Set[str] = set()
  vl = mi.functions.get('_validate_labels')
  if vl is None:
    raise AnalysisError('_validate_labels not found')
  aa = AliasAnalysis(ctx, vl, vl.params[0], set())
  bad = aa.run()
  ctx.check(not bad, 'R1', '_validate_labels', vl.node, 'copies (astype) before it writes',
            f'writes into its argument at line {bad[0].lineno if bad else 0} before taking a copy: every warper that relies on '
            '_validate_labels for its private copy now scrubs -inf -> NaN in the caller\'s array',
            construct='validate-labels', func=vl.qualname)
  # is the returned value fresh?
  g = cfgmod.CFG(vl.node)
  rets = [n for n in g.nodes if n.kind == 'stmt' and isinstance(n.ast, ast.Return) and n.ast.value is not None]
  st = cfgmod.forward(g, {vl.params[0]: True},
                      lambda node, env, s, l: ({**env, **{t.id: aa.may_alias(node.ast.value, env) for t in node.ast.targets if isinstance(t, ast.Name)}}
                                               if node.kind == 'stmt' and isinstance(node.ast, ast.Assign) else env),
                      lambda x, y: {k: x.get(k, False) or y.get(k, False) for k in set(x) | set(y)})
  returns_fresh = all(not aa.may_alias(r.ast.value, st.get(r.id, {})) for r in rets)
  if returns_fresh:
    fresh_callees.add('_validate_labels')
  n_methods = 0
  for ci in mi.classes.values():
    for name in ('warp', 'unwarp'):
      m = ci.methods.get(name)
      if m is None or len(m.params) < 2:
        continue
      if all(isinstance(s, (ast.Raise, ast.Pass)) or (isinstance(s, ast.Expr) and isinstance(s.value, ast.Constant)) for s in m.node.body):
        continue
      n_methods += 1
      b = AliasAnalysis(ctx, m, m.params[1], fresh_callees).run()
      ctx.check(not b, 'R1', f'{ci.name}.{name}', m.node, 'every in-place store targets a private copy',
                f'in-place store at line {b[0].lineno if b else 0} (`{unparse(b[0].ast, 70) if b else ""}`) into an array that may '
                'still be the caller\'s labels: warping modifies its input', construct=f'{ci.name}.{name}', func=m.qualname)
  ctx.count('warp_unwarp_methods', n_methods)
  r2_argsort(ctx, mi)
  r3_pipeline(ctx, mi)
  r4_infeasible(ctx, mi)
  r5_sharing(ctx)
  r6_exact_branches(ctx, mi)
  r7_warp_state(ctx, mi)
  r8_fresh_masks(ctx, mi)
  r9_aligned_pairs(ctx, mi)


# ----------------------------------------------------------------------- R6
_TOLERANCE_CALLS = {'isclose', 'allclose', 'approx', 'array_equal_nan', 'round', 'around', 'rint'}


def r6_exact_branches(ctx, mi) -> None:
  """warp() never decides a branch with a tolerance: distinct observed labels must stay distinct, so a test such as
  isclose(max, min) that sends 'nearly equal' labels down a constant branch ties values whose spread is small relative
  to their magnitude."""
  n = 0
  for ci in mi.classes.values():
    m = ci.methods.get('warp')
    if m is None or len(m.params) < 2:
      continue
    n += 1
    hits = []
    for x in ast.walk(m.node):
      t = x.test if isinstance(x, (ast.If, ast.IfExp, ast.While)) else None
      if t is None:
        continue
      for c in ast.walk(t):
        if isinstance(c, ast.Call) and (dotted(c.func) or '').rsplit('.', 1)[-1] in _TOLERANCE_CALLS:
          hits.append(c)
    ctx.check(not hits, 'R6', f'{ci.name}.warp: exact branch conditions', hits[0] if hits else m.node,
              'no tolerance-based comparison selects a branch',
              f'`{unparse(hits[0], 60) if hits else ""}` selects a branch of warp(): labels that differ by less than the tolerance (relative '
              '1e-5 by default) are treated as equal and mapped to one value - distinct observed values no longer stay distinct',
              construct=f'{ci.name}.warp:tolerance', func=m.qualname)
  if n < 8:
    raise AnalysisError(f'only {n} warp methods found')


# ----------------------------------------------------------------------- R7
def r9_aligned_pairs(ctx, mi) -> None:
  n = 0
  for ci in mi.classes.values():
    for m in ci.methods.values():
      if m.name not in ('warp', 'unwarp'):
        continue
      g = cfgmod.CFG(m.node)
      rd = flow.ReachingDefs(g)

      _REDUCE = {'sum', 'mean', 'median', 'nanmedian', 'nanmean', 'std', 'nanstd', 'min', 'max', 'nanmin', 'nanmax', 'searchsorted',
                 'item', 'len', 'size', 'any', 'all', 'argmax', 'argmin', 'count_nonzero', 'ppf', 'float', 'int'}

      def filtered(e: ast.AST, node, depth=0) -> bool:
        """does the *array* denoted by e have the length of a boolean-mask selection `a[<mask>]` (shape-preserving flows only)?"""
        if depth > 6 or e is None:
          return False
        if isinstance(e, ast.Subscript):
          sl = e.slice
          inner = sl.operand if isinstance(sl, ast.UnaryOp) else sl
          if isinstance(inner, ast.Compare) or (isinstance(inner, ast.Call) and (dotted(inner.func) or '').rsplit('.', 1)[-1] in
                                                ('isnan', 'isfinite', 'isinf', 'logical_not', 'logical_and', 'logical_or')):
            return True
          if isinstance(inner, ast.Name) and any(
              d.value is not None and isinstance(d.value, (ast.Call, ast.Compare, ast.UnaryOp)) and (
                  isinstance(d.value, ast.Compare) or (dotted(getattr(d.value, 'func', None)) or '').rsplit('.', 1)[-1] in ('isnan', 'isfinite', 'isinf')
                  or isinstance(d.value, ast.UnaryOp)) for d in rd.at(node, inner.id) if d.node_id >= 0):
            return True
          if isinstance(sl, ast.Slice):
            return filtered(e.value, node, depth + 1)
          return False  # element / fancy index: not the same array any more
        if isinstance(e, ast.Name):
          for d in rd.at(node, e.id):
            if d.node_id < 0 or d.value is None or d.kind != 'assign' or g.nodes[d.node_id] is node:
              continue
            dn = g.nodes[d.node_id]
            tg = dn.ast.targets[0] if isinstance(dn.ast, ast.Assign) else None
            if isinstance(tg, ast.Name) and filtered(d.value, dn, depth + 1):
              return True
            if isinstance(tg, ast.Tuple) and isinstance(dn.ast.value, ast.Call) and filtered(dn.ast.value, dn, depth + 1):
              return True
          return False
        if isinstance(e, ast.BinOp):
          return filtered(e.left, node, depth + 1) or filtered(e.right, node, depth + 1)
        if isinstance(e, ast.UnaryOp):
          return filtered(e.operand, node, depth + 1)
        if isinstance(e, ast.Call):
          name = (dotted(e.func) or '').rsplit('.', 1)[-1] if dotted(e.func) else (e.func.attr if isinstance(e.func, ast.Attribute) else '')
          if name in _REDUCE:
            return False
          recv = [e.func.value] if isinstance(e.func, ast.Attribute) and not dotted(e.func.value) in ('np', 'jnp', 'stats', 'scipy.stats') else []
          return any(filtered(a, node, depth + 1) for a in list(e.args[:1]) + recv)
        return False
      for node in g.nodes:
        for c in flow.node_calls(node):
          if dotted(c.func) == 'zip' and len(c.args) >= 2:
            n += 1
            fl = [filtered(a, node) for a in c.args]
            ctx.check(len(set(fl)) == 1, 'R9', f'{ci.name}.{m.name}: `{unparse(c, 50)}`', c,
                      'all operands cover the same entries',
                      f'`{unparse(c, 60)}` pairs an array computed from a masked subset ({[unparse(a, 20) for a, f_ in zip(c.args, fl) if f_]}) with one '
                      'over all entries: after the first infeasible label every rank is paired with the wrong label (order reversals below the median)',
                      construct=f'{ci.name}.{m.name}:misaligned-zip', func=m.qualname)
  ctx.count('lock_step_iterations', n)


def r8_fresh_masks(ctx, mi) -> None:
  """`m = np.isnan(a)`; `a[m] = v`; `a[~m] += s` selects with a mask of the *old* array: entries that have just been filled are
  skipped by the second statement (the pinned code recomputes `np.isnan(a)` and therefore shifts the filled entries too)."""
  n = 0
  for ci in mi.classes.values():
    for m in ci.methods.values():
      if m.name not in ('warp', 'unwarp', '__call__'):
        continue
      g = cfgmod.CFG(m.node)
      rd = flow.ReachingDefs(g)
      masks = {}
      for node in g.nodes:
        if node.kind == 'stmt' and isinstance(node.ast, ast.Assign) and len(node.ast.targets) == 1 and isinstance(node.ast.targets[0], ast.Name):
          v = node.ast.value
          inner = v.operand if isinstance(v, ast.UnaryOp) and isinstance(v.op, ast.Invert) else v
          if isinstance(inner, ast.Call) and (dotted(inner.func) or '').rsplit('.', 1)[-1] in ('isnan', 'isfinite', 'isinf') and inner.args \
              and isinstance(inner.args[0], ast.Name):
            masks[(node.ast.targets[0].id, node.id)] = inner.args[0].id
      n += 1
      stale = None
      for node in g.nodes:
        if node.kind != 'stmt' or not isinstance(node.ast, (ast.Assign, ast.AugAssign)):
          continue
        tgs = node.ast.targets if isinstance(node.ast, ast.Assign) else [node.ast.target]
        for t in tgs:
          if not (isinstance(t, ast.Subscript) and isinstance(t.value, ast.Name)):
            continue
          arr = t.value.id
          for x in ast.walk(t.slice):
            if isinstance(x, ast.Name):
              for d in rd.at(node, x.id):
                if (x.id, d.node_id) in masks and masks[(x.id, d.node_id)] == arr:
                  defn = g.nodes[d.node_id]
                  # was the array written between the definition of the mask and this use?
                  between = [w for w in g.reachable([defn], include_starts=False) if w is not node and node in g.reachable([w], include_starts=False)
                             and w.kind == 'stmt' and isinstance(w.ast, (ast.Assign, ast.AugAssign)) and any(
                                 (isinstance(tt, ast.Subscript) and isinstance(tt.value, ast.Name) and tt.value.id == arr) or
                                 (isinstance(tt, ast.Name) and tt.id == arr)
                                 for tt in (w.ast.targets if isinstance(w.ast, ast.Assign) else [w.ast.target]))]
                  if between:
                    stale = stale or (node, x.id, between[0])
      ctx.check(stale is None, 'R8', f'{ci.name}.{m.name}: masks are fresh', m.node, 'every mask indexes the array it was just computed from',
                (f'`{unparse(stale[0].ast, 60)}` selects with `{stale[1]}`, computed before `{unparse(stale[2].ast, 50)}` changed the array: the entries '
                 'written there are no longer covered (e.g. the imputed infeasible labels miss the shift applied to all other labels and end up above '
                 'feasible ones)') if stale else '', construct=f'{ci.name}.{m.name}:stale-mask', func=m.qualname)
  if n < 4:
    raise AnalysisError(f'only {n} warp/unwarp methods examined')


def r7_warp_state(ctx, mi) -> None:
  """State that warp() leaves for unwarp() is rewritten by *every* warp() call: an attribute assigned on some paths
  only keeps the value of an earlier call (pipelines are reused across a study), and unwarp() then undoes the wrong warp."""
  n = 0
  for ci in mi.classes.values():
    m = ci.methods.get('warp')
    if m is None or len(m.params) < 2:
      continue
    assigned = {}
    for x in ast.walk(m.node):
      if isinstance(x, ast.Assign):
        for t0 in x.targets:
          for t in (t0.elts if isinstance(t0, (ast.Tuple, ast.List)) else [t0]):
            d = dotted(t)
            if d and d.startswith('self.') and d.count('.') == 1:
              assigned.setdefault(d[5:], x)
    if not assigned:
      continue
    un = ci.methods.get('unwarp')
    read_in_unwarp = {d[5:] for x in ast.walk(un.node) if isinstance(x, ast.Attribute) for d in [dotted(x) or '']
                      if d.startswith('self.') and d.count('.') == 1} if un is not None else set()
    g = cfgmod.CFG(m.node)

    def transfer(node, st, succ, lab):
      if node.kind == 'stmt' and isinstance(node.ast, ast.Assign):
        new = set(st)
        for t0 in node.ast.targets:
          for t in (t0.elts if isinstance(t0, (ast.Tuple, ast.List)) else [t0]):
            d = dotted(t)
            if d and d.startswith('self.') and d.count('.') == 1:
              new.add(d[5:])
        return frozenset(new)
      return st
    state = cfgmod.forward(g, frozenset(), transfer, lambda a, b: a & b)
    for attr, where_ in sorted(assigned.items()):
      if attr not in read_in_unwarp:
        continue
      n += 1
      missing = []
      for p_, lab in g.exit.preds:
        if p_.id not in state:
          continue
        out = transfer(p_, state[p_.id], None, lab)
        if attr not in out:
          missing.append(p_)
      ctx.check(not missing, 'R7', f'{ci.name}.warp sets self.{attr} on every path', where_,
                'assigned before every return of warp()',
                f'self.{attr} is read by unwarp() but warp() returns at line {missing[0].lineno if missing else 0} without assigning it: '
                'after a warp() call that takes this path, unwarp() still uses the value left by an earlier call on different labels',
                construct=f'{ci.name}.{attr}:stale', func=m.qualname)
  if n == 0:
    ctx.ok('R7', 'no warp() keeps state for unwarp() on a subset of paths', mi.tree, 'nothing to check')


def argsort_misuse(fn: ast.AST):
  """[(call, why)] for argsort results used as data inside function node `fn`."""
  from vzstatic.source import set_parents
  out = []
  for c in [x for x in ast.walk(fn) if isinstance(x, ast.Call)]:
    if not (dotted(c.func) or '').endswith('argsort'):
      continue
    par = parent(c)
    why = None
    if isinstance(par, ast.Subscript) and par.slice is c:
      pass
    elif isinstance(par, ast.Call) and (dotted(par.func) or '').endswith('argsort'):
      pass  # rank = argsort(argsort(x))
    elif isinstance(par, ast.Assign) and len(par.targets) == 1 and isinstance(par.targets[0], ast.Name):
      v = par.targets[0].id
      for u in ast.walk(fn):
        if isinstance(u, ast.Name) and u.id == v and isinstance(u.ctx, ast.Load):
          pu = parent(u)
          while isinstance(pu, (ast.Tuple, ast.Slice)):
            pu = parent(pu)
          if isinstance(pu, ast.Subscript) and any(x is u for x in ast.walk(pu.slice)):
            continue
          if isinstance(pu, ast.Call) and (dotted(pu.func) or '').endswith('argsort'):
            continue
          why = f'`{v}` (an argsort result) is used as data at line {u.lineno}: `{unparse(pu, 60)}`'
    else:
      why = f'argsort result used directly in `{unparse(par, 60)}`'
    out.append((c, why))
  return out


_R2_POSITIVE = """
def warp(self, labels):
  base = np.argsort(labels)
  return (base - np.min(base)) / np.max(base)
"""


def r2_argsort(ctx, mi) -> None:
  # embedded positive example: the matcher must keep recognising the misuse
  from vzstatic.source import set_parents
  tree = ast.parse(_R2_POSITIVE)
  set_parents(tree)
  if not any(why for _, why in argsort_misuse(tree.body[0])):
    raise AnalysisError('R2 matcher no longer recognises its embedded positive example')
  n = 0
  for ci in mi.classes.values():
    for m in ci.methods.values():
      for c, why in argsort_misuse(m.node):
        n += 1
        ctx.check(why is None, 'R2', f'{ci.name}.{m.name}: argsort', c, 'used as an index only',
                  (why or '') + ': positions in sort order are not ranks (argsort([3,1,2]) = [1,2,0]), so the transformed labels do not '
                  'follow the order of the observed values', construct=f'{ci.name}.{m.name}:argsort', func=m.qualname)
  if n == 0:
    ctx.ok('R2', 'no argsort in the warpers', OW, 'expected count zero; matcher exercised on the embedded positive example')


def r3_pipeline(ctx, mi) -> None:
  ci = mi.classes.get('OutputWarperPipeline')
  if ci is None:
    raise AnalysisError('OutputWarperPipeline not found')
  for name, want_reverse in (('warp', False), ('unwarp', True)):
    m = ci.methods[name]
    g = cfgmod.CFG(m.node)
    dom = g.dominators()
    cp = [n for n in g.nodes if any(dotted(c.func) == 'copy.deepcopy' or dotted(c.func) == '_validate_labels' for c in flow.node_calls(n))]
    first_test = [n for n in g.nodes if n.kind == 'test']
    ok_copy = bool(cp) and all(cp[0].id in dom[t.id] for t in first_test)
    loops = [n for n in g.nodes if n.kind == 'for']
    it = unparse(loops[0].ast.iter, 0) if loops else ''
    if loops and isinstance(loops[0].ast.iter, ast.Name):
      for x in ast.walk(m.node):
        if isinstance(x, ast.Assign) and any(isinstance(t, ast.Name) and t.id == it for t in x.targets):
          it = unparse(x.value, 0)
    rev = '[::-1]' in it or 'reversed(' in it
    ok_order = bool(loops) and 'self.warpers' in it and rev == want_reverse
    calls_right = any(isinstance(c.func, ast.Attribute) and c.func.attr == name for c in flow.calls_in(loops[0].ast)) if loops else False
    ctx.check(ok_copy and ok_order and calls_right, 'R3', f'OutputWarperPipeline.{name}', m.node,
              f'private copy first; stages applied in {"reverse" if want_reverse else "forward"} order',
              ('the pipeline does not take/validate a private copy before its shortcuts' if not ok_copy else
               f'stages are applied over `{it}`: {"unwarp must undo the stages in reverse order" if want_reverse else "warp must apply the stages in order"}'),
              construct=f'pipeline-{name}', func=m.qualname)
  for fname in ('create_default_warper', 'create_warp_outliers_warper'):
    f = mi.functions.get(fname)
    if f is None:
      raise AnalysisError(f'{fname} not found')
    order = []
    for c in flow.calls_in(f.node):
      if isinstance(c.func, ast.Attribute) and c.func.attr == 'append' and c.args and isinstance(c.args[0], ast.Call):
        order.append(((dotted(c.args[0].func) or '').split('.')[-1], c.lineno))
    order.sort(key=lambda x: x[1])
    names = [x for x, _ in order]
    ok = NAN_REMOVER in names and all(names.index(s) < names.index(NAN_REMOVER) for s in names if s in NAN_STAGES)
    ctx.check(ok, 'R3', f'{fname}: stage order', f.node, f'{names}',
              f'stage order {names}: {NAN_REMOVER} must come after every stage that keeps or creates NaN '
              f'({ {s: NAN_STAGES[s] for s in names if s in NAN_STAGES} }), otherwise the pipeline can output NaN labels',
              construct=f'{fname}:{names}', func=f.qualname)


def _sympy():
  from vzstatic.rules.C15 import _sympy as f
  return f()


def r4_infeasible(ctx, mi) -> None:
  """The value given to infeasible entries is nanmin - (positive amount), decided symbolically: the stored value is
  unfolded through its definitions into an expression over nanmin/nanmax of the labels and handed to sympy with
  nanmax = nanmin + r, r >= 0."""
  ci = mi.classes.get(NAN_REMOVER)
  m = ci.methods['warp']
  g = cfgmod.CFG(m.node)
  rd = flow.ReachingDefs(g)
  # the store into the NaN positions: labels[<mask derived from isnan>] = V
  stores = []
  for n in g.nodes:
    if n.kind == 'stmt' and isinstance(n.ast, ast.Assign) and len(n.ast.targets) == 1 and isinstance(n.ast.targets[0], ast.Subscript):
      idx = flow.unfold(n.ast.targets[0].slice, n, g, rd)
      if any(isinstance(c, ast.Call) and (dotted(c.func) or '').endswith('isnan') for c in ast.walk(idx)) and not isinstance(n.ast.value, ast.Constant):
        stores.append(n)
  if not stores:
    raise AnalysisError('InfeasibleWarperComponent.warp: store into the NaN entries not found')
  sp = _sympy()
  mn, r = sp.Symbol('mn', real=True), sp.Symbol('r', nonnegative=True)

  def sym(e: ast.AST):
    if isinstance(e, ast.Constant) and isinstance(e.value, (int, float)):
      return sp.Rational(str(e.value)) if isinstance(e.value, float) else sp.Integer(e.value)
    if isinstance(e, ast.Call):
      last = (dotted(e.func) or '').rsplit('.', 1)[-1]
      if last == 'nanmin':
        return mn
      if last == 'nanmax':
        return mn + r
      if last in ('float', 'float64') and len(e.args) == 1:
        return sym(e.args[0])
    if isinstance(e, ast.BinOp) and isinstance(e.op, (ast.Add, ast.Sub, ast.Mult, ast.Div)):
      l, rr = sym(e.left), sym(e.right)
      return {ast.Add: l + rr, ast.Sub: l - rr, ast.Mult: l * rr, ast.Div: l / rr}[type(e.op)]
    if isinstance(e, ast.UnaryOp) and isinstance(e.op, ast.USub):
      return -sym(e.operand)
    raise AnalysisError(f'infeasible value: cannot interpret `{unparse(e, 50)}`')
  ok = True
  why = ''
  for n in stores:
    v = flow.unfold(n.ast.value, n, g, rd)
    gap = sp.simplify(mn - sym(v))
    if gap.has(mn) or gap.is_positive is not True:
      ok = False
      why = f'nanmin - value = {gap} is not positive for every label range'
  # assignment of the bad value precedes the shift
  shf = [n for n in g.nodes if n.kind == 'stmt' and isinstance(n.ast, ast.AugAssign) and '_shift' in unparse(n.ast.value, 0)]
  order_ok = bool(shf) and all(s_.id in g.dominators()[shf[0].id] for s_ in stores)
  ctx.check(ok and order_ok, 'R4', 'InfeasibleWarperComponent.warp', m.node,
            'NaN -> nanmin - (0.5*range + 1), then everything shifted',
            'infeasible entries are not placed strictly below the worst feasible value (or are assigned after the shift)' +
            (f': {why}' if why else ''), construct='infeasible-value', func=m.qualname)


def r5_sharing(ctx) -> None:
  n = 0
  bad = []
  for f in ('vizier/_src/algorithms/designers/gp_ucb_pe.py', 'vizier/_src/algorithms/designers/gp_bandit.py', OW):
    tree = ctx.src.parse(f)
    for x in ast.walk(tree):
      if isinstance(x, ast.BinOp) and isinstance(x.op, ast.Mult):
        n += 1
        for side in (x.left, x.right):
          if isinstance(side, ast.List) and any(isinstance(e, ast.Call) and 'warper' in unparse(e, 0).lower() for e in side.elts):
            bad.append(x)
  ctx.check(not bad, 'R5', 'per-metric warpers are distinct objects', 'gp designers',
            f'{n} multiplications examined, none replicates a warper',
            f'`{unparse(bad[0], 80) if bad else ""}` (line {bad[0].lineno if bad else 0}) puts the *same* stateful warper object in every slot: '
            'each warp() overwrites the parameters of the previous metric, so unwarp() of all but the last metric uses the wrong state',
            construct='shared-warper', func='gp designers')


VARIANTS = [
    Variant('validate-asarray', OW, '  labels_arr = labels_arr.astype(float)\n  if not (labels_arr.ndim', '  labels_arr = np.asarray(labels_arr, dtype=float)\n  if not (labels_arr.ndim', rule='R1'),
    Variant('log-unwarp-inplace', OW,
            "    labels_arr = labels_arr.flatten()\n    labels_arr = self._labels_max - (",
            "    labels_arr = labels_arr.reshape(-1)\n    labels_arr[:] = self._labels_max - (", rule='R1'),
    Variant('pipeline-unwarp-forward', OW, '    warpers = self.warpers[::-1]\n', '    warpers = self.warpers\n', rule='R3'),
    Variant('infeasible-before-outliers', OW,
            "  if warp_outliers:\n    warpers.append(DetectOutliers())\n  if infeasible_warp:\n    warpers.append(InfeasibleWarperComponent())\n",
            "  if infeasible_warp:\n    warpers.append(InfeasibleWarperComponent())\n  if warp_outliers:\n    warpers.append(DetectOutliers())\n", rule='R3'),
    Variant('bad-value-above-min', OW, 'warped_bad_value = np.nanmin(labels_arr) - (0.5 * labels_range + 1)',
            'warped_bad_value = np.nanmin(labels_arr) + (0.5 * labels_range + 1)', rule='R4'),
    Variant('shared-warper-list', 'vizier/_src/algorithms/designers/gp_ucb_pe.py',
            '    self._output_warpers = []', '    self._output_warpers = [output_warpers.create_default_warper()] * 0', rule='R5'),
    Variant('benign-rename', OW, 'labels_arr_finite_normalized', 'normed', expect='silent', count=4),
    Variant('argsort-as-rank', OW, "base_for_transform = stats.rankdata(labels_arr_flattened, method='dense')", 'base_for_transform = np.argsort(labels_arr_flattened)', rule='R2'),
]
