"""C13 — a restarted stateful algorithm continues like one that never stopped.

Decides *state coverage of serialisation*:
  R1 for every PartiallySerializableDesigner reachable from the service's
     policy factory: every field that suggest()/update() (and the self-methods
     they call) assign or aug-assign is read by dump() and assigned by load();
     every field they mutate through a method call is referenced by dump() or
     re-created by load(); a field re-created by load() whose old object was
     handed to another field's constructor is re-pointed there too;
  R2 key symmetry: metadata keys written by dump() == keys read by load();
     JSON encoder dict keys == decoder subscripts (eagle pool);
  R3 policy wiring: every designer that is PartiallySerializable is wrapped in
     PartiallySerializableDesignerPolicy; every factory accepts the calls the
     policy makes (`factory(problem)` and `factory(problem, seed=...)`, incl.
     functools.partial keywords); the policy restores cache before designer
     and passes its seed on every construction;
  R4 NumpyEncoder / numpy_hook agree on their tag keys.
Equality of suggestion streams (values) is not decided.
"""

from __future__ import annotations

import ast
from typing import Dict, List, Optional, Set, Tuple

from vzstatic import cfg as cfgmod
from vzstatic import flow
from vzstatic.index import ClassInfo, FuncInfo, dotted
from vzstatic.selftest import Variant
from vzstatic.source import AnalysisError, ancestors, loc, unparse

MANIFEST = {
    'technique': ('mutation-set vs dump/load coverage per designer class (assignments exact; '
                  'call-mutations by purity summary of repo classes plus a short external table), '
                  'alias re-pointing check, key-set comparison of dump/load and encoder/decoder, '
                  'call-signature compatibility of the designer factories with the policy'
                  '; JSON order (sort_keys vs iterating loader), lossless NumpyEncoder value chain, whole RNG state, totality of load() over monotone counters; shared C12.R6'),
    'level_text': (
        'Static: everything suggest/update can change is serialised and restored (or rebuilt from '
        'what is), keys agree on both sides, every stateful designer is hosted by the '
        'state-restoring policy with a factory it can actually call. Necessary for "dump -> new '
        'instance -> load is indistinguishable". Equality of the suggestion streams is not decided; '
        'RNG streams of randomised evolutionary operators are exempt, as the property allows.'),
    'level_note': ('External mutating methods (table, confirmed by reading): qmc.Halton.random/'
                   'fast_forward, queue.Queue.put/get and .queue.clear, CMA_ES_JAX.ask/tell/load_state, '
                   'numpy Generator methods. Sampler/mutation RNGs of the evolution template are exempt.'),
}

PSD = 'vizier._src.algorithms.core.abstractions.PartiallySerializableDesigner'
EXTERNAL_MUTATORS = {'random', 'fast_forward', 'put', 'get', 'get_nowait', 'put_nowait', 'clear', 'tell', 'ask',
                     'load_state', 'shuffle', 'choice', 'integers', 'uniform', 'normal', 'permutation',
                     'permuted', 'append', 'pop', 'extend', 'update', 'add', 'remove', 'popleft', 'appendleft',
                     'setdefault', 'insert', 'sort', 'reverse'}
# fields whose state is an RNG of a randomised evolutionary operator (property exempts these)
EXEMPT_FIELDS = {('CanonicalEvolutionDesigner', '_sampler'), ('CanonicalEvolutionDesigner', '_survival'),
                 ('CanonicalEvolutionDesigner', '_adaptation'), ('CanonicalEvolutionDesigner', '_adaptation_callable')}


def self_fields_assigned(fn: ast.AST) -> Set[str]:
  out = set()
  for x in ast.walk(fn):
    tg = []
    if isinstance(x, ast.Assign):
      tg = x.targets
    elif isinstance(x, (ast.AugAssign, ast.AnnAssign)):
      tg = [x.target]
    for t in tg:
      for el in (t.elts if isinstance(t, (ast.Tuple, ast.List)) else [t]):
        d = dotted(el)
        if d and d.startswith('self.') and d.count('.') == 1:
          out.add(d[5:])
  return out


def self_fields_read(fn: ast.AST) -> Set[str]:
  return {x.attr for x in ast.walk(fn) if isinstance(x, ast.Attribute) and isinstance(x.value, ast.Name)
          and x.value.id == 'self'}


def closure(ctx, ci: ClassInfo, roots: List[str]) -> List[FuncInfo]:
  seen, out, stack = set(), [], list(roots)
  while stack:
    n = stack.pop()
    if n in seen:
      continue
    seen.add(n)
    m = ctx.index.find_method(ci, n)
    if m is None:
      continue
    out.append(m)
    for c in flow.calls_in(m.node):
      d = dotted(c.func) or ''
      if d.startswith('self.') and d.count('.') == 1:
        stack.append(d[5:])
  return out


def method_mutates_self(ctx, ci: ClassInfo, name: str, depth: int = 0) -> bool:
  """Does ci.name (transitively through self-calls) store into self?"""
  m = ctx.index.find_method(ci, name)
  if m is None or depth > 4:
    return False
  if self_fields_assigned(m.node):
    return True
  for x in ast.walk(m.node):
    if isinstance(x, (ast.Assign, ast.AugAssign, ast.Delete)):
      tg = x.targets if isinstance(x, (ast.Assign, ast.Delete)) else [x.target]
      for t in tg:
        if isinstance(t, (ast.Subscript, ast.Attribute)) and flow.root_name(t) == 'self' and not isinstance(t, ast.Name):
          if not (isinstance(t, ast.Attribute) and isinstance(t.value, ast.Name)):
            return True
          if isinstance(t, ast.Attribute):
            return True
    if isinstance(x, ast.Call) and isinstance(x.func, ast.Attribute):
      d = dotted(x.func) or ''
      if d.startswith('self.') and d.count('.') == 2 and x.func.attr in EXTERNAL_MUTATORS:
        return True
      if d.startswith('self.') and d.count('.') == 1 and method_mutates_self(ctx, ci, d[5:], depth + 1):
        return True
  return False


def field_classes(ctx, ci: ClassInfo) -> Dict[str, ClassInfo]:
  out = {}
  init = ctx.index.find_method(ci, '__init__')
  if init is None:
    return out
  for x in ast.walk(init.node):
    if isinstance(x, ast.Assign) and isinstance(x.value, ast.Call):
      d = dotted(x.value.func)
      sym = ctx.index.resolve(init.module, d) if d else None
      if isinstance(sym, ClassInfo):
        for t in x.targets:
          dt = dotted(t)
          if dt and dt.startswith('self.'):
            out[dt[5:]] = sym
  return out


def run(ctx) -> None:
  ctx.rule('R1', 'every field suggest/update can change is dumped and restored (or rebuilt by load)', 5)
  ctx.rule('R2', 'dump/load and encoder/decoder use the same key sets', 4)
  ctx.rule('R3', 'stateful designers are hosted by the restoring policy with a compatible factory; '
           'the policy passes its seed on every construction', 6)
  ctx.rule('R4', 'NumpyEncoder and numpy_hook agree on tag keys', 1)
  ctx.rule('R5', 'no in-place mutation of an object that (shallowly) aliases a constructor-derived field: '
           'load()/re-initialisation must start from the same template every time', 1)
  ctx.rule('R6', 'state serialised as JSON keeps the order of data-keyed mappings (no sort_keys where the loader iterates)', 4)
  ctx.import_rules('C12', {'R2'}, 'R11', 'the trial loader of a long-lived policy and a restored one deliver the same trials (id bookkeeping complete)')
  ctx.import_rules('C14', {'R1'}, 'R14', 'what a restored designer re-derives from its stored seed does not depend on the process (no hash(), clock, global RNG)')
  ctx.import_rules('C01', {'R3'}, 'R13', 'the stored study (with the algorithm state) is loaded inside the operation lock of the request that uses it')
  ctx.import_rules('C04', {'R1'}, 'R12', 'the persisted algorithm state is read and written back inside one critical section of the suggest operation')
  ctx.import_rules('C12', {'R6'}, 'R10', 'the hosted policy is rebuilt from the stored state on every request: no policy object is kept by the factory')
  ctx.rule('R8', 'numpy generator state is dumped and restored whole', 2)
  ctx.rule('R9', 'load() accepts every value dump() can write for monotone counters (no range check)', 1)
  ctx.rule('R7', "NumpyEncoder encodes the array itself ('value' is a shape-level method chain on the array, no filtering/merging)", 1)
  pf = ctx.index.need_class('vizier._src.service.policy_factory.DefaultPolicyFactory')
  call = pf.methods['__call__']
  designers = r3_wiring(ctx, pf, call)
  if len(designers) < 5:
    raise AnalysisError(f'only {len(designers)} stateful designers found in the policy factory')
  done = set()
  for ci in designers:
    for c in [ci]:
      if c.qualname in done:
        continue
      done.add(c.qualname)
      r1_state(ctx, c)
      r2_keys(ctx, c)
      r5_inplace(ctx, c)
  r2_eagle_json(ctx)
  r3_policy(ctx)
  r4_numpy_json(ctx)
  r6_json_order(ctx)
  r7_lossless_encoder(ctx)
  r8_rng_state_whole(ctx)
  for ci in designers:
    r9_load_total(ctx, ci)


# ----------------------------------------------------------------------- R1
def r1_state(ctx, ci: ClassInfo) -> None:
  dump = ctx.index.find_method(ci, 'dump')
  load = ctx.index.find_method(ci, 'load')
  if dump is None or load is None:
    raise AnalysisError(f'{ci.name}: dump/load not found')
  owner = dump.cls.name if dump.cls else ci.name
  meths = closure(ctx, ci, ['suggest', 'update'])
  meths = [m for m in meths if m.name not in ('__init__', 'dump', 'load')]
  assigned: Dict[str, FuncInfo] = {}
  for m in meths:
    for f in self_fields_assigned(m.node):
      assigned.setdefault(f, m)
  fcls = field_classes(ctx, ci)
  called: Dict[str, Tuple[FuncInfo, str]] = {}
  for m in meths:
    for c in flow.calls_in(m.node):
      d = dotted(c.func) or ''
      parts = d.split('.')
      if len(parts) >= 3 and parts[0] == 'self':
        f, meth = parts[1], parts[-1]
        if f in fcls and len(parts) == 3:
          if method_mutates_self(ctx, fcls[f], meth):
            called.setdefault(f, (m, d))
        elif meth in EXTERNAL_MUTATORS:
          called.setdefault(f, (m, d))
      # rng handed to a callee: its state advances
      for a in list(c.args) + [k.value for k in c.keywords]:
        da = dotted(a) or ''
        if da.startswith('self.') and da.count('.') == 1 and 'rng' in da:
          called.setdefault(da[5:], (m, f'{d}({da})'))
  dread = self_fields_read(dump.node)
  lassign = self_fields_assigned(load.node)
  lcalls = {(dotted(c.func) or '').split('.')[1] for c in flow.calls_in(load.node)
            if (dotted(c.func) or '').startswith('self.') and (dotted(c.func) or '').count('.') >= 2}
  n = 0
  for f, m in sorted(assigned.items()):
    if (owner, f) in EXEMPT_FIELDS:
      continue
    n += 1
    ok = f in dread and (f in lassign)
    ctx.check(ok, 'R1', f'{ci.name}.{f} (assigned in {m.name})', m.node,
              'read by dump() and assigned by load()',
              f'`self.{f}` is changed by {m.name}() but is '
              + ('not written by dump()' if f not in dread else 'not restored by load()')
              + ': a designer rebuilt from its dump continues from the initial value of this field',
              construct=f'{owner}.{f}', func=ci.qualname)
  for f, (m, how) in sorted(called.items()):
    if f in assigned or (owner, f) in EXEMPT_FIELDS:
      continue
    n += 1
    ok = (f in dread or f in lassign) and (f in lassign or f in lcalls)
    ctx.check(ok, 'R1', f'{ci.name}.{f} (mutated via {how})', m.node,
              'serialised by dump() or rebuilt by load()',
              f'`self.{f}` is mutated by {m.name}() through `{how}` but dump() does not reference it and '
              'load() does not rebuild it: its contents are lost on restart',
              construct=f'{owner}.{f}', func=ci.qualname)
  # alias re-pointing: a field re-created in load() that __init__ handed to another field's constructor
  init = ctx.index.find_method(ci, '__init__')
  if init is not None:
    for x in ast.walk(init.node):
      if isinstance(x, ast.Assign) and isinstance(x.value, ast.Call):
        tgt = [dotted(t)[5:] for t in x.targets if (dotted(t) or '').startswith('self.')]
        args = [dotted(a) for a in list(x.value.args) + [k.value for k in x.value.keywords]]
        for a in args:
          if a and a.startswith('self.') and a[5:] in lassign and tgt and tgt[0] != a[5:]:
            holder = tgt[0]
            # load must re-create the holder, or store into holder.<attr>, after assigning the field
            repointed = holder in lassign or any(
                isinstance(y, ast.Assign) and any((dotted(t) or '').startswith(f'self.{holder}.') for t in y.targets)
                for y in ast.walk(load.node))
            n += 1
            ctx.check(repointed, 'R1', f'{ci.name}: {holder} keeps a reference to {a[5:]}', load.node,
                      f'load() re-points self.{holder} at the restored self.{a[5:]}',
                      f'load() replaces self.{a[5:]} but self.{holder} (constructed from the old object) '
                      'keeps using the stale one', construct=f'{owner}.{holder}<-{a[5:]}', func=ci.qualname)
  if n == 0:
    ctx.ok('R1', f'{ci.name}', ci.node, 'suggest/update change no field')


# ----------------------------------------------------------------------- R5
INPLACE_FUNCS = {'shuffle'}
INPLACE_METHODS = {'sort', 'reverse', 'append', 'extend', 'insert', 'pop', 'remove', 'clear', 'update', 'shuffle'}
INF = 99


def _fresh_depth(e: ast.AST, defs: Dict[str, List[ast.AST]], seen=None) -> int:
  """How many container levels of `e` are freshly allocated (0 = aliases a self field)."""
  seen = seen or set()
  if isinstance(e, ast.Call):
    d = dotted(e.func) or ''
    if d in ('copy.deepcopy',):
      return INF
    if d in ('copy.copy', 'dict', 'list', 'sorted', 'tuple', 'set') and e.args:
      return max(1, min(_fresh_depth(e.args[0], defs, seen), INF)) if d == 'copy.deepcopy' else 1 + 0 * _fresh_depth(e.args[0], defs, seen) \
          if _elem_depth(e.args[0], defs, seen) == 0 else 1 + _elem_depth(e.args[0], defs, seen)
    if isinstance(e.func, ast.Attribute) and e.func.attr in ('copy',):
      return 1
    if isinstance(e.func, ast.Attribute) and e.func.attr in ('items', 'values', 'keys'):
      return _fresh_depth(e.func.value, defs, seen)
    return INF  # result of some other call: treated as fresh
  if isinstance(e, (ast.ListComp, ast.SetComp, ast.GeneratorExp)):
    return min(1 + _fresh_depth(e.elt, defs, seen), INF)
  if isinstance(e, ast.DictComp):
    return min(1 + _fresh_depth(e.value, defs, seen), INF)
  if isinstance(e, (ast.List, ast.Tuple, ast.Set)):
    return min([1 + _fresh_depth(x, defs, seen) for x in e.elts] or [INF])
  if isinstance(e, ast.Dict):
    return min([1 + _fresh_depth(x, defs, seen) for x in e.values] or [INF])
  if isinstance(e, ast.Constant):
    return INF
  if isinstance(e, ast.Subscript):
    return max(_fresh_depth(e.value, defs, seen) - 1, 0)
  if isinstance(e, ast.Attribute):
    if isinstance(e.value, ast.Name) and e.value.id == 'self':
      return 0
    return _fresh_depth(e.value, defs, seen)
  if isinstance(e, ast.Name):
    if e.id in seen or e.id not in defs:
      return INF
    return min(_fresh_depth(v, defs, seen | {e.id}) for v in defs[e.id])
  return INF


def _elem_depth(e, defs, seen) -> int:
  """Fresh depth of the *elements* of e (one level below e)."""
  return max(_fresh_depth(e, defs, seen) - 1, 0)


def r5_inplace(ctx, ci: ClassInfo) -> None:
  n = 0
  for m in ci.methods.values():
    defs: Dict[str, List[ast.AST]] = {}
    for x in ast.walk(m.node):
      if isinstance(x, ast.Assign):
        for t in x.targets:
          if isinstance(t, ast.Name):
            defs.setdefault(t.id, []).append(x.value)
      if isinstance(x, ast.For) and isinstance(x.target, ast.Name):
        defs.setdefault(x.target.id, []).append(ast.Subscript(value=x.iter, slice=ast.Constant(value=0), ctx=ast.Load()))
    for c in flow.calls_in(m.node):
      target = None
      d = dotted(c.func) or ''
      if d.rsplit('.', 1)[-1] in INPLACE_FUNCS and c.args and not (isinstance(c.func, ast.Attribute) and flow.root_name(c.func.value) in defs and False):
        target = c.args[0]
      elif isinstance(c.func, ast.Attribute) and c.func.attr in INPLACE_METHODS and c.func.attr != 'shuffle':
        target = c.func.value
      if target is None:
        continue
      if isinstance(target, ast.Attribute) and isinstance(target.value, ast.Name) and target.value.id == 'self':
        continue  # mutating one's own field directly is the R1 business
      rn = flow.root_name(target)
      if rn is None or rn == 'self' or rn not in defs:
        continue
      n += 1
      depth = _fresh_depth(target, defs)
      ctx.check(depth >= 1, 'R5', f'{ci.name}.{m.name}: in-place {d.rsplit(".", 1)[-1]}({unparse(target, 40)})', c,
                'operates on a fresh copy',
                f'`{unparse(c, 80)}` mutates in place an object that still aliases a field of self (only a '
                'shallow copy was taken): the constructor-derived template is changed, so a second '
                'initialisation / load() starts from different data than the first',
                construct=f'{m.name}:{unparse(target, 0)}', func=m.qualname)
  if n == 0:
    ctx.info(f'R5: {ci.name} has no in-place mutation of local containers')


# ----------------------------------------------------------------------- R2
def _md_keys(fn: ast.AST, store: bool) -> Set[str]:
  """Constant metadata keys subscripted on a Metadata chain (ns(...)[key])."""
  out = set()
  for x in ast.walk(fn):
    if isinstance(x, ast.Subscript) and isinstance(x.slice, ast.Constant) and isinstance(x.slice.value, str):
      is_store = isinstance(x.ctx, ast.Store)
      base = unparse(x.value, 0)
      if 'metadata' in base or base.startswith('md') or '.ns(' in base:
        if is_store == store:
          out.add(x.slice.value)
    if not store and isinstance(x, ast.Call) and isinstance(x.func, ast.Attribute) and x.func.attr == 'get' \
        and x.args and isinstance(x.args[0], ast.Constant) and ('metadata' in unparse(x.func.value, 0) or '.ns(' in unparse(x.func.value, 0)):
      out.add(x.args[0].value)
  return out


def r2_keys(ctx, ci: ClassInfo) -> None:
  dump = ctx.index.find_method(ci, 'dump')
  load = ctx.index.find_method(ci, 'load')
  w = _md_keys(dump.node, True)
  r = _md_keys(load.node, False)
  if not w and not r:
    ctx.ok('R2', f'{ci.name}: dump/load keys', dump.node, 'delegates to a sub-object (checked there)')
    return
  missing = sorted(w - r)
  extra = sorted(r - w)
  # keys that are informational only (timestamps) may be written without being needed by load
  missing = [k for k in missing if 'timestamp' not in k]
  ctx.check(not missing and not extra, 'R2', f'{ci.name}: dump/load keys', dump.node,
            f'keys {sorted(w)}',
            (f'dump() writes {missing} that load() never reads; ' if missing else '')
            + (f'load() reads {extra} that dump() never writes' if extra else ''),
            construct=f'{missing}/{extra}', func=ci.qualname)


def r2_eagle_json(ctx) -> None:
  mod = ctx.index.need_module('vizier._src.algorithms.designers.eagle_strategy.serialization')
  enc = mod.classes.get('PartialFireflyPoolEncoder')
  dec = mod.classes.get('FireflyPoolDecoder')
  if enc is None or dec is None:
    raise AnalysisError('eagle serialization encoder/decoder not found')
  consts = {}
  utils = ctx.index.need_module('vizier._src.algorithms.designers.eagle_strategy.eagle_strategy_utils')
  for k, v in list(utils.assigns.items()) + list(mod.assigns.items()):
    if isinstance(v, ast.Constant) and isinstance(v.value, str):
      consts[k] = v.value
    elif isinstance(v, ast.Attribute) and v.attr in consts:
      consts[k] = consts[v.attr]
  written = set()
  for d in ast.walk(enc.methods['default'].node):
    if isinstance(d, ast.Dict):
      for k in d.keys:
        if isinstance(k, ast.Constant):
          written.add(k.value)
  read = set()
  for x in ast.walk(dec.methods['decode'].node):
    if isinstance(x, ast.Subscript):
      s = x.slice
      if isinstance(s, ast.Constant) and isinstance(s.value, str):
        read.add(s.value)
      elif isinstance(s, ast.Name) and s.id in consts:
        read.add(consts[s.id])
      elif isinstance(s, ast.Attribute) and s.attr in consts:
        read.add(consts[s.attr])
  required = set()
  for x in ast.walk(dec.methods['decode'].node):
    if isinstance(x, ast.Call) and dotted(x.func) == 'set' and x.args and isinstance(x.args[0], ast.List):
      required |= {e.value for e in x.args[0].elts if isinstance(e, ast.Constant)}
  ctx.check(written == read, 'R2', 'eagle FireflyPool encoder/decoder keys', enc.node,
            f'{len(written)} keys on both sides',
            f'encoder writes {sorted(written - read)} the decoder never reads / decoder reads '
            f'{sorted(read - written)} the encoder never writes', construct=f'{sorted(written ^ read)}', func=enc.qualname)
  # sub-object state coverage: every field the pool's own methods change must be
  # restored by the decoder (from an encoded key or recomputed from restored data)
  pool_cls = ctx.index.need_class('vizier._src.algorithms.designers.eagle_strategy.eagle_strategy_utils.FireflyPool')
  changed: Dict[str, str] = {}
  for m in pool_cls.methods.values():
    if m.name.startswith('__'):
      continue
    for f in self_fields_assigned(m.node):
      changed.setdefault(f, m.name)
    for x in ast.walk(m.node):
      if isinstance(x, (ast.Assign, ast.Delete, ast.AugAssign)):
        tg = x.targets if isinstance(x, (ast.Assign, ast.Delete)) else [x.target]
        for t in tg:
          if isinstance(t, ast.Subscript):
            d = dotted(t.value) or ''
            if d.startswith('self.') and d.count('.') == 1:
              changed.setdefault(d[5:], m.name)
  restored = set()
  for x in ast.walk(dec.methods['decode'].node):
    if isinstance(x, ast.Assign):
      for t in x.targets:
        if isinstance(t, ast.Attribute) and isinstance(t.value, ast.Name) and t.attr.startswith('_'):
          restored.add(t.attr)
    if isinstance(x, ast.Call) and (dotted(x.func) or '').endswith('FireflyPool'):
      restored |= {'_' + k.arg for k in x.keywords if k.arg}
  for f, meth in sorted(changed.items()):
    ctx.check(f in restored, 'R1', f'FireflyPool.{f} (changed in {meth})', pool_cls.node,
              'restored by FireflyPoolDecoder',
              f'FireflyPool.{f} is changed by {meth}() but the decoder never restores it: a restored pool '
              'starts from the default value (e.g. pool size is miscounted after a restart)',
              construct=f'FireflyPool.{f}', func=pool_cls.qualname)
  ctx.check(required <= written, 'R2', 'eagle decoder required-key set', dec.node,
            f'required keys {sorted(required)} are all emitted', f'decoder requires {sorted(required - written)} which the encoder never emits',
            construct=f'{sorted(required - written)}', func=dec.qualname)


# ----------------------------------------------------------------------- R3
def r3_wiring(ctx, pf: ClassInfo, call: FuncInfo) -> List[ClassInfo]:
  """Returns the PartiallySerializable designer classes hosted by the factory."""
  mi = pf.module
  out: List[ClassInfo] = []
  local_imports: Dict[str, str] = {}
  for x in ast.walk(call.node):
    if isinstance(x, ast.ImportFrom):
      for a in x.names:
        local_imports[a.asname or a.name] = f'{x.module}.{a.name}'
  partials: Dict[str, ast.Call] = {}
  for x in ast.walk(call.node):
    if isinstance(x, ast.Assign) and isinstance(x.value, ast.Call) and (dotted(x.value.func) or '').endswith('partial'):
      for t in x.targets:
        if isinstance(t, ast.Name):
          partials[t.id] = x.value

  def resolve(expr):
    d = dotted(expr)
    if d is None:
      return None
    head = d.split('.')[0]
    if head in local_imports:
      return ctx.index.lookup(local_imports[head] + d[len(head):])
    return ctx.index.resolve(mi, d)

  all_rets = [r for m in pf.methods.values() for r in ast.walk(m.node)]
  for m in pf.methods.values():
    for x in ast.walk(m.node):
      if isinstance(x, ast.ImportFrom):
        for a in x.names:
          local_imports[a.asname or a.name] = f'{x.module}.{a.name}'
      if isinstance(x, ast.Assign) and isinstance(x.value, ast.Call) and (dotted(x.value.func) or '').endswith('partial'):
        for t in x.targets:
          if isinstance(t, ast.Name):
            partials[t.id] = x.value
  for ret in all_rets:
    if not (isinstance(ret, ast.Return) and isinstance(ret.value, ast.Call)):
      continue
    pol = dotted(ret.value.func) or ''
    args = list(ret.value.args)
    if pol.endswith('PartiallySerializableDesignerPolicy') and len(args) >= 3:
      fexpr = args[2]
    elif pol.endswith('.DesignerPolicy') and len(args) >= 2:
      fexpr = args[1]
    else:
      continue
    pk: Dict[str, ast.AST] = {}
    if isinstance(fexpr, ast.Name) and fexpr.id in partials:
      p = partials[fexpr.id]
      pk = {k.arg: k.value for k in p.keywords if k.arg}
      fexpr = p.args[0]
    sym = resolve(fexpr)
    cls = None
    fn = None
    if isinstance(sym, ClassInfo):
      cls, fn = sym, ctx.index.find_method(sym, '__init__')
    elif isinstance(sym, FuncInfo):
      fn, cls = sym, sym.cls
    if cls is None or fn is None:
      ctx.info(f'R3: designer factory `{unparse(fexpr, 60)}` not resolved')
      continue
    stateful = ctx.index.is_subclass(cls, PSD)
    hosted_stateful = pol.endswith('PartiallySerializableDesignerPolicy')
    ctx.check(stateful == hosted_stateful or (hosted_stateful and stateful), 'R3',
              f'{cls.name} hosted by {pol.rsplit(".", 1)[-1]}', ret,
              'stateful designer <-> state-restoring policy',
              (f'{cls.name} persists state (PartiallySerializableDesigner) but is wrapped in the stateless '
               'DesignerPolicy: it is rebuilt from scratch on every request and repeats itself') if stateful else
              f'{cls.name} is not PartiallySerializable but is wrapped in PartiallySerializableDesignerPolicy',
              construct=f'{cls.name}:{pol.rsplit(".", 1)[-1]}', func=call.qualname)
    if hosted_stateful:
      out.append(cls)
      # signature: factory(problem) and factory(problem, seed=...) plus partial keywords
      a = fn.node.args
      names = [x.arg for x in a.posonlyargs + a.args + a.kwonlyargs if x.arg not in ('self', 'cls')]
      has_kwargs = a.kwarg is not None
      bad = [k for k in pk if k not in names and not has_kwargs]
      seed_ok = 'seed' in names or has_kwargs
      ctx.check(not bad and seed_ok, 'R3', f'{cls.name}: factory call compatibility', ret,
                f'{fn.qualname.rsplit(".", 2)[-2]}.{fn.name}({", ".join(names)}{", **kw" if has_kwargs else ""}) accepts the policy\'s calls',
                (f'functools.partial passes keyword(s) {bad} that {fn.name}({", ".join(names)}) does not accept: every '
                 'suggest for this algorithm fails with TypeError' if bad else
                 f'{fn.name}() does not accept the `seed=` keyword the policy passes'),
                construct=f'{cls.name}:{bad or "seed"}', func=call.qualname)
  return out


def r3_policy(ctx) -> None:
  ci = ctx.index.need_class('vizier._src.algorithms.policies.designer_policy.PartiallySerializableDesignerPolicy')
  rd = ci.methods['_restore_designer']
  calls = [c for c in flow.calls_in(rd.node) if (dotted(c.func) or '') == 'self._designer_factory']
  if not calls:
    raise AnalysisError('_restore_designer: designer factory call not found')
  c = calls[0]
  uses_problem = any(dotted(a) == 'self._problem_statement' for a in c.args)
  ctx.check(uses_problem, 'R3', '_restore_designer builds from the policy\'s problem statement', c,
            'factory(self._problem_statement, ...)', 'restored designer is not built from the policy\'s problem',
            construct='restore-problem', func=rd.qualname)
  seeded = any(k.arg == 'seed' and dotted(k.value) == 'self._seed' for k in c.keywords)
  ctx.check(seeded, 'R3', '_restore_designer passes the policy seed', c,
            'factory(..., seed=self._seed) on restore, like on first construction',
            'the designer rebuilt before load() is constructed without the policy\'s seed: randomness that '
            'load() does not restore (e.g. evolutionary operators) is unseeded after every restart, so a '
            'seeded policy is not reproducible', construct='restore-seed', func=rd.qualname)
  loads = [x for x in flow.calls_in(rd.node) if isinstance(x.func, ast.Attribute) and x.func.attr == 'load']
  ctx.check(bool(loads), 'R3', '_restore_designer loads the saved state', rd.node, 'designer.load(metadata)',
            'restored designer never loads its state', construct='restore-load', func=rd.qualname)


# ----------------------------------------------------------------------- R4
# ----------------------------------------------------------------------- R8
def r8_rng_state_whole(ctx) -> None:
  """The numpy generator is saved and restored as its *whole* bit_generator.state: the dict also holds the buffered
  32-bit half-word (has_uint32 / uinteger); dropping or re-defaulting any entry changes the stream after a restart."""
  mod = ctx.index.need_module('vizier._src.algorithms.designers.eagle_strategy.serialization')
  ser, res = mod.functions.get('serialize_rng'), mod.functions.get('restore_rng')
  if ser is None or res is None:
    raise AnalysisError('serialization.serialize_rng / restore_rng not found')

  def resolve(fn, e, depth=0):
    if isinstance(e, ast.Name) and depth < 4:
      defs = [n.value for n in ast.walk(fn.node) if isinstance(n, ast.Assign) and any(isinstance(t, ast.Name) and t.id == e.id for t in n.targets)]
      if len(defs) == 1:
        return resolve(fn, defs[0], depth + 1)
    return e
  dumps = [c for c in flow.calls_in(ser.node) if (dotted(c.func) or '').endswith('json.dumps') and c.args]
  if not dumps:
    raise AnalysisError('serialize_rng: json.dumps not found')
  arg = resolve(ser, dumps[0].args[0])
  whole = isinstance(arg, ast.Attribute) and (dotted(arg) or '').endswith('.bit_generator.state')
  ctx.check(whole, 'R8', 'serialize_rng dumps the whole generator state', dumps[0],
            'json.dumps(rng.bit_generator.state)',
            f'serialize_rng dumps `{unparse(arg, 70)}` instead of the complete bit_generator.state: entries that are left out '
            '(e.g. the buffered 32-bit half-word has_uint32/uinteger of PCG64) are reset on restore, so the restored stream '
            'diverges from the live one after an odd number of 32-bit draws', construct='rng-dump-partial', func=ser.qualname)
  stores = [n for n in ast.walk(res.node) if isinstance(n, ast.Assign) and any((dotted(t) or '').endswith('.bit_generator.state') for t in n.targets)]
  if not stores:
    raise AnalysisError('restore_rng: assignment to bit_generator.state not found')
  val = resolve(res, stores[0].value)
  direct = isinstance(val, ast.Call) and (dotted(val.func) or '').endswith('json.loads')
  ctx.check(direct, 'R8', 'restore_rng installs the loaded state as it is', stores[0],
            'rng.bit_generator.state = json.loads(obj)',
            f'restore_rng installs `{unparse(val, 70)}`: the loaded state is merged with / filtered against the state of a fresh generator, '
            'so entries missing from the dump silently keep fresh-generator values', construct='rng-restore-merged', func=res.qualname)


# ----------------------------------------------------------------------- R9
def r9_load_total(ctx, ci: ClassInfo) -> None:
  """load() accepts every state dump() can write.  Counters that suggest()/update() only ever increase (and reduce on use)
  are dumped unbounded, so a range check on the restored value rejects states of a long-running study; the policy then
  silently starts a fresh designer."""
  load = ctx.index.find_method(ci, 'load')
  if load is None:
    return
  owner = load.cls
  counters = set()
  for c in ctx.index.mro(ci):
    for m in c.methods.values():
      if m.name in ('load', '__init__'):
        continue
      for x in ast.walk(m.node):
        if isinstance(x, ast.AugAssign) and isinstance(x.op, ast.Add):
          d = dotted(x.target) or ''
          if d.startswith('self.') and d.count('.') == 1:
            counters.add(d[5:])
  if not counters:
    return
  g = cfgmod.CFG(load.node)
  prov = flow.Provenance(g, on_call=lambda c: 'args', on_attr=lambda a: 'stop')
  # locals that end up in a counter field
  feeds = set()
  for x in ast.walk(load.node):
    if isinstance(x, ast.Assign):
      for t in x.targets:
        d = dotted(t) or ''
        if d.startswith('self.') and d[5:] in counters:
          feeds |= flow.names_in(x.value)
  bad = []
  for n in g.nodes:
    if n.kind == 'stmt' and isinstance(n.ast, ast.Raise):
      if any(isinstance(a, ast.ExceptHandler) for a in ancestors(n.ast)):
        continue
      for cond, pol in g.controlling_conditions(n):
        for cmp_ in ast.walk(cond):
          if isinstance(cmp_, ast.Compare) and any(isinstance(op, (ast.Lt, ast.LtE, ast.Gt, ast.GtE)) for op in cmp_.ops) \
              and (flow.names_in(cmp_) & feeds):
            bad.append((n, cmp_))
  ctx.check(not bad, 'R9', f'{ci.name}.load accepts every dumped counter value ({sorted(counters)})', bad[0][0].ast if bad else load.node,
            'no range check on a restored counter',
            f'load() raises when `{unparse(bad[0][1], 60) if bad else ""}`: but dump() writes the counter as it is, and suggest()/update() '
            'only ever increase it - a study that ran past that bound can no longer be restored and silently restarts from scratch',
            construct=f'{ci.name}.load:range-check', func=load.qualname)


_LOSSLESS_ARRAY_METHODS = {'tolist', 'ravel', 'flatten', 'reshape', 'copy', 'item'}
_LOSSY_CALLS = {'where', 'nan_to_num', 'clip', 'round', 'around', 'rint', 'astype', 'floor', 'ceil', 'trunc',
                'minimum', 'maximum', 'isfinite', 'isnan', 'isinf', 'masked_invalid', 'fix'}


def _value_defs(fn: ast.AST, e: ast.AST, depth: int = 0) -> List[ast.AST]:
  """All expressions a (possibly re-assigned) local may hold at its use: every assignment in the function."""
  if isinstance(e, ast.Name) and depth < 4:
    defs = [n.value for n in ast.walk(fn) if isinstance(n, ast.Assign)
            and any(isinstance(t, ast.Name) and t.id == e.id for t in n.targets)]
    if defs:
      out = []
      for d in defs:
        out.extend(_value_defs(fn, d, depth + 1))
      return out
  return [e]


def r7_lossless_encoder(ctx) -> None:
  """NumpyEncoder's 'value' entry is the array itself (lossless chain on `o`), never a filtered/merged copy."""
  mod = ctx.index.need_module('vizier.utils.json_utils')
  enc = mod.classes.get('NumpyEncoder')
  if enc is None or 'default' not in enc.methods:
    raise AnalysisError('json_utils.NumpyEncoder.default not found')
  fn = enc.methods['default'].node
  param = enc.methods['default'].params[-1]
  vals = []
  for d in ast.walk(fn):
    if isinstance(d, ast.Dict):
      for k, v in zip(d.keys, d.values):
        if isinstance(k, ast.Constant) and k.value == 'value':
          vals.append(v)
  if not vals:
    raise AnalysisError("NumpyEncoder.default: dict entry 'value' not found")
  for v in vals:
    for e in _value_defs(fn, v):
      lossy = sorted({(dotted(c.func) or '').rsplit('.', 1)[-1] for c in ast.walk(e) if isinstance(c, ast.Call)}
                     & _LOSSY_CALLS)
      consts = [c for c in ast.walk(e) if isinstance(c, ast.Constant) and (c.value is None or isinstance(c.value, (int, float, str)))
                and not isinstance(c.value, bool)]
      # lossless: a method chain rooted at the parameter using only shape-level methods
      x = e
      chain_ok = True
      while isinstance(x, ast.Call) and isinstance(x.func, ast.Attribute):
        if x.func.attr not in _LOSSLESS_ARRAY_METHODS:
          chain_ok = False
        x = x.func.value
      rooted = isinstance(x, ast.Name) and x.id == param
      if lossy or (not (chain_ok and rooted) and consts):
        ctx.bad('R7', "NumpyEncoder 'value' entry", e,
                f"the encoded array is not the array itself: `{unparse(e, 90)}` passes it through {lossy or 'a merge with constants'}; "
                'entries that are filtered or replaced on the way out (e.g. +-inf -> null -> NaN) come back different, so a '
                'restored population differs from the live one', construct=f"lossy:{','.join(lossy) or 'const'}", func=enc.qualname)
      elif chain_ok and rooted:
        ctx.ok('R7', "NumpyEncoder 'value' entry", e, f'`{unparse(e, 60)}`: shape-level methods on the array only')
      else:
        raise AnalysisError(f"NumpyEncoder 'value' expression `{unparse(e, 80)}` is outside the lossless/lossy tables")


_JSON_STATE_MODULES = [
    'vizier._src.algorithms.designers.eagle_strategy.serialization',
    'vizier._src.algorithms.evolution.numpy_populations',
    'vizier._src.algorithms.designers.cmaes',
    'vizier._src.algorithms.policies.trial_caches',
]


def r6_json_order(ctx) -> None:
  """A module that restores state by iterating a loaded JSON mapping must not dump with sort_keys."""
  n = 0
  for q in _JSON_STATE_MODULES:
    mi = ctx.index.need_module(q)
    tree = mi.tree
    dumps = [c for c in ast.walk(tree) if isinstance(c, ast.Call) and (dotted(c.func) or '').endswith('json.dumps')]
    iterates = []
    for x in ast.walk(tree):
      it = None
      if isinstance(x, (ast.For, ast.comprehension)):
        it = x.iter
      if it is not None and isinstance(it, ast.Call) and isinstance(it.func, ast.Attribute) and it.func.attr in ('items', 'keys', 'values'):
        iterates.append(it)
    for c in dumps:
      n += 1
      sk = [k for k in c.keywords if k.arg == 'sort_keys' and not (isinstance(k.value, ast.Constant) and not k.value.value)]
      ctx.check(not (sk and iterates), 'R6', f'{q.rsplit(".", 1)[-1]}: json.dumps keeps mapping order', c,
                'no sort_keys (or the loader never iterates a loaded mapping)',
                f'json.dumps(..., sort_keys=...) while the loader iterates a restored mapping ({unparse(iterates[0], 60) if iterates else ""}): '
                'JSON object keys are strings, so integer ids are re-ordered lexicographically ("10" < "2") and the restored '
                'container iterates in a different order than the live one', construct='sort_keys', func=q)
  if n == 0:
    raise AnalysisError('R6: no json.dumps call found in the state-serialisation modules')


def r4_numpy_json(ctx) -> None:
  mod = ctx.index.need_module('vizier.utils.json_utils')
  enc = mod.classes.get('NumpyEncoder')
  hook = mod.functions.get('numpy_hook')
  if enc is None or hook is None:
    raise AnalysisError('json_utils.NumpyEncoder / numpy_hook not found')
  w = set()
  for d in ast.walk(enc.node):
    if isinstance(d, ast.Dict):
      w |= {k.value for k in d.keys if isinstance(k, ast.Constant)}
  r = set()
  for x in ast.walk(hook.node):
    if isinstance(x, ast.Subscript) and isinstance(x.slice, ast.Constant) and isinstance(x.slice.value, str):
      r.add(x.slice.value)
    if isinstance(x, ast.Compare) and isinstance(x.left, ast.Constant) and isinstance(x.left.value, str):
      r.add(x.left.value)
  ctx.check(w == r and w, 'R4', 'NumpyEncoder / numpy_hook tag keys', enc.node, f'keys {sorted(w)}',
            f'encoder emits {sorted(w)}, hook expects {sorted(r)}', construct=f'{sorted(w ^ r)}', func=enc.qualname)


VARIANTS = [
    Variant('grid-dump-drops-index', 'vizier/_src/algorithms/designers/grid.py',
            "    metadata.ns(self._metadata_ns)['current_index'] = str(self._current_index)\n", '', rule='R'),
    Variant('quasi-load-wrong-key', 'vizier/_src/algorithms/designers/quasi_random.py',
            "self._skip_points = int(metadata.ns('quasi_random')['skip_points'])",
            "self._skip_points = int(metadata.ns('quasi_random')['skipped'])", rule='R2'),
    Variant('new-counter-not-dumped', 'vizier/_src/algorithms/designers/grid.py',
            '    self._current_index += len(parameter_dicts)\n',
            '    self._current_index += len(parameter_dicts)\n    self._num_calls = getattr(self, "_num_calls", 0) + 1\n', rule='R1'),
    Variant('grid-in-stateless-policy', 'vizier/_src/service/policy_factory.py',
            """      return dp.PartiallySerializableDesignerPolicy(
          problem_statement,
          policy_supporter,
          grid.GridSearchDesigner.from_problem,
      )""",
            """      return dp.DesignerPolicy(
          policy_supporter,
          grid.GridSearchDesigner.from_problem,
      )""", rule='R3'),
    Variant('eagle-load-forgets-utils-rng', 'vizier/_src/algorithms/designers/eagle_strategy/eagle_strategy.py',
            '      self._utils.rng = self._rng\n', '', rule='R1'),
    Variant('eagle-encoder-drops-key', 'vizier/_src/algorithms/designers/eagle_strategy/serialization.py',
            "          '_max_fly_id': o._max_fly_id,  # pylint: disable=protected-access\n", '', rule='R2'),
    Variant('numpy-encoder-nan-to-num', 'vizier/utils/json_utils.py', "'value': o.tolist(),", "'value': np.nan_to_num(o).tolist(),", rule='R7'),
    Variant('population-sort-keys', 'vizier/_src/algorithms/designers/eagle_strategy/serialization.py',
            'return json.dumps(firefly_pool, cls=PartialFireflyPoolEncoder)',
            'return json.dumps(firefly_pool, cls=PartialFireflyPoolEncoder, sort_keys=True)', rule='R6'),
    Variant('benign-encoder-ravel', 'vizier/utils/json_utils.py', "'value': o.tolist(),", "'value': o.ravel().tolist(),", expect='silent'),
    Variant('benign-sort-keys-false', 'vizier/_src/algorithms/designers/eagle_strategy/serialization.py',
            'return json.dumps(firefly_pool, cls=PartialFireflyPoolEncoder)',
            'return json.dumps(firefly_pool, cls=PartialFireflyPoolEncoder, sort_keys=False)', expect='silent'),
    Variant('benign-rename-local', 'vizier/_src/algorithms/designers/grid.py', 'parameter_dicts', 'pdicts', expect='silent', count=4),
]
