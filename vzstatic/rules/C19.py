"""C19 — acquisition optimiser returns in-bounds candidates, the best it evaluated.

Structural clauses:
  R1 projection on every return: every return of VectorizedEagleStrategy.suggest
     is self.projection(..); the default projection clips the continuous part
     with the literal bounds 0.0, 1.0; the random samplers draw continuous
     features with jax.random.uniform (default [0, 1)) and categorical ones
     from logits that are -inf at and beyond each feature's size (`<`, not `<=`;
     `[i, s:]`);
  R2 the stored score is the score of the stored features: in the optimisation
     step the value passed to eval_score_fn, to strategy.update and to
     _update_best_results is the same version of new_features, namely the one
     produced by the padding mask; likewise prior_features -> prior_rewards;
  R3 top-k bookkeeping: _update_best_results concatenates rewards, continuous
     and categorical parts in the same operand order and gathers all three
     with one index variable derived from -all_rewards;
     best_candidates_to_trials decodes through converter.to_parameters;
  R4 determinism: every jax.random.* call in the anchored files takes a key
     derived by split from the seed argument, and no key is consumed twice in
     one function (key-reuse lint); clock values flow only to logging.
"best it evaluated" as an optimisation claim and behaviour with non-finite
scores are not decided.
"""

from __future__ import annotations

import ast
from typing import Dict, List, Optional, Set

from vzstatic import cfg as cfgmod
from vzstatic import flow
from vzstatic.index import FuncInfo, dotted
from vzstatic.selftest import Variant
from vzstatic.source import AnalysisError, ancestors, loc, parent, unparse

MANIFEST = {
    'technique': ('return-shape and literal-bound checks of the projection / samplers; def-use version '
                  'identity of the features that are scored, stored and fed back; operand-order and '
                  'index-variable agreement of the top-k merge; PRNG key-derivation and key-reuse lint'
                  '; tree_map-aware operand-order and gather checks; closure keys in the PRNG lint'
                  '; finite-model interpretation of the eagle pool-size arithmetic; record/tuple carried loop state for the PRNG carry'),
    'level_text': (
        'Static: every candidate leaves the strategy through the [0,1] projection or a unit-interval '
        'sampler with masked categorical logits; the features that are scored are exactly the ones '
        'that are stored and fed back (after padding mask); the top-k merge keeps rewards and both '
        'feature parts aligned; all randomness derives from the seed with no key reuse. Necessary '
        'for in-bounds candidates, truthful scores and determinism; optimisation quality is not decided.'),
    'level_note': 'Trusted: jax.random.uniform samples [0,1); Categorical(logits=-inf) has probability 0; jnp.clip semantics.',
}

VB = 'vizier/_src/algorithms/optimizers/vectorized_base.py'
ES = 'vizier/_src/algorithms/optimizers/eagle_strategy.py'
RV = 'vizier/_src/algorithms/optimizers/random_vectorized_optimizer.py'


def run(ctx) -> None:
  ctx.rule('R1', 'candidates leave through the [0,1] projection / unit-interval samplers with masked logits', 5)
  ctx.rule('R2', 'scored features == stored features == fed-back features (after the padding mask)', 3)
  ctx.rule('R3', 'top-k merge keeps rewards and feature parts aligned; decoding through the converter', 3)
  ctx.rule('R4', 'all PRNG keys derive from the seed by split; no key is consumed twice', 6)
  ctx.rule('R7', 'scores are reported as the score function returned them: untouched on the way into the best-results table, one key for all evaluations', 2)
  ctx.rule('R6', 'eagle pool: a slot\'s features and reward are always replaced together (same index, same result)', 1)
  ctx.rule('R9', 'the optimisation loop runs ceil(max_evaluations / batch) steps: at least one, and enough to cover the budget (finite model)', 2)
  ctx.rule('R8', 'eagle: the pool size handed to the strategy is a whole number of batches (finite model); prior features are '
           'dropped only when they are None', 2)
  ctx.rule('R5', 'the scored prior points reach the best-results table (never worse than the best prior)', 1)
  r1_bounds(ctx)
  r2_versions(ctx)
  r3_topk(ctx)
  r4_keys(ctx)
  r5_prior(ctx)
  r6_pool_pairing(ctx)
  r7_scores_as_given(ctx)
  r8_pool_geometry(ctx)
  r9_step_count(ctx)


# ----------------------------------------------------------------------- R9
def r9_step_count(ctx) -> None:
  from vzstatic import pathcond
  vb = ctx.index.module_of_file(VB)
  call = vb.classes['VectorizedOptimizer'].methods['__call__']
  g = cfgmod.CFG(call.node)
  rd = flow.ReachingDefs(g)
  sites = []
  for nd in g.nodes:
    for c in flow.node_calls(nd):
      d = dotted(c.func) or ''
      if d.endswith('fori_loop') and len(c.args) >= 2:
        sites.append((nd, c.args[1], 'fori_loop upper bound'))
    if nd.kind == 'for' and isinstance(nd.ast.iter, ast.Call) and dotted(nd.ast.iter.func) == 'range' and len(nd.ast.iter.args) == 1 \
        and any('_optimization_one_step' in unparse(x, 0) for x in nd.ast.body):
      sites.append((nd, nd.ast.iter.args[0], 'python loop range'))
  if len(sites) < 2:
    raise AnalysisError(f'VectorizedOptimizer.__call__: step-count sites found: {len(sites)} (fori_loop and the python loop)')
  for nd, e, what in sites:
    expr = flow.unfold(e, nd, g, rd)
    bad = None
    try:
      for budget in (1, 5, 20, 24, 25, 26, 50, 75000):
        for batch in (1, 8, 25):
          got = pathcond.neval(expr, {'self.max_evaluations': budget, 'self.suggestion_batch_size': batch})
          want = -(-budget // batch)
          if got != want and bad is None:
            bad = f'max_evaluations={budget}, suggestion_batch_size={batch}: {got} step(s), ceil gives {want}'
    except pathcond.NoValue as ex:
      raise AnalysisError(f'VectorizedOptimizer.__call__: step count `{unparse(expr, 60)}` cannot be evaluated ({ex})')
    ctx.check(bad is None, 'R9', f'VectorizedOptimizer.__call__: {what}', e, f'`{unparse(expr, 60)}` == ceil(max_evaluations / batch) on the finite model',
              f'`{unparse(expr, 60)}`: {bad} - with a budget below one batch nothing is ever evaluated and never-scored placeholders are returned; '
              'otherwise the last part of the budget (where the oldest priors are revisited) is lost', construct=f'step-count:{what}', func=call.qualname)


# ----------------------------------------------------------------------- R8
def r8_pool_geometry(ctx) -> None:
  """The strategy walks the pool batch by batch (`pool_size // batch_size` steps): a pool that is not a whole number of batches has
  a tail that is never visited - and that tail is where the oldest (prior) flies sit."""
  from vzstatic import pathcond
  es = ctx.index.module_of_file(ES)
  fac = es.classes.get('VectorizedEagleStrategyFactory')
  call = fac.methods['__call__'] if fac else None
  if call is None:
    raise AnalysisError('VectorizedEagleStrategyFactory.__call__ not found')
  bpar = next((p for p in call.params if 'batch' in p), None)
  if bpar is None:
    raise AnalysisError('VectorizedEagleStrategyFactory.__call__: no batch-size parameter')
  cfg_attrs = sorted({dotted(x) for x in ast.walk(call.node) if isinstance(x, ast.Attribute) and (dotted(x) or '').startswith('self.eagle_config.')})
  dims = sorted({dotted(x) for x in ast.walk(call.node) if isinstance(x, ast.Attribute) and (dotted(x) or '').endswith(('.continuous', '.categorical'))
                 and 'n_feature_dimensions' in (dotted(x) or '') and 'padding' not in (dotted(x) or '')})
  rows = 0
  bad = None

  def hook(c, env_):
    if (pathcond.dotted_name(c.func) or '').endswith('VectorizedEagleStrategy'):
      kw = {k.arg: k.value for k in c.keywords}
      return {'pool_size': pathcond.neval(kw['pool_size'], env_), 'batch_size': pathcond.neval(kw['batch_size'], env_)}
    return NotImplemented
  try:
    for nf in (1, 2, 7, 20, 36, 60):
      for batch in (None, 3, 8, 25, 30, 40):
        for max_pool in (20, 100):
          for fixed in (0, 50):
            env = {bpar: batch, '__callhook__': hook}
            for a in cfg_attrs:
              env[a] = {'pool_size': fixed, 'max_pool_size': max_pool, 'pool_size_exponent': 1.2}.get(a.rsplit('.', 1)[-1], 1.0)
            for i_, d in enumerate(dims):
              env[d] = nf if i_ == 0 else 0
            rows += 1
            got = pathcond.run_concrete(call.node, env, tolerant=True)
            if not isinstance(got, dict):
              raise pathcond.NoValue('constructor call of the strategy not reached')
            ps, bs = got['pool_size'], got['batch_size']
            if fixed == 0 and bs and ps % bs != 0 and bad is None:
              bad = f'{nf} features, batch size {batch}, max_pool_size {max_pool}: pool_size {ps} is not a multiple of batch_size {bs}'
  except pathcond.NoValue as e:
    raise AnalysisError(f'VectorizedEagleStrategyFactory.__call__: cannot be evaluated on the finite model ({e})')
  ctx.count('pool_geometry_model_rows', rows)
  ctx.check(bad is None, 'R8', 'eagle pool size is a whole number of batches', call.node, f'{rows} model rows',
            f'{bad}: the last pool_size % batch_size flies are never suggested or updated, so a prior sitting there is never evaluated again and '
            'the result can be worse than the best prior', construct='pool-not-multiple-of-batch', func=call.qualname)
  strat = es.classes.get('VectorizedEagleStrategy')
  init = strat.methods['init_state']
  ppar = next((p for p in init.params if 'prior_features' in p), None)
  rebound = [x for x in ast.walk(init.node) if isinstance(x, ast.Assign) and any(isinstance(t, ast.Name) and t.id == ppar for t in x.targets)]
  ctx.check(ppar is not None and not rebound, 'R8', 'eagle init_state keeps the prior features it is given', init.node,
            'the prior-features parameter is never re-bound',
            f'`{unparse(rebound[0], 60) if rebound else ""}` replaces the prior features under a condition of its own: priors are silently dropped '
            '(e.g. for purely categorical spaces, whose continuous block is empty) and the result can be worse than the best prior',
            construct='priors-rebound', func=init.qualname)


# ----------------------------------------------------------------------- R1
def r1_bounds(ctx) -> None:
  es = ctx.index.module_of_file(ES)
  strat = es.classes.get('VectorizedEagleStrategy')
  sug = strat.methods['suggest']
  rets = [r for r in ast.walk(sug.node) if isinstance(r, ast.Return) and r.value is not None
          and not any(isinstance(a, (ast.FunctionDef, ast.Lambda)) and a is not sug.node for a in ancestors(r))]
  ok = bool(rets) and all(isinstance(r.value, ast.Call) and dotted(r.value.func) == 'self.projection' for r in rets)
  ctx.check(ok, 'R1', 'VectorizedEagleStrategy.suggest returns self.projection(...)', sug.node,
            f'{len(rets)} return(s), all projected',
            'a return of suggest() hands out features that did not pass the projection (prior / pool features can lie outside [0,1]^d)',
            construct='suggest-projection', func=sug.qualname)
  proj = es.classes.get('DefaultProjection')
  call = proj.methods['__call__']
  clips = [c for c in flow.calls_in(call.node) if (dotted(c.func) or '').endswith('clip')]
  okc = bool(clips) and len(clips[0].args) == 3 and unparse(clips[0].args[0], 0).endswith('.continuous') \
      and [unparse(a, 0) for a in clips[0].args[1:]] == ['0.0', '1.0']
  ctx.check(okc, 'R1', 'DefaultProjection clips continuous features to [0.0, 1.0]', call.node, 'jnp.clip(x.continuous, 0.0, 1.0)',
            'the default projection does not clip the continuous part to the unit interval', construct='projection-clip', func=call.qualname)
  samp = es.classes.get('DefaultRandomSampler').methods['__call__']
  t = unparse(samp.node, 0)
  uni = any((dotted(c.func) or '') == 'jax.random.uniform' and not any(k.arg in ('minval', 'maxval') for k in c.keywords)
            for c in flow.calls_in(samp.node))
  mask = None
  for x in ast.walk(samp.node):
    if isinstance(x, ast.Call) and (dotted(x.func) or '').endswith('where') and len(x.args) == 3 and isinstance(x.args[0], ast.Compare):
      c = x.args[0]
      mask = (type(c.ops[0]).__name__, 'arange' in unparse(c.left, 0), unparse(x.args[1], 0), unparse(x.args[2], 0))
  okm = mask == ('Lt', True, '0.0', '-jnp.inf')
  ctx.check(uni and okm, 'R1', 'DefaultRandomSampler: uniform [0,1) and logits -inf from each feature\'s size on', samp.node,
            'where(arange(max) < sizes, 0.0, -inf)',
            f'categorical logits mask is {mask}: an index equal to a feature\'s size (out of vocabulary) can be sampled' if not okm else
            'continuous features are not drawn from the unit interval', construct='eagle-sampler', func=samp.qualname)
  rv = ctx.index.module_of_file(RV)
  rs = rv.classes.get('RandomVectorizedStrategy')
  init, sg = rs.methods['__init__'], rs.methods['suggest']
  ti = unparse(init.node, 0)
  # logits[i, s:] = -inf  (slice starting AT the size)
  slice_ok = False
  for x in ast.walk(init.node):
    if isinstance(x, ast.Assign) and isinstance(x.targets[0], ast.Subscript) and '-np.inf' in unparse(x.value, 0):
      sl = x.targets[0].slice
      if isinstance(sl, ast.Tuple) and len(sl.elts) == 2 and isinstance(sl.elts[1], ast.Slice) and sl.elts[1].lower is not None \
          and sl.elts[1].upper is None and isinstance(sl.elts[1].lower, ast.Name):
        # the lower bound is the loop variable iterating the sizes
        slice_ok = any(isinstance(f, ast.For) and 'categorical_sizes' in unparse(f.iter, 0)
                       and sl.elts[1].lower.id in [n for n, _ in flow.target_names(f.target)] for f in ast.walk(init.node))
    if isinstance(x, ast.Call) and (dotted(x.func) or '').endswith('where') and len(x.args) == 3 and isinstance(x.args[0], ast.Compare):
      c = x.args[0]
      slice_ok = isinstance(c.ops[0], ast.Lt) and 'arange' in unparse(c.left, 0) and '-' in unparse(x.args[2], 0)
  ctx.check(slice_ok, 'R1', 'RandomVectorizedStrategy: logits -inf from each feature\'s size on', init.node,
            'categorical_logits[i, s:] = -inf', 'the logits table leaves an index >= the feature\'s size with finite probability',
            construct='random-logits', func=init.qualname)
  uni2 = any((dotted(c.func) or '') == 'jax.random.uniform' and not any(k.arg in ('minval', 'maxval') for k in c.keywords)
             for c in flow.calls_in(sg.node))
  ctx.check(uni2, 'R1', 'RandomVectorizedStrategy: continuous features uniform on [0,1)', sg.node, 'jax.random.uniform default range',
            'continuous features are not drawn from the unit interval', construct='random-uniform', func=sg.qualname)


# ----------------------------------------------------------------------- R2
def r2_versions(ctx) -> None:
  vb = ctx.index.module_of_file(VB)
  opt = vb.classes.get('VectorizedOptimizer')
  call = opt.methods['__call__']
  step = None
  for x in ast.walk(call.node):
    if isinstance(x, ast.FunctionDef) and x.name == '_optimization_one_step':
      step = x
  if step is None:
    raise AnalysisError('_optimization_one_step not found')
  g = cfgmod.CFG(step)
  rd = flow.ReachingDefs(g)
  uses = {}
  for n in g.nodes:
    for c in flow.node_calls(n):
      d = dotted(c.func) or ''
      if d in ('eval_score_fn', 'self.strategy.update', 'self._update_best_results'):
        for a in c.args:
          if isinstance(a, ast.Name) and a.id == 'new_features':
            uses[d] = frozenset((dd.node_id) for dd in rd.at(n, 'new_features'))
  same = len(uses) == 3 and len(set(uses.values())) == 1
  masked = False
  if same:
    (defs,) = set(uses.values())
    for nid in defs:
      v = g.nodes[nid].ast
      masked = isinstance(v, ast.Assign) and 'dimension_is_missing' in unparse(v.value, 0) and 'jnp.where' in unparse(v.value, 0)
  ctx.check(same and masked, 'R2', 'one version of new_features is scored, fed back and stored', step,
            'eval_score_fn / strategy.update / _update_best_results all receive the padding-masked new_features',
            f'the three consumers see different versions of new_features ({ {k: sorted(v) for k, v in uses.items()} }) or an unmasked one: '
            'the reward recorded for a candidate is not the score of the features that are returned',
            construct='new_features-version', func=call.qualname)
  rew = any(isinstance(x, ast.Assign) and any(isinstance(t, ast.Name) and t.id == 'new_rewards' for t in x.targets)
            and isinstance(x.value, ast.Call) and dotted(x.value.func) == 'eval_score_fn' for x in ast.walk(step))
  passes = any((dotted(c.func) or '') == 'self._update_best_results' and len(c.args) == 4
               and [unparse(a, 0) for a in c.args[2:]] == ['new_features', 'new_rewards'] for c in flow.calls_in(step))
  ctx.check(rew and passes, 'R2', 'the stored reward is eval_score_fn(new_features)', step,
            '_update_best_results(best, count, new_features, new_rewards)',
            'the reward stored with the features is not the score of those features', construct='reward-pairing', func=call.qualname)
  # prior features: masked before being scored
  t = unparse(call.node, 0)
  g2 = cfgmod.CFG(call.node)
  rd2 = flow.ReachingDefs(g2)
  okp = False

  def derives_from_prior(name: str, node, depth=0, seen=None) -> bool:
    seen = seen if seen is not None else set()
    if name == 'prior_features':
      return True
    if depth > 8 or (name, node.id) in seen:
      return False
    seen.add((name, node.id))
    for d in rd2.at(node, name):
      if d.node_id >= 0 and d.value is not None:
        dn = g2.nodes[d.node_id]
        if any(derives_from_prior(x, dn, depth + 1, seen) for x in flow.names_in(d.value)):
          return True
    return False
  for n in g2.nodes:
    for c in flow.node_calls(n):
      if dotted(c.func) == 'eval_score_fn' and c.args and isinstance(c.args[0], ast.Name) and derives_from_prior(c.args[0].id, n):
        ds = rd2.at(n, c.args[0].id)
        okp = all(d.value is not None and 'dimension_is_missing' in unparse(d.value, 0) for d in ds if d.kind == 'assign') and bool(ds)
  ctx.check(okp, 'R2', 'prior features are masked before they are scored', call.node, 'prior_rewards = eval_score_fn(masked prior_features)',
            'prior features are scored before the padding mask (padding leaks into the prior rewards)', construct='prior-mask', func=call.qualname)


# ----------------------------------------------------------------------- R7
_LOSSY = {'nan_to_num', 'clip', 'where', 'round', 'around', 'rint', 'minimum', 'maximum', 'abs', 'astype', 'floor', 'ceil',
          'nanmax', 'nanmin', 'sign', 'tanh', 'log', 'exp'}


def r7_scores_as_given(ctx) -> None:
  """The reward reported for a candidate is the value the score function returned for it: (a) the rewards merged into
  the best-results table are the function's results untouched (no nan_to_num / clip / where on the way in); (b) every
  evaluation of the score function in one optimiser call uses the same key, so prior, step and final (aux) scores of a
  point agree."""
  vb = ctx.index.module_of_file(VB)
  opt = vb.classes.get('VectorizedOptimizer')
  ub = opt.methods['_update_best_results']
  call = opt.methods['__call__']
  # (a) rewards entering the merge
  g = cfgmod.CFG(ub.node)
  rd = flow.ReachingDefs(g)
  params = set(ub.params)
  cats = [(n, c) for n in g.nodes for c in flow.node_calls(n) if (dotted(c.func) or '').endswith('concatenate') and c.args
          and isinstance(c.args[0], ast.List) and any('reward' in unparse(e, 0) for e in c.args[0].elts)]
  if not cats:
    raise AnalysisError('_update_best_results: concatenation of the rewards not found')
  for n, c in cats:
    bad = None
    for e in c.args[0].elts:
      if isinstance(e, ast.Name):
        for d in rd.at(n, e.id):
          if d.kind == 'param':
            continue
          lossy = sorted({(dotted(x.func) or '').rsplit('.', 1)[-1] for x in ast.walk(d.value) if isinstance(x, ast.Call)} & _LOSSY) \
              if d.value is not None else []
          if lossy:
            bad = (e.id, lossy, d.value)
          elif d.value is not None and not isinstance(d.value, (ast.Name, ast.Attribute)):
            raise AnalysisError(f'_update_best_results: `{e.id}` is redefined as `{unparse(d.value, 60)}` before the merge')
      elif isinstance(e, ast.Call):
        lossy = sorted({(dotted(x.func) or '').rsplit('.', 1)[-1] for x in ast.walk(e) if isinstance(x, ast.Call)} & _LOSSY)
        if lossy:
          bad = (unparse(e, 40), lossy, e)
    ctx.check(bad is None, 'R7', 'rewards are merged as returned by the score function', c,
              'batch rewards and incumbent rewards concatenated untouched',
              (f'`{bad[0]}` passes through {bad[1]} before the merge (`{unparse(bad[2], 70)}`): scores such as +-inf are rewritten to other '
               'numbers, so the reward reported for a candidate is not what the score function gives at that candidate') if bad else '',
              construct='reward-rewritten', func=ub.qualname)
  # (b) one key for every evaluation
  seeds = set()
  n_sites = 0
  local_eval = {}
  for x in ast.walk(call.node):
    if isinstance(x, ast.Assign) and isinstance(x.value, ast.Lambda) and any(isinstance(t, ast.Name) for t in x.targets):
      local_eval[x.targets[0].id] = x.value
    if isinstance(x, ast.FunctionDef) and x is not call.node:
      local_eval[x.name] = x
  wrappers = {nm: f for nm, f in local_eval.items() if any(
      isinstance(c, ast.Call) and isinstance(c.func, ast.Name) and c.func.id in ('score_fn', 'score_with_aux_fn') for c in ast.walk(f))}
  problems = []
  for c in ast.walk(call.node):
    if not isinstance(c, ast.Call) or not isinstance(c.func, ast.Name):
      continue
    if c.func.id in ('score_fn', 'score_with_aux_fn'):
      n_sites += 1
      s_ = c.args[1] if len(c.args) > 1 else next((k.value for k in c.keywords if k.arg in ('seed', 'key', 'rng')), None)
      seeds.add(unparse(s_, 0) if s_ is not None else '<none>')
    elif c.func.id in wrappers:
      w = wrappers[c.func.id]
      wparams = [a.arg for a in w.args.args]
      extra = list(c.args[1:]) + [k.value for k in c.keywords]
      if extra:
        problems.append(f'{c.func.id}(.., {unparse(extra[0], 40)}) at line {c.lineno}')
  # inside wrappers the seed may be a parameter with a default: resolve to the default
  resolved = set()
  for s_ in seeds:
    r = s_
    for w in wrappers.values():
      names = [a.arg for a in w.args.args]
      defaults = w.args.defaults
      for a, d in zip(names[len(names) - len(defaults):], defaults):
        if a == s_:
          r = unparse(d, 0)
    resolved.add(r)
  if n_sites < 2:
    raise AnalysisError(f'VectorizedOptimizer.__call__: only {n_sites} score-function call sites found')
  ctx.check(len(resolved) == 1 and '<none>' not in resolved and not problems, 'R7', 'every score evaluation uses the same key', call.node,
            f'{n_sites} call sites, key `{next(iter(resolved)) if resolved else "?"}`',
            f'the score function is evaluated under different keys ({sorted(resolved)}; per-call overrides: {problems}): for a key-dependent '
            '(Monte-Carlo) acquisition the reward stored for a candidate is not the score reported for it at the end, and prior points are '
            'compared under another key than new ones', construct='score-keys', func=call.qualname)


# ----------------------------------------------------------------------- R6
def r6_pool_pairing(ctx) -> None:
  """The eagle pool keeps features and their rewards in lock step: wherever a pool slot's features are replaced
  (`f.at[IDX].set(..)` over the feature tree) the slot's reward is replaced with the same index in the same result, and
  a loop that does so carries *both* (a reward read from the enclosing scope is the stale initial array)."""
  mi = ctx.index.module_of_file(ES)
  n = 0
  for fn in [x for x in ast.walk(mi.tree) if isinstance(x, (ast.FunctionDef, ast.Lambda))]:
    body_nodes = list(ast.walk(fn))
    fsets = [c for c in body_nodes if isinstance(c, ast.Call) and isinstance(c.func, ast.Attribute) and c.func.attr == 'set'
             and isinstance(c.func.value, ast.Subscript) and isinstance(c.func.value.value, ast.Attribute) and c.func.value.value.attr == 'at']
    # only the innermost function/lambda that directly contains the update
    fsets = [c for c in fsets if next((a for a in ancestors(c) if isinstance(a, (ast.FunctionDef, ast.Lambda))), None) is fn]
    if not fsets:
      continue
    for c in fsets:
      base = c.func.value.value.value  # X in X.at[IDX].set
      idx = unparse(c.func.value.slice, 0)
      # a feature-tree update is the body of a tree_map lambda; a reward update is a direct `rewards.at[..]`
      in_tree_map = isinstance(fn, ast.Lambda) and isinstance(getattr(fn, '_vz_parent', None), ast.Call) \
          and (dotted(fn._vz_parent.func) or '').endswith('tree_map')
      if not in_tree_map:
        continue
      n += 1
      tm = fn._vz_parent
      # the enclosing expression that forms the result of the branch (tuple / lambda body / return)
      holder = next((a for a in ancestors(tm) if isinstance(a, (ast.Tuple, ast.Lambda, ast.Return, ast.Assign))), None)
      scope = holder if holder is not None else tm
      if isinstance(holder, ast.Lambda):
        scope = holder.body
      partner = [x for x in ast.walk(scope) if isinstance(x, ast.Call) and isinstance(x.func, ast.Attribute) and x.func.attr == 'set'
                 and isinstance(x.func.value, ast.Subscript) and isinstance(x.func.value.value, ast.Attribute) and x.func.value.value.attr == 'at'
                 and 'reward' in unparse(x.func.value.value.value, 0) and unparse(x.func.value.slice, 0) == idx]
      ctx.check(bool(partner), 'R6', f'pool slot update at line {c.lineno}: features and reward replaced together', c,
                f'rewards.at[{idx}].set(..) in the same result',
                f'the features of pool slot `{idx}` are replaced but its reward is not: later comparisons use the old (lower) reward of '
                'the slot, so a better prior point that was just placed there can be evicted again and the pool no longer holds the '
                'best prior points', construct='pool-pairing', func=mi.name)
  if n == 0:
    raise AnalysisError('eagle strategy: no feature-tree slot update (`tree_map(lambda f, ..: f.at[i].set(..))`) found')


# ----------------------------------------------------------------------- R5
def r5_prior(ctx) -> None:
  """prior_rewards must flow into the best-results table of __call__ itself.

  The strategy interface does not oblige a strategy to re-suggest the prior
  points (RandomVectorizedStrategy.init_state drops them), so the only place
  where "never worse than the best prior" can be guaranteed for every strategy
  is the optimiser's own top-k table.
  """
  vb = ctx.index.module_of_file(VB)
  call = vb.classes['VectorizedOptimizer'].methods['__call__']
  tainted = {'prior_rewards'}
  changed = True
  body_assigns = [x for x in ast.walk(call.node) if isinstance(x, ast.Assign)]
  while changed:
    changed = False
    for x in body_assigns:
      if flow.names_in(x.value) & tainted:
        # passing the priors to the strategy does not put them into the table
        if isinstance(x.value, ast.Tuple) and any(
            isinstance(e, ast.Call) and (dotted(e.func) or '').endswith('.init_state') for e in x.value.elts):
          vals = [e for e in x.value.elts if not (isinstance(e, ast.Call) and (dotted(e.func) or '').endswith('.init_state'))]
          if not any(flow.names_in(e) & tainted for e in vals):
            continue
        for t in x.targets:
          for nm, _ in flow.target_names(t):
            if nm not in tainted:
              tainted.add(nm)
              changed = True
  merged = any((dotted(c.func) or '') == 'self._update_best_results' and any(flow.names_in(a) & tainted for a in c.args)
               for c in flow.calls_in(call.node)
               if not any(isinstance(a, ast.FunctionDef) and a.name == '_optimization_one_step' for a in ancestors(c)))
  merged = merged or bool({'init_best_results', 'best_results'} & tainted)
  ctx.check(merged, 'R5', 'prior rewards reach the best-results table', call.node,
            'prior_features / prior_rewards merged into the initial best results',
            'the best-results table starts at -inf and is merged only with freshly suggested batches; the scored prior points go to '
            'strategy.init_state only (RandomVectorizedStrategy drops them, eagle keeps at most a pool fraction): the optimiser can '
            'return a result worse than the best prior point', construct='prior-not-merged', func=call.qualname)


# ----------------------------------------------------------------------- R3
def r3_topk(ctx) -> None:
  vb = ctx.index.module_of_file(VB)
  opt = vb.classes.get('VectorizedOptimizer')
  ub = opt.methods['_update_best_results']
  def lambda_env(node: ast.AST) -> Dict[str, ast.AST]:
    """Parameters of an enclosing `tree_map(lambda a, b: ..., X, Y)` lambda -> the trees they range over."""
    env: Dict[str, ast.AST] = {}
    for anc in ancestors(node):
      if isinstance(anc, ast.Lambda):
        par = getattr(anc, '_vz_parent', None)
        if isinstance(par, ast.Call) and (dotted(par.func) or '').endswith('tree_map') and par.args and par.args[0] is anc:
          for p_, a_ in zip([x.arg for x in anc.args.args], par.args[1:]):
            env[p_] = a_
    return env

  def origin(e: ast.AST) -> str:
    env = lambda_env(e)
    if isinstance(e, ast.Name) and e.id in env:
      e = env[e.id]
    t = unparse(e, 0)
    return 'batch' if t.startswith('batch_') else 'best' if t.startswith('best_results') else '?'
  cats = [c for c in ast.walk(ub.node) if isinstance(c, ast.Call) and (dotted(c.func) or '').endswith('concatenate')
          and c.args and isinstance(c.args[0], ast.List)]
  orders = [[origin(e) for e in c.args[0].elts] for c in cats]
  ok = len(cats) >= 2 and len({tuple(o) for o in orders}) == 1 and '?' not in orders[0]
  ctx.check(ok, 'R3', 'rewards / continuous / categorical concatenated in one operand order', ub.node, f'{orders}',
            f'operand orders {orders} differ: row i of the rewards no longer belongs to row i of the features',
            construct='concat-order', func=ub.qualname)
  idx_defs = [x for x in ast.walk(ub.node) if isinstance(x, ast.Assign) and isinstance(x.targets[0], ast.Name)
              and ('argpartition' in unparse(x.value, 0) or 'argsort' in unparse(x.value, 0) or 'top_k' in unparse(x.value, 0))]
  okg = False
  if idx_defs:
    iv = idx_defs[0].targets[0].id
    neg = '-all_rewards' in unparse(idx_defs[0].value, 0)
    gathers = [s_ for s_ in ast.walk(ub.node) if isinstance(s_, ast.Subscript) and isinstance(s_.slice, ast.Name) and s_.slice.id == iv]
    bases = set()
    for s_ in gathers:
      env = lambda_env(s_)
      base = env[s_.value.id] if isinstance(s_.value, ast.Name) and s_.value.id in env else s_.value
      bases.add(unparse(base, 0))
    feats = {'all_features'} <= bases or {'all_features.categorical', 'all_features.continuous'} <= bases
    okg = neg and 'all_rewards' in bases and feats and bases <= {'all_rewards', 'all_features', 'all_features.categorical', 'all_features.continuous'}
  ctx.check(okg, 'R3', 'one index (largest rewards first) gathers rewards and both feature parts', ub.node,
            'top indices of -all_rewards applied to all three arrays',
            'rewards and features are gathered with different indices (or the smallest rewards are kept)', construct='gather', func=ub.qualname)
  bc = vb.functions.get('best_candidates_to_trials')
  okb = bc is not None and any(isinstance(c.func, ast.Attribute) and c.func.attr == 'to_parameters' for c in flow.calls_in(bc.node))
  ctx.check(okb, 'R3', 'best_candidates_to_trials decodes through converter.to_parameters', bc.node if bc else VB,
            'clipping decoder', 'candidates are turned into trials without the converter\'s decoder', construct='decode', func=VB)


# ----------------------------------------------------------------------- R4
SAMPLERS = {'uniform', 'normal', 'laplace', 'bernoulli', 'categorical', 'randint', 'choice', 'permutation', 'gumbel',
            'truncated_normal', 'exponential', 'beta', 'gamma', 'dirichlet', 'shuffle', 'bits'}


def r4_keys(ctx) -> None:
  n_funcs = 0
  for f in (VB, ES, RV):
    mi = ctx.index.module_of_file(f)
    funcs = [m for c in mi.classes.values() for m in c.methods.values()] + list(mi.functions.values())
    nested = []
    for fi in funcs:
      for x in ast.walk(fi.node):
        if isinstance(x, ast.FunctionDef) and x is not fi.node:
          nested.append((fi, x))
    units = [(fi, fi.node) for fi in funcs] + nested
    for fi, node in units:
      jr = [c for c in ast.walk(node) if isinstance(c, ast.Call) and (dotted(c.func) or '').startswith('jax.random.')
            and not any(isinstance(a, ast.FunctionDef) and a is not node for a in ancestors(c) if a is not node and _inside(a, node))]
      sample_calls = [c for c in jr if (dotted(c.func) or '').split('.')[-1] in SAMPLERS] + [
          c for c in ast.walk(node) if isinstance(c, ast.Call) and isinstance(c.func, ast.Attribute) and c.func.attr == 'sample'
          and any(k.arg == 'seed' for k in c.keywords)]
      splits = [c for c in jr if (dotted(c.func) or '').split('.')[-1] in ('split', 'fold_in')]
      if not sample_calls and not splits:
        continue
      n_funcs += 1
      params = {a.arg for a in node.args.args + node.args.kwonlyargs}
      # keys: names bound by `a, b = jax.random.split(k)` where k is itself a key
      keys: Set[str] = {p for p in params if 'seed' in p or 'rng' in p or 'key' in p}
      # a closure uses keys of the enclosing function (which is checked on its own)
      keys |= {nm for nm in _free_names(node) if 'seed' in nm or 'rng' in nm or nm.endswith('key')}
      # loop carry: `state, best, seed = args` inside a step function
      for x in ast.walk(node):
        if isinstance(x, ast.Assign) and isinstance(x.value, ast.Name) and x.value.id in params:
          for t in x.targets:
            keys |= {nm for nm, _ in flow.target_names(t) if 'seed' in nm or 'key' in nm or 'rng' in nm}
      consumed: Dict[str, List[ast.AST]] = {}
      alias: Dict[str, str] = {}
      bad = None
      changed = True
      while changed:
        changed = False
        for x in ast.walk(node):
          if isinstance(x, ast.Assign) and isinstance(x.value, ast.Call) and (dotted(x.value.func) or '') in ('jax.random.split', 'jax.random.fold_in', 'jax.random.PRNGKey'):
            src_ok = (dotted(x.value.func) == 'jax.random.PRNGKey') or (x.value.args and isinstance(x.value.args[0], ast.Name) and x.value.args[0].id in keys)
            if src_ok:
              for t in x.targets:
                for nm, _ in flow.target_names(t):
                  if nm not in keys:
                    keys.add(nm)
                    changed = True
          if isinstance(x, ast.Assign) and isinstance(x.value, ast.Name) and x.value.id in keys:
            for t in x.targets:
              if isinstance(t, ast.Name) and alias.get(t.id) != alias.get(x.value.id, x.value.id):
                alias[t.id] = alias.get(x.value.id, x.value.id)
                keys.add(t.id)
                changed = True
          if isinstance(x, ast.Assign) and isinstance(x.value, ast.IfExp) and any(
              (dotted(c.func) or '') == 'jax.random.PRNGKey' for c in ast.walk(x.value) if isinstance(c, ast.Call)):
            for t in x.targets:
              if isinstance(t, ast.Name) and t.id not in keys:
                keys.add(t.id)
                changed = True
      for c in sample_calls + splits:
        karg = None
        if (dotted(c.func) or '').startswith('jax.random.'):
          karg = c.args[0] if c.args else next((k.value for k in c.keywords if k.arg == 'key'), None)
        else:
          karg = next((k.value for k in c.keywords if k.arg == 'seed'), None)
        if isinstance(karg, ast.Name):
          if karg.id not in keys and karg.id not in _free_names(node):
            bad = bad or (c, f'`{karg.id}` is not derived from the seed argument by split')
          consumed.setdefault(alias.get(karg.id, karg.id), []).append(c)
      # reuse: one key consumed by two sampling/splitting calls on a straight line (not in exclusive branches)
      for k, cs in consumed.items():
        if len(cs) > 1:
          # allow reuse only if the key is re-bound between the uses (seed, x = split(seed))
          lines = sorted(c.lineno for c in cs)
          rebinds = [x.lineno for x in ast.walk(node) if isinstance(x, ast.Assign) and any(
              k in [n for n, _ in flow.target_names(t)] for t in x.targets) and not isinstance(x.value, ast.Name)]
          for a, b in zip(lines, lines[1:]):
            if not any(a <= r <= b for r in rebinds) and not _exclusive(cs, node):
              bad = bad or (cs[1], f'key `{k}` is consumed twice (lines {a} and {b}) without being re-split: the two draws are identical / correlated')
      qual = f'{fi.qualname}' + (f'.{node.name}' if node is not fi.node else '')
      ctx.check(bad is None, 'R4', f'{qual}: PRNG keys', node, f'{len(sample_calls)} sampling call(s), {len(splits)} split(s), keys {sorted(keys)}',
                bad[1] if bad else '', construct=f'{qual}:keys', func=qual)
  # loop carry of the optimisation step: the key handed to the next step is a fresh split, and the
  # carry is initialised from a split of the seed argument
  vb = ctx.index.module_of_file(VB)
  call = vb.classes['VectorizedOptimizer'].methods['__call__']
  step = next(x for x in ast.walk(call.node) if isinstance(x, ast.FunctionDef) and x.name == '_optimization_one_step')
  ret = [r for r in ast.walk(step) if isinstance(r, ast.Return)]
  split = next((x for x in ast.walk(step) if isinstance(x, ast.Assign) and isinstance(x.value, ast.Call)
                and dotted(x.value.func) == 'jax.random.split'), None)
  okc = False

  def components(v: ast.AST):
    """(constructor name or 'tuple', {slot: expression}) of a carry value: a tuple or a record constructor call."""
    if isinstance(v, ast.Tuple):
      return 'tuple', {i_: e_ for i_, e_ in enumerate(v.elts)}
    if isinstance(v, ast.Call) and isinstance(v.func, ast.Name) and not any(isinstance(a_, ast.Starred) for a_ in v.args):
      out = {i_: e_ for i_, e_ in enumerate(v.args)}
      out.update({k_.arg: k_.value for k_ in v.keywords if k_.arg})
      return v.func.id, out
    return None, {}
  key_slot = None
  ctor = None
  if len(ret) == 1 and split is not None:
    ctor, comps = components(ret[0].value)
    produced = [n for n, _ in flow.target_names(split.targets[0])]
    slots = [k_ for k_, e_ in comps.items() if isinstance(e_, ast.Name) and e_.id in produced]
    if len(slots) == 1:
      key_slot = slots[0]
      last = comps[key_slot]
      used_elsewhere = [n for n in ast.walk(step) if isinstance(n, ast.Name) and n.id == last.id
                        and isinstance(n.ctx, ast.Load) and n is not last]
      okc = not used_elsewhere and len(set(produced)) == len(produced)
  oki = False
  if key_slot is not None:
    seed_splits = [x for x in call.node.body if isinstance(x, ast.Assign) and isinstance(x.value, ast.Call)
                   and dotted(x.value.func) == 'jax.random.split' and x.value.args and isinstance(x.value.args[0], ast.Name)
                   and x.value.args[0].id == 'seed']
    seed_keys = {n for x in seed_splits for n, _ in flow.target_names(x.targets[0])}
    for x in call.node.body:
      if isinstance(x, ast.Assign) and isinstance(x.targets[0], ast.Name):
        c2, comps2 = components(x.value)
        if c2 == ctor and key_slot in comps2 and len(comps2) >= 2 and (c2 != 'tuple' or len(comps2) == len(comps)):
          e_ = comps2[key_slot]
          if isinstance(e_, ast.Name) and e_.id in seed_keys:
            oki = True
  ctx.check(okc and oki, 'R4', 'optimisation loop carries a fresh split of the key to the next step', step,
            'return (.., new_seed) with new_seed from split(seed) and not otherwise consumed; carry initialised from split(seed)',
            'the key carried to the next step is not a fresh, otherwise unused split of the current key (steps repeat or correlate draws), '
            'or the carry is not initialised from the seed argument', construct='loop-carry-key', func=call.qualname)
  if n_funcs < 6:
    raise AnalysisError(f'only {n_funcs} functions using jax.random found')


def _inside(a, root) -> bool:
  return any(x is a for x in ast.walk(root))


def _free_names(node) -> Set[str]:
  """Names not assigned in `node` (closure variables of nested functions)."""
  assigned = set()
  for x in ast.walk(node):
    if isinstance(x, ast.Assign):
      for t in x.targets:
        assigned |= {n for n, _ in flow.target_names(t)}
  assigned |= {a.arg for a in node.args.args + node.args.kwonlyargs}
  used = {x.id for x in ast.walk(node) if isinstance(x, ast.Name)}
  return used - assigned


def _exclusive(calls, node) -> bool:
  """Are the calls in different branches of one if/else (or lambda arms)?"""
  def branch_path(c):
    out = []
    cur = c
    for a in ancestors(c):
      if isinstance(a, ast.If):
        out.append((id(a), 'T' if any(cur is s or _inside(cur, s) for s in a.body) else 'F'))
      if isinstance(a, ast.IfExp):
        out.append((id(a), 'T' if _inside(cur, a.body) else 'F'))
      if a is node:
        break
    return dict(out)
  p0, p1 = branch_path(calls[0]), branch_path(calls[1])
  return any(k in p1 and p1[k] != v for k, v in p0.items())


VARIANTS = [
    Variant('suggest-unprojected-branch', ES, '    return self.projection(new_features)\n\n  def _create_features',
            '    return new_features\n\n  def _create_features', rule='R1'),
    Variant('clip-to-two', ES, 'continuous=jnp.clip(x.continuous, 0.0, 1.0)', 'continuous=jnp.clip(x.continuous, 0.0, 2.0)', rule='R1'),
    Variant('score-unmasked', VB,
            """      new_features = jax.tree_util.tree_map(
          lambda dim, feat: jnp.where(dim, jnp.zeros_like(feat), feat),
          dimension_is_missing,
          new_features,
      )

      new_rewards = eval_score_fn(new_features)""",
            """      new_rewards = eval_score_fn(new_features)
      new_features = jax.tree_util.tree_map(
          lambda dim, feat: jnp.where(dim, jnp.zeros_like(feat), feat),
          dimension_is_missing,
          new_features,
      )
""", rule='R2'),
    Variant('gather-different-index', VB, 'categorical=all_features.categorical[top_indices],',
            'categorical=all_features.categorical[jnp.argsort(-all_rewards)[:count]],', rule='R3'),
    Variant('concat-order-swapped', VB, '[batch_features.categorical, best_results.features.categorical],',
            '[best_results.features.categorical, batch_features.categorical],', rule='R3'),
    Variant('key-reuse', RV, '    cont_seed, cat_seed = jax.random.split(seed)\n    cont_data = jax.random.uniform(\n        cont_seed,',
            '    cont_seed, cat_seed = jax.random.split(seed)\n    cat_seed = cont_seed\n    cont_data = jax.random.uniform(\n        cont_seed,', rule='R4'),
    Variant('logits-le', ES, '          jnp.arange(self._max_categorical_size) < sizes,', '          jnp.arange(self._max_categorical_size) <= sizes,', rule='R1'),
    Variant('benign-rename', VB, 'top_indices', 'top_idx', expect='silent', count=4),
]
