"""C14 — seeded algorithms and benchmark runs are reproducible.

Effect analysis for ambient nondeterminism plus seed-plumbing dataflow:
  R1 no ambient entropy on the seeded path: every entropy source (wall clock,
     global `random`, legacy np.random.*, unseeded RNG constructors,
     os.urandom/uuid/secrets, `hash()` — salted per process for str/bytes) in
     the anchored designers, optimisers, policies and benchmark runners is
     either control-dependent on "the seed/rng argument is None" (an `is None`
     test, never truthiness: 0 is a seed), sits in an attrs `factory=` default,
     or flows only into logging / timing / timestamp sinks;
  R2 every `seed` / `rng` parameter is used: it reaches an RNG constructor, a
     callee's seed parameter or an attribute of self;
  R3 the benchmark chain BenchmarkStateFactory -> policy -> designer factory
     passes the seed at every hop;
  R4 no iteration over a `set` while building suggestions in the anchored files.
Bitwise equality of JAX/XLA numerics across processes is not decided.
"""

from __future__ import annotations

import ast
from typing import Dict, List, Optional, Set, Tuple

from vzstatic import flow
from vzstatic.index import FuncInfo, dotted
from vzstatic.selftest import Variant
from vzstatic.source import AnalysisError, ancestors, loc, parent, unparse

MANIFEST = {
    'technique': ('effect analysis: table of ambient-entropy sources, control dependence on '
                  '`<seed> is None`, forward taint from entropy values to RNG constructors / seed '
                  'keywords; unused-parameter and keyword-plumbing checks for seed/rng arguments'
                  '; process-wide state rule (module-level containers mutated by functions, memoising decorators); shared C13.R3/R5/R8'
                  '; seed-folding lint (many-to-one arithmetic on seed parameters)'),
    'level_text': (
        'Static: in the seeded designers and the benchmark runner no wall-clock, global-RNG, '
        'unseeded-RNG or per-process-salted value can reach a random stream unless the caller '
        'passed no seed; every seed argument is consumed and forwarded along the benchmark chain. '
        'Necessary for "same seed, same history -> identical suggestions in any process". '
        'Determinism of JAX/XLA numerics and BLAS threading is not decided.'),
    'level_note': ('Allowed sinks for clock values: logging, durations, timestamp metadata. '
                   'serialization.restore_rng creates an unseeded Generator whose state is overwritten on '
                   'the next line (allow-listed with that reason).'),
}

FILES = [
    'vizier/_src/algorithms/designers/random.py', 'vizier/_src/algorithms/designers/quasi_random.py',
    'vizier/_src/algorithms/designers/grid.py',
    'vizier/_src/algorithms/designers/eagle_strategy/eagle_strategy.py',
    'vizier/_src/algorithms/designers/eagle_strategy/eagle_strategy_utils.py',
    'vizier/_src/algorithms/designers/eagle_strategy/serialization.py',
    'vizier/_src/algorithms/evolution/nsga2.py', 'vizier/_src/algorithms/evolution/numpy_populations.py',
    'vizier/_src/algorithms/evolution/templates.py', 'vizier/_src/algorithms/designers/gp_bandit.py',
    'vizier/_src/algorithms/designers/gp_ucb_pe.py', 'vizier/_src/algorithms/designers/cmaes.py',
    'vizier/_src/algorithms/optimizers/vectorized_base.py', 'vizier/_src/algorithms/optimizers/eagle_strategy.py',
    'vizier/_src/algorithms/optimizers/random_vectorized_optimizer.py',
    'vizier/_src/algorithms/random/random_sample.py',
    'vizier/_src/algorithms/policies/designer_policy.py',
    'vizier/_src/benchmarks/runners/benchmark_state.py', 'vizier/_src/benchmarks/runners/benchmark_runner.py',
    'vizier/_src/benchmarks/experimenters/noisy_experimenter.py',
]
CLOCK = {'time.time', 'time.time_ns', 'time.perf_counter', 'time.monotonic', 'datetime.datetime.now',
         'datetime.datetime.utcnow', 'datetime.now', 'datetime.utcnow', 'datetime.datetime.today'}
GLOBAL_RNG_PREFIX = ('random.', 'np.random.', 'numpy.random.')
RNG_CTORS = {'np.random.RandomState', 'np.random.default_rng', 'numpy.random.RandomState', 'numpy.random.default_rng',
             'random.Random', 'np.random.Generator', 'np.random.SeedSequence', 'jax.random.PRNGKey', 'jax.random.key',
             'qmc.Halton', 'np.random.seed', 'random.seed'}
OTHER = {'os.urandom', 'uuid.uuid1', 'uuid.uuid4', 'secrets.token_bytes', 'secrets.randbits', 'os.getpid', 'id'}
SEEDY = ('seed', 'rng', 'key', 'random_state')
ALLOW = {
    ('vizier/_src/algorithms/designers/eagle_strategy/serialization.py', 'restore_rng'):
        'the unseeded Generator is only a container: its bit_generator.state is overwritten from the dump on the next statement',
}


def classify(call: ast.Call) -> Optional[str]:
  d = dotted(call.func) or ''
  if d in CLOCK:
    return 'clock'
  if d in OTHER:
    return 'other'
  if d == 'hash':
    return 'hash'
  if d in RNG_CTORS:
    unseeded = not call.args and not any(k.arg in ('seed', 'key') for k in call.keywords)
    none_seed = (call.args and isinstance(call.args[0], ast.Constant) and call.args[0].value is None) or any(
        k.arg == 'seed' and isinstance(k.value, ast.Constant) and k.value.value is None for k in call.keywords)
    if d in ('np.random.seed', 'random.seed'):
      return 'global-rng'
    # `seed or None`, `seed if seed else None`: a falsy seed (0) silently becomes "no seed"
    sarg = call.args[0] if call.args else next((k.value for k in call.keywords if k.arg in ('seed', 'key')), None)
    def _may_be_none_by_truthiness(e) -> bool:
      if isinstance(e, ast.BoolOp) and isinstance(e.op, ast.Or):
        return isinstance(e.values[-1], ast.Constant) and e.values[-1].value is None
      if isinstance(e, ast.IfExp) and is_none_test(e.test) is None:
        return any(isinstance(b, ast.Constant) and b.value is None for b in (e.body, e.orelse))
      return False
    if sarg is not None and _may_be_none_by_truthiness(sarg):
      return 'unseeded-rng'
    return 'unseeded-rng' if (unseeded or none_seed) else None
  if d.startswith(GLOBAL_RNG_PREFIX) and d.count('.') >= 1:
    tail = d.split('.')[-1]
    if d.startswith('random.') and tail[0].islower():
      return 'global-rng'
    if (d.startswith('np.random.') or d.startswith('numpy.random.')) and tail[0].islower() and d.count('.') == 2:
      return 'global-rng'
  return None


def is_none_test(t: ast.AST) -> Optional[Tuple[str, bool]]:
  """(name, True if the test means `name is None`)."""
  if isinstance(t, ast.Compare) and len(t.ops) == 1 and isinstance(t.comparators[0], ast.Constant) \
      and t.comparators[0].value is None and isinstance(t.ops[0], (ast.Is, ast.IsNot, ast.Eq, ast.NotEq)):
    d = dotted(t.left)
    if d:
      return d, isinstance(t.ops[0], (ast.Is, ast.Eq))
  return None


def guarded_by_none(node: ast.AST) -> Optional[str]:
  """'ok' if control-dependent on `<seedy> is None`; 'truthy' if guarded by truthiness of a seedy name."""
  cur = node
  for a in ancestors(node):
    if isinstance(a, ast.If):
      in_body = any(x is cur for x in a.body) or any(any(y is cur for y in ast.walk(x)) for x in a.body)
      nt = is_none_test(a.test)
      if nt and any(s in nt[0].lower() for s in SEEDY):
        if nt[1] == in_body:
          return 'ok'
      t = a.test
      if isinstance(t, ast.UnaryOp) and isinstance(t.op, ast.Not):
        t = t.operand
      if isinstance(t, ast.Name) and any(s in t.id.lower() for s in SEEDY):
        return 'truthy'
    if isinstance(a, ast.IfExp):
      nt = is_none_test(a.test)
      in_body = any(y is cur for y in ast.walk(a.body))
      if nt and any(s in nt[0].lower() for s in SEEDY):
        if nt[1] == in_body:
          return 'ok'
      if isinstance(a.test, ast.Name) and any(s in a.test.id.lower() for s in SEEDY):
        return 'truthy'
    if isinstance(a, ast.BoolOp) and isinstance(a.op, ast.Or):
      first = a.values[0]
      if isinstance(first, ast.Name) and any(s in first.id.lower() for s in SEEDY) and not any(y is node for y in ast.walk(first)):
        return 'truthy'
    if isinstance(a, (ast.FunctionDef, ast.Lambda)):
      break
    cur = a
  return None


def in_attrs_factory(node: ast.AST) -> bool:
  for a in ancestors(node):
    if isinstance(a, ast.keyword) and a.arg in ('factory', 'default_factory'):
      return True
    if isinstance(a, ast.FunctionDef):
      return False
  return False


def taint_reaches_rng(fn: ast.AST, call: ast.Call) -> Optional[ast.AST]:
  """Does the value of `call` (directly or through local names) reach an RNG ctor / seed keyword?"""
  tainted: Set[str] = set()
  # direct use as an argument
  def uses(e: ast.AST) -> bool:
    return any(x is call for x in ast.walk(e)) or any(isinstance(x, ast.Name) and x.id in tainted for x in ast.walk(e))
  changed = True
  while changed:
    changed = False
    for x in ast.walk(fn):
      if isinstance(x, ast.Assign) and uses(x.value):
        for t in x.targets:
          for nm in ([t.id] if isinstance(t, ast.Name) else [dotted(t)] if dotted(t) else []):
            if nm and nm not in tainted:
              tainted.add(nm)
              changed = True
  for x in ast.walk(fn):
    if isinstance(x, ast.Call) and x is not call:
      d = dotted(x.func) or ''
      if d in RNG_CTORS and any(uses(a) for a in list(x.args) + [k.value for k in x.keywords]):
        return x
      for k in x.keywords:
        if k.arg and any(s == k.arg or k.arg.endswith('_' + s) for s in SEEDY) and uses(k.value):
          return x
    if isinstance(x, ast.Assign) and uses(x.value):
      for t in x.targets:
        d = dotted(t) or ''
        if any(d.split('.')[-1].lstrip('_') == s or d.split('.')[-1].endswith('_' + s) for s in ('seed', 'rng')):
          return x
  return None


def run(ctx) -> None:
  ctx.rule('R1', 'ambient entropy never reaches a random stream when a seed was given', 8)
  ctx.rule('R2', 'every seed / rng parameter is consumed (RNG constructor, callee seed, attribute of self)', 10)
  ctx.rule('R3', 'the benchmark chain forwards the seed at every hop', 3)
  ctx.rule('R4', 'no iteration over a set in suggestion-building code', 1)
  ctx.rule('R6', 'no process-wide mutable state or memoisation in the modules on the seeded path', 10)
  ctx.import_rules('C12', {'R2'}, 'R7', 'completed trials reach the designer in an order that does not depend on the clock (id order of the loader)')
  ctx.import_rules('C13', {'R5', 'R3', 'R8', 'R6'}, 'R5', 're-initialisation (restore / second run) starts from the same template: no in-place shuffle of constructor-derived state')
  n_sites = 0
  for f in FILES:
    mi = ctx.index.module_of_file(f)
    funcs = list(mi.functions.values()) + [m for c in mi.classes.values() for m in c.methods.values()]
    # class bodies (attrs field defaults)
    scopes: List[Tuple[str, ast.AST]] = [(fi.qualname, fi.node) for fi in funcs] + \
        [(c.qualname, ast.Module(body=[s for s in c.node.body if not isinstance(s, ast.FunctionDef)], type_ignores=[]))
         for c in mi.classes.values()]
    for qual, node in scopes:
      for c in [x for x in ast.walk(node) if isinstance(x, ast.Call)]:
        kind = classify(c)
        if kind is None:
          continue
        from vzstatic.source import enclosing_function
        ef = enclosing_function(c)
        if isinstance(node, ast.FunctionDef) and ef is not node and not isinstance(ef, ast.Lambda):
          continue  # belongs to a nested def analysed on its own? (nested defs are rare) keep simple
        n_sites += 1
        fname = qual.rsplit('.', 1)[-1]
        inst = f'{f.rsplit("/", 1)[-1]}:{qual.split(".")[-2] if "." in qual else ""}.{fname}: {unparse(c, 50)}'
        if (f, fname) in ALLOW:
          ctx.ok('R1', inst, c, 'allow-listed: ' + ALLOW[(f, fname)])
          continue
        g = guarded_by_none(c)
        if g == 'ok':
          ctx.ok('R1', inst, c, 'only when the seed/rng argument is None')
          continue
        if g == 'truthy':
          ctx.bad('R1', inst, c,
                  f'`{unparse(c, 50)}` is chosen by the truthiness of the seed (`seed or ...` / `if seed`): '
                  'seed=0 is a valid seed but falls through to the ambient source, so runs with seed 0 are not reproducible',
                  construct=f'{fname}:{unparse(c, 0)}:truthy', func=qual)
          continue
        if in_attrs_factory(c):
          ctx.ok('R1', inst, c, 'attrs factory default: bypassed whenever the caller passes the seed/rng')
          continue
        hit = taint_reaches_rng(node, c)
        if kind in ('clock', 'hash', 'other'):
          ctx.check(hit is None, 'R1', inst, c, 'value flows only into logging / timing / timestamps',
                    f'the {"per-process salted hash" if kind == "hash" else "ambient " + kind} value `{unparse(c, 50)}` '
                    f'reaches a random stream at line {getattr(hit, "lineno", 0)} (`{unparse(hit, 60) if hit else ""}`) '
                    'even when a seed was given: two runs with the same seed differ across time / processes',
                    construct=f'{fname}:{unparse(c, 0)}', func=qual)
        else:
          ctx.bad('R1', inst, c,
                  f'`{unparse(c, 50)}` draws from {"the global RNG state" if kind == "global-rng" else "an unseeded RNG"} '
                  'on the seeded path: the result depends on what ran before in the process',
                  construct=f'{fname}:{unparse(c, 0)}', func=qual)
  ctx.count('entropy_sites', n_sites)
  if n_sites < 8:
    raise AnalysisError(f'only {n_sites} entropy sites found (matcher rot)')
  r2_params(ctx)
  r3_chain(ctx)
  r3_seed_not_folded(ctx)
  r3_fresh_experimenter_per_state(ctx)
  r4_sets(ctx)
  r6_no_process_state(ctx)


# ----------------------------------------------------------------------- R6
_MUT_CTORS = {'dict', 'list', 'set', 'defaultdict', 'OrderedDict', 'Counter', 'deque', 'WeakKeyDictionary', 'WeakValueDictionary'}
_MUT_METHODS = {'append', 'extend', 'add', 'update', 'setdefault', 'pop', 'popitem', 'clear', 'insert', 'remove', 'discard', 'appendleft'}


def r6_no_process_state(ctx) -> None:
  """Nothing on the seeded path remembers earlier studies: no module-level container that functions mutate,
  no `global` rebinding, no memoising decorator.  Such state makes a run depend on what else ran in the process."""
  n_mod = 0
  for f in FILES:
    mi = ctx.index.module_of_file(f)
    n_mod += 1
    containers = {}
    for st in mi.tree.body:
      tgt, val = None, None
      if isinstance(st, ast.Assign) and len(st.targets) == 1 and isinstance(st.targets[0], ast.Name):
        tgt, val = st.targets[0].id, st.value
      elif isinstance(st, ast.AnnAssign) and isinstance(st.target, ast.Name) and st.value is not None:
        tgt, val = st.target.id, st.value
      if tgt is None:
        continue
      if isinstance(val, (ast.Dict, ast.List, ast.Set)) or (
          isinstance(val, ast.Call) and (dotted(val.func) or '').rsplit('.', 1)[-1] in _MUT_CTORS):
        containers[tgt] = st
    bad = []
    for fn in [x for x in ast.walk(mi.tree) if isinstance(x, (ast.FunctionDef, ast.AsyncFunctionDef))]:
      for dec in fn.decorator_list:
        t = unparse(dec, 0)
        if 'lru_cache' in t or t.endswith('functools.cache') or t == 'cache' or 'cached_property' in t or 'memoize' in t.lower():
          bad.append((dec, f'`@{t}` on {fn.name}(): results are remembered across studies for the life of the process'))
      local = {a.arg for a in fn.args.args + fn.args.kwonlyargs + fn.args.posonlyargs}
      local |= {t.id for x in ast.walk(fn) if isinstance(x, ast.Assign) for t in x.targets if isinstance(t, ast.Name)}
      for x in ast.walk(fn):
        if isinstance(x, ast.Global):
          bad.append((x, f'`global {", ".join(x.names)}` in {fn.name}(): module state is rebound at run time'))
        name = None
        if isinstance(x, (ast.Assign, ast.AugAssign, ast.Delete)):
          tg = x.targets if isinstance(x, (ast.Assign, ast.Delete)) else [x.target]
          for t in tg:
            if isinstance(t, ast.Subscript) and isinstance(t.value, ast.Name):
              name = t.value.id
        if isinstance(x, ast.Call) and isinstance(x.func, ast.Attribute) and x.func.attr in _MUT_METHODS and isinstance(x.func.value, ast.Name):
          name = x.func.value.id
        if name is not None and name in containers and name not in local:
          bad.append((x, f'module-level `{name}` is modified in {fn.name}() (`{unparse(x, 60)}`): what it holds depends on the studies that ran before'))
    inst = f'{f.rsplit("/", 1)[-1]}: no process-wide mutable state'
    if bad:
      node, why = bad[0]
      ctx.bad('R6', inst, node, why + ' - two runs with the same seed, problem and history can differ', construct=f'{f}:process-state', func=mi.name)
    else:
      ctx.ok('R6', inst, mi.tree, f'{len(containers)} module-level containers, none modified by a function; no memoising decorator')
  if n_mod < 10:
    raise AnalysisError('R6: module list shrank')


def r2_params(ctx) -> None:
  n = 0
  for f in FILES:
    mi = ctx.index.module_of_file(f)
    funcs = list(mi.functions.values()) + [m for c in mi.classes.values() for m in c.methods.values()]
    for fi in funcs:
      a = fi.node.args
      for p in a.posonlyargs + a.args + a.kwonlyargs:
        if p.arg not in ('seed', 'rng', 'shuffle_seed', 'noise_seed'):
          continue
        if any(dd.endswith(('abstractmethod', 'overload')) for dd in fi.decorators):
          continue
        body = fi.node.body
        if len(body) == 1 and isinstance(body[0], (ast.Pass, ast.Expr)) and not isinstance(getattr(body[0], 'value', None), ast.Call):
          continue  # interface stub
        if all(isinstance(s, (ast.Pass, ast.Raise)) or (isinstance(s, ast.Expr) and isinstance(s.value, ast.Constant)) for s in body):
          continue
        # methods that implement an interface deterministically may ignore the seed; the rule is
        # about constructors / factories and about bodies that do draw random numbers
        draws = any(isinstance(c, ast.Call) and ((dotted(c.func) or '').startswith(('jax.random.', 'np.random.', 'random.'))
                                                  or (isinstance(c.func, ast.Attribute) and 'rng' in (dotted(c.func.value) or '')))
                    for c in ast.walk(fi.node))
        if fi.name not in ('__init__', 'from_problem', '__call__', '__attrs_post_init__') and not draws:
          continue
        n += 1
        used = [x for x in ast.walk(fi.node) if isinstance(x, ast.Name) and x.id == p.arg and isinstance(x.ctx, ast.Load)]
        only_del = all(isinstance(parent(x), ast.Delete) for x in used) if used else False
        ctx.check(bool(used) and not only_del, 'R2', f'{fi.qualname.split(".")[-2]}.{fi.name}({p.arg})', fi.node,
                  'the parameter is consumed',
                  f'parameter `{p.arg}` of {fi.name}() is never used: the seed the caller passes has no effect on the stream',
                  construct=f'{fi.name}:{p.arg}', func=fi.qualname)
  if n < 10:
    raise AnalysisError(f'only {n} seed/rng parameters found')


def r3_chain(ctx) -> None:
  # InRamDesignerPolicy/_SerializableDesignerPolicyBase: factory(problem, seed=self._seed)
  base = ctx.index.need_class('vizier._src.algorithms.policies.designer_policy._SerializableDesignerPolicyBase')
  init = base.methods['_initialize_designer']
  calls = [c for c in flow.calls_in(init.node) if (dotted(c.func) or '') == 'self._designer_factory']
  ok = bool(calls) and all(any(k.arg == 'seed' and dotted(k.value) == 'self._seed' for k in c.keywords) for c in calls)
  ctx.check(ok, 'R3', '_initialize_designer: factory(problem, seed=self._seed)', init.node, 'seed forwarded',
            'the policy creates its designer without its seed', construct='init-seed', func=init.qualname)
  stores = any(isinstance(x, ast.Assign) and any(dotted(t) == 'self._seed' for t in x.targets) and dotted(x.value) == 'seed'
               for x in ast.walk(base.methods['__init__'].node))
  ctx.check(stores, 'R3', 'policy stores its seed', base.methods['__init__'].node, 'self._seed = seed',
            'policy constructor drops the seed', construct='store-seed', func=base.qualname)
  mod = ctx.index.need_module('vizier._src.benchmarks.runners.benchmark_state')
  for ci in mod.classes.values():
    call = ci.methods.get('__call__')
    if call is None or 'seed' not in call.params:
      continue
    if all(isinstance(s, (ast.Pass, ast.Expr, ast.Raise)) for s in call.node.body):
      continue
    fwd = False
    for c in flow.calls_in(call.node):
      if any(k.arg == 'seed' and dotted(k.value) == 'seed' for k in c.keywords) or any(
          isinstance(a, ast.Name) and a.id == 'seed' for a in c.args):
        fwd = True
    ctx.check(fwd, 'R3', f'{ci.name}.__call__ forwards seed', call.node, 'seed passed on to the policy/designer factory',
              f'{ci.name}.__call__(seed) does not pass the seed on: a seeded benchmark run is not reproducible',
              construct=f'{ci.name}:seed', func=call.qualname)


def r3_seed_not_folded(ctx) -> None:
  """A seed is forwarded as given: no many-to-one arithmetic (`%`, `&`, `//`, `>>`, `^`, hash/abs) is applied to it on
  the way, or distinct seeds replay one another's run."""
  n = 0
  bad = []
  files = list(FILES) + ['vizier/_src/benchmarks/runners/benchmark_state.py', 'vizier/_src/benchmarks/runners/benchmark_runner.py',
                         'vizier/_src/algorithms/policies/designer_policy.py']
  seen = set()
  for f in files:
    if f in seen or not ctx.src.exists(f):
      continue
    seen.add(f)
    mi = ctx.index.module_of_file(f)
    fns = list(mi.functions.values()) + [m for c in mi.classes.values() for m in c.methods.values()]
    for fi in fns:
      seeds = [p for p in fi.params if 'seed' in p.lower()]
      if not seeds:
        continue
      n += 1
      for x in ast.walk(fi.node):
        if isinstance(x, ast.BinOp) and isinstance(x.op, (ast.Mod, ast.BitAnd, ast.FloorDiv, ast.RShift, ast.BitXor)):
          if any(isinstance(y, ast.Name) and y.id in seeds for y in ast.walk(x.left)) and not isinstance(x.left, ast.Constant):
            # string formatting `'..%s' % seed` has the seed on the right
            bad.append((fi, x))
        if isinstance(x, ast.Call) and dotted(x.func) in ('hash', 'abs') and x.args and isinstance(x.args[0], ast.Name) and x.args[0].id in seeds:
          bad.append((fi, x))
  ctx.check(not bad, 'R3', 'seeds are forwarded unreduced', 'modules on the seeded path',
            f'{n} functions with a seed parameter examined',
            '; '.join(f'{fi.qualname}: `{unparse(x, 40)}`' for fi, x in bad[:3]) + ': the seed is folded into a smaller range before it is used, so '
            'different seeds (e.g. (repeat << 32) | base) produce the identical run', construct='seed-folded', func=bad[0][0].qualname if bad else None)


def r3_fresh_experimenter_per_state(ctx) -> None:
  """Every benchmark state gets its own experimenter: a factory that owns an `experimenter_factory` calls it inside __call__
  (a stateful experimenter - seeded noise - shared by several states makes a run depend on the runs made before it)."""
  mod = ctx.index.need_module('vizier._src.benchmarks.runners.benchmark_state')
  n = 0
  for ci in mod.classes.values():
    fields = {st.target.id for st in ci.node.body if isinstance(st, ast.AnnAssign) and isinstance(st.target, ast.Name)}
    if 'experimenter_factory' not in fields:
      continue
    call = ci.methods.get('__call__')
    if call is None:
      continue
    n += 1
    per_call = any((dotted(c.func) or '') == 'self.experimenter_factory' for c in flow.calls_in(call.node))
    elsewhere = [c for x in ast.walk(ci.node) if x is not call.node for c in ([x] if isinstance(x, ast.Call) else [])
                 if (dotted(c.func) or '') == 'self.experimenter_factory' and not any(a is call.node for a in ancestors(c))]
    ctx.check(per_call and not elsewhere, 'R3', f'{ci.name}: a new experimenter for every state', call.node,
              'self.experimenter_factory() is called in __call__ (and nowhere else)',
              f'{ci.name} builds its experimenter ' + ('outside __call__' if elsewhere else 'not per state') +
              ': all states of one factory share one experimenter object, and a stateful one (seeded noise stream) makes the measurements of a '
              'seeded run depend on which runs were made before it in the process', construct=f'{ci.name}:shared-experimenter', func=ci.qualname)
  if n < 1:
    raise AnalysisError('no benchmark state factory with an experimenter_factory field found')


def r4_sets(ctx) -> None:
  n = 0
  bad = []
  # seeded wrappers: one draw per element of a collection must walk the collection in a defined order
  for f in ('vizier/_src/benchmarks/experimenters/permuting_experimenter.py', 'vizier/_src/benchmarks/experimenters/noisy_experimenter.py',
            'vizier/_src/benchmarks/experimenters/shifting_experimenter.py'):
    if not ctx.src.exists(f):
      continue
    mi = ctx.index.module_of_file(f)
    for fi in [m for c in mi.classes.values() for m in c.methods.values()]:
      for x in ast.walk(fi.node):
        if isinstance(x, (ast.For, ast.comprehension)):
          n += 1
          it = flow.resolve_local(fi.node, x.iter)
          if isinstance(it, (ast.Set, ast.SetComp)) or (isinstance(it, ast.Call) and dotted(it.func) in ('set', 'frozenset')):
            bad.append((fi, x))
  for f in FILES[:12]:
    mi = ctx.index.module_of_file(f)
    for fi in [m for c in mi.classes.values() for m in c.methods.values() if m.name in ('suggest', '_suggest_one', 'sample', 'mutate')]:
      sets = set()
      for x in ast.walk(fi.node):
        if isinstance(x, ast.Assign) and (isinstance(x.value, (ast.Set, ast.SetComp)) or (
            isinstance(x.value, ast.Call) and dotted(x.value.func) in ('set', 'frozenset'))):
          sets |= {t.id for t in x.targets if isinstance(t, ast.Name)}
      for x in ast.walk(fi.node):
        if isinstance(x, (ast.For, ast.comprehension)):
          n += 1
          it = x.iter
          if isinstance(it, (ast.Set, ast.SetComp)) or (isinstance(it, ast.Call) and dotted(it.func) in ('set', 'frozenset')) \
              or (isinstance(it, ast.Name) and it.id in sets):
            bad.append((fi, x))
  ctx.check(not bad, 'R4', 'no set iteration in suggest paths', 'anchored designers',
            f'{n} loops examined', f'iteration over a set at {[loc(x) for _, x in bad]}: order depends on hash seeds',
            construct='set-iter')


VARIANTS = [
    Variant('quasi-seed-or-time', 'vizier/_src/algorithms/designers/quasi_random.py',
            'self._seed = seed if seed is not None else np.int32(time.time())',
            'self._seed = seed or np.int32(time.time())', rule='R1'),
    Variant('random-designer-unseeded', 'vizier/_src/algorithms/designers/random.py',
            'self._rng = np.random.RandomState(seed)', 'self._rng = np.random.RandomState()', rule='R'),
    Variant('nsga2-hash-seed', 'vizier/_src/algorithms/evolution/numpy_populations.py',
            '    self._rng = np.random.RandomState(seed)\n', "    self._rng = np.random.RandomState(hash(('op', seed)) % 2**32)\n", rule='R1', count=2),
    Variant('eagle-always-time', 'vizier/_src/algorithms/designers/eagle_strategy/eagle_strategy.py',
            '    if seed is None:\n      # When a key', '    if True:\n      # When a key', rule='R1'),
    Variant('global-np-random', 'vizier/_src/algorithms/designers/random.py',
            'self._rng = np.random.RandomState(seed)', 'self._rng = np.random.RandomState(seed)\n    np.random.seed(seed)', rule='R1'),
    Variant('policy-drops-seed', 'vizier/_src/algorithms/policies/designer_policy.py',
            '          problem_statement, seed=self._seed\n      )\n      self._cache.clear()',
            '          problem_statement\n      )\n      self._cache.clear()', rule='R3'),
    Variant('benign-rename', 'vizier/_src/algorithms/designers/eagle_strategy/eagle_strategy.py', 'scaled_suggestions', 'scaled', expect='silent', count=2),
]
