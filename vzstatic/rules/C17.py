"""C17 — clients receive parameter values in the declared external types.

Structural clauses:
  R1 ParameterValue.cast has one arm per ExternalType member returning the
     matching accessor (INTERNAL -> value, BOOLEAN -> as_bool, INTEGER ->
     as_int, FLOAT -> as_float) and ends in raise;
  R2 builders attach the documented external type (add_bool_param -> BOOLEAN;
     add_discrete_param -> INTEGER only under the all-integral test, else FLOAT);
  R3 _pytrial_parameters raises when the number of converted values differs
     from the number of trial parameters, before anything is returned
     (unknown / inactive parameters are an error, not a truncation);
  R4 _trial_to_external_values emits a child only if its parent was emitted and
     the parent's value is among the child's matching parent values, and casts
     with the parameter's external type;
  R5 indexed names are grouped by parse_multi_dimensional_parameter_name and
     sorted by the *integer index* before the list is built; the parser's
     regular expression and the name builder's format string describe the same
     shape (literal skeleton comparison via the regex AST);
  R6 clients.Trial.parameters goes through StudyConfig.trial_parameters of the
     materialised trial (no bypass).
Value equality with the stored values is not decided.
"""

from __future__ import annotations

import ast
import re
from typing import Dict, List, Optional

from vzstatic import cfg as cfgmod
from vzstatic import flow
from vzstatic.index import dotted
from vzstatic.selftest import Variant
from vzstatic.source import AnalysisError, ancestors, loc, unparse

MANIFEST = {
    'technique': ('dispatch-table totality of ParameterValue.cast against the ExternalType enum, '
                  'guard-dominates-emission rules over the CFG of the external-value traversal, '
                  'regex-AST vs format-string skeleton comparison, sort-key check'
                  '; member-wise evaluation of ParameterValue.cast; path-condition truth tables for the conditional-children walk; regex/format skeleton agreement through module constants and f-strings'
                  '; path-condition check of the discrete external type; role-based work-list analysis; external type written under presence only'),
    'level_text': (
        'Static: the cast table is total and each arm uses the matching accessor; builders '
        'declare the documented external types; children are emitted only under their active '
        'parent value; mismatching trials raise instead of being truncated; indexed parameters '
        'are grouped and ordered by integer index; the client path does not bypass the '
        'conversion. Necessary for "values presented in the declared type"; value equality is '
        'not decided (the wire part is C09).'),
    'level_note': 'Trusted: re module semantics for the literal skeleton (via re._parser).',
}


def r10_stored_representation(ctx) -> None:
  # (a) ParameterValueConverter.from_proto hands the wire value on unchanged
  pv = ctx.index.need_class('vizier._src.pyvizier.oss.proto_converters.ParameterValueConverter')
  fp = pv.methods['from_proto']
  conv = [c for c in flow.calls_in(fp.node) if dotted(c.func) in ('int', 'round', 'float', 'bool', 'str')
          or (isinstance(c.func, ast.Attribute) and c.func.attr in ('is_integer', 'astype'))]
  ctx.check(not conv, 'R10', 'ParameterValueConverter.from_proto returns the stored value as stored', fp.node, 'no numeric re-typing of the wire value',
            f'`{unparse(conv[0], 50) if conv else ""}` re-types the stored value: a DOUBLE (or float-typed DISCRETE) parameter whose value happens to be a whole '
            'number is presented as an int instead of a float', construct='from_proto:retyped', func=fp.qualname)
  # (b) ParameterConfigConverter.from_proto: external_type only from proto.external_type
  pc = ctx.index.need_class('vizier._src.pyvizier.oss.proto_converters.ParameterConfigConverter')
  fc = pc.methods['from_proto']
  par = [p_ for p_ in fc.params if p_ not in ('cls', 'self')][0]
  bad = None
  for x in ast.walk(fc.node):
    if isinstance(x, ast.Assign) and any(isinstance(t, ast.Name) and t.id == 'external_type' for t in x.targets):
      v = x.value
      ok_ = (isinstance(v, ast.Constant) and v.value is None) or any(
          isinstance(y, ast.Attribute) and unparse(y, 0) == f'{par}.external_type' for y in ast.walk(v))
      if not ok_:
        bad = bad or x
  kw = [k for c in flow.calls_in(fc.node) for k in c.keywords if k.arg == 'external_type']
  if not kw:
    raise AnalysisError('ParameterConfigConverter.from_proto: external_type is not passed to the config')
  ctx.check(bad is None, 'R10', 'ParameterConfigConverter.from_proto: external type read from the spec field', fc.node,
            f'external_type derives from {par}.external_type (or is None)',
            f'`{unparse(bad, 70) if bad is not None else ""}` infers an external type that the spec does not declare: a categorical parameter whose categories '
            "happen to be 'True'/'False' is presented as bool instead of str", construct='from_proto:inferred-external-type', func=fc.qualname)


def r8_external_type_transmitted(ctx) -> None:
  ci = ctx.index.need_class('vizier._src.pyvizier.oss.proto_converters.ParameterConfigConverter')
  fi = ci.methods.get('to_proto')
  if fi is None:
    raise AnalysisError('ParameterConfigConverter.to_proto not found')
  g = cfgmod.CFG(fi.node)
  par = [p_ for p_ in fi.params if p_ not in ('cls', 'self')][0]
  writes = [n for n in g.nodes if n.kind == 'stmt' and isinstance(n.ast, ast.Assign) and any(
      isinstance(t, ast.Attribute) and t.attr == 'external_type' for t in n.ast.targets)]
  if not writes:
    raise AnalysisError('ParameterConfigConverter.to_proto: write of proto.external_type not found')
  for w in writes:
    extra = []
    for c_, pol in g.controlling_conditions(w):
      conj = c_.values if isinstance(c_, ast.BoolOp) and isinstance(c_.op, ast.And) and pol else [c_]
      for t in conj:
        txt = unparse(t, 0)
        presence = isinstance(t, ast.Compare) and len(t.ops) == 1 and isinstance(t.ops[0], (ast.IsNot, ast.Is)) \
            and isinstance(t.comparators[0], ast.Constant) and t.comparators[0].value is None and txt.startswith(f'{par}.external_type')
        if not presence:
          extra.append(txt)
    ctx.check(not extra, 'R8', 'ParameterConfigConverter.to_proto: external_type written whenever it is set', w.ast,
              f'guarded by `{par}.external_type is not None` only',
              f'the write of `external_type` also depends on `{extra[0] if extra else ""}`: a declared external type (e.g. BOOLEAN or INTEGER on a numeric '
              'parameter) is dropped when the study is created, and clients then receive the internal representation (1.0 instead of True)',
              construct='external-type-dropped', func=fi.qualname)


def run(ctx) -> None:
  ctx.rule('R1', 'ParameterValue.cast: one arm per ExternalType with the matching accessor, else raise', 1)
  ctx.rule('R2', 'builders declare the documented external types', 2)
  ctx.rule('R3', 'mismatching trials raise (length check dominates every return)', 1)
  ctx.rule('R4', 'children emitted only under an emitted parent with a matching value; cast by external type', 3)
  ctx.rule('R5', 'indexed parameters grouped by the parser and sorted by integer index; parser and builder agree', 3)
  ctx.rule('R6', 'clients.Trial.parameters uses StudyConfig.trial_parameters', 1)
  ctx.rule('R10', 'the stored value is read back as stored (no int() of integral floats); the external type of a loaded config comes '
           'from the spec field only (never inferred from the feasible values); the indexed-name parser accepts every base name', 2)
  ctx.rule('R8', 'a declared external type is always written to the study spec (guarded by `is not None` only)', 1)
  r8_external_type_transmitted(ctx)
  r10_stored_representation(ctx)
  ctx.import_rules('C16', {'R8'}, 'R9', 'every subspace owns its child config objects (a child shared between parent values is active for one of them only)')
  ctx.import_rules('C09', {'R8', 'R5'}, 'R7', 'the study config the client casts with is the one that was stored: conditional children survive the wire one by one')
  trial_mod = ctx.index.need_module('vizier._src.pyvizier.shared.trial')
  pcm = ctx.index.need_module('vizier._src.pyvizier.shared.parameter_config')
  pv = trial_mod.classes.get('ParameterValue')
  ext = pcm.classes.get('ExternalType') or trial_mod.classes.get('ExternalType')
  if ext is None:
    sym = ctx.index.resolve(trial_mod, 'ExternalType')
    ext = sym
  if pv is None or ext is None:
    raise AnalysisError('ParameterValue / ExternalType not found')
  # ------------------------------------------------------------------ R1
  cast = pv.methods['cast']
  want = {'INTERNAL': 'self.value', 'BOOLEAN': 'self.as_bool', 'INTEGER': 'self.as_int', 'FLOAT': 'self.as_float'}
  members = [k for k in ext.assigns if not k.startswith('_')]
  from vzstatic import enumeval
  par = [p_ for p_ in cast.params if p_ != 'self'][0]
  arms: Dict[str, str] = {}
  for m in members:
    r = enumeval.run_function(cast.node.body, {par: m})
    arms[m] = unparse(r, 0) if isinstance(r, ast.AST) else ('?' if r is enumeval.UNKNOWN else str(r))
  unknown = enumeval.run_function(cast.node.body, {par: '<not a member>'})
  probs = [f'{m}: returns `{arms.get(m)}`, expected `{want.get(m)}`' for m in members if arms.get(m) != want.get(m)]
  ends = unknown == 'raise'
  ctx.check(not probs and ends, 'R1', 'ParameterValue.cast', cast.node, f'{len(arms)} arms for {members}, else raise',
            '; '.join(probs) or 'unknown external types do not raise', construct='; '.join(probs) or 'else', func=cast.qualname)
  # ------------------------------------------------------------------ R2
  sel = pcm.classes.get('SearchSpaceSelector')
  ab = sel.methods['add_bool_param']
  okb = any(isinstance(k, ast.keyword) and k.arg == 'external_type' and unparse(k.value, 0) == 'ExternalType.BOOLEAN' for k in ast.walk(ab.node))
  ctx.check(okb, 'R2', 'add_bool_param -> ExternalType.BOOLEAN', ab.node, 'external_type=BOOLEAN',
            'boolean parameters are not declared BOOLEAN: clients receive the strings "True"/"False"', construct='bool', func=ab.qualname)
  ad = sel.methods['add_discrete_param']
  g = cfgmod.CFG(ad.node)
  default_float = any(n.kind == 'stmt' and isinstance(n.ast, ast.Assign) and unparse(n.ast, 0) == 'external_type = ExternalType.FLOAT' for n in g.nodes)
  int_assign = [n for n in g.nodes if n.kind == 'stmt' and isinstance(n.ast, ast.Assign) and unparse(n.ast, 0) == 'external_type = ExternalType.INTEGER']
  def _exact_integral_test(t: ast.AST) -> bool:
    # all(<v == round(v) | v == int(v) | float(v).is_integer()> for v in feasible_values)
    if not (isinstance(t, ast.Call) and dotted(t.func) == 'all' and len(t.args) == 1
            and isinstance(t.args[0], (ast.ListComp, ast.GeneratorExp)) and len(t.args[0].generators) == 1):
      return False
    comp = t.args[0]
    gen = comp.generators[0]
    if not (isinstance(gen.target, ast.Name) and 'feasible_values' in unparse(gen.iter, 0) and not gen.ifs):
      return False
    v = gen.target.id
    e = comp.elt
    if isinstance(e, ast.Compare) and len(e.ops) == 1 and isinstance(e.ops[0], ast.Eq):
      sides = [e.left, e.comparators[0]]
      plain = [x for x in sides if isinstance(x, ast.Name) and x.id == v]
      rounded = [x for x in sides if isinstance(x, ast.Call) and dotted(x.func) in ('round', 'int', 'math.floor', 'math.trunc', 'np.round', 'np.rint')
                 and len(x.args) == 1 and isinstance(x.args[0], ast.Name) and x.args[0].id == v]
      return len(plain) == 1 and len(rounded) == 1
    if isinstance(e, ast.Call) and isinstance(e.func, ast.Attribute) and e.func.attr == 'is_integer':
      return v in flow.names_in(e.func.value)
    return False
  # every path to the call that passes external_type=...: the value is INTEGER only if a test that all feasible values
  # are integral was taken on its true side, and FLOAT otherwise
  from vzstatic import pathcond as _pc
  users = [(n, k.value) for n in g.nodes for c in flow.node_calls(n) for k in c.keywords if k.arg == 'external_type']
  if not users:
    raise AnalysisError('add_discrete_param: no call passing external_type= found')
  okd = True
  n_paths = 0
  for un, val in users:
    start = [g.entry]
    if un.loops:
      # the call sits in a loop over the names to create: paths are taken up to the loop header
      hdr = next((m for m in g.nodes if m.kind in ('for', 'while') and m.ast is un.loops[0]), None)
      target = hdr if hdr is not None else un
    else:
      target = un
    # start at the lowest node that dominates the target and every definition the value can come from: the
    # branches before it do not matter for the value
    rd_ = flow.ReachingDefs(g)
    dom_ = g.dominators()
    defs_ = [g.nodes[d.node_id] for nm in flow.names_in(val) for d in rd_.at(target, nm) if d.node_id >= 0]
    cands_ = [m for m in g.nodes if m.id in dom_[target.id] and all(m.id in dom_[d.id] for d in defs_) and m is not target]
    if cands_:
      low = max(cands_, key=lambda m: len(dom_[m.id]))
      start = [low]
    for path in _pc.paths(g, start, target, limit=6000):
      n_paths += 1
      v = _pc.substitute_on_path(path, val)
      d = dotted(v) or ''
      if d.endswith('ExternalType.FLOAT'):
        continue
      if not d.endswith('ExternalType.INTEGER'):
        if isinstance(v, ast.Name) and v.id in ad.params:
          continue
        raise AnalysisError(f'add_discrete_param: external type `{unparse(v, 50)}` on a path is neither INTEGER nor FLOAT')
      guarded = False
      for t, pol in _pc.conditions(path):
        conj = t.values if isinstance(t, ast.BoolOp) and isinstance(t.op, ast.And) else [t]
        if pol and any(_exact_integral_test(c_) for c_ in conj):
          guarded = True
      if not guarded:
        okd = False
  ctx.count('discrete_external_type_paths', n_paths)
  ctx.check(okd, 'R2', 'add_discrete_param: INTEGER only if all values integral, else FLOAT', ad.node,
            'INTEGER assigned only on the true branch of all(v == round(v))',
            'discrete parameters are declared INTEGER without the all-integral test (non-integral values would be truncated) '
            'or never declared', construct='discrete', func=ad.qualname)
  # ------------------------------------------------------------------ R3..R5
  sc = ctx.index.need_class('vizier._src.pyvizier.oss.study_config.StudyConfig')
  pp = sc.methods['_pytrial_parameters']
  g = cfgmod.CFG(pp.node)
  # a test comparing the number of converted values with the number of trial parameters, raising on the unequal side
  chk = []
  raises = False
  for n in g.nodes:
    if n.kind != 'test':
      continue
    t, neg = n.ast, False
    while isinstance(t, ast.UnaryOp) and isinstance(t.op, ast.Not):
      t, neg = t.operand, not neg
    if isinstance(t, ast.Compare) and len(t.ops) == 1 and isinstance(t.ops[0], (ast.Eq, ast.NotEq)):
      sides = [unparse(t.left, 0), unparse(t.comparators[0], 0)]
      if all(x.startswith('len(') for x in sides) and any('.parameters' in x for x in sides):
        unequal_label = 'T' if (isinstance(t.ops[0], ast.NotEq) != neg) else 'F'
        chk.append(n)
        raises = any(isinstance(m.ast, ast.Raise) for m, lab in n.succs if lab == unequal_label)
  rets = [p for p, _ in g.exit.preds]
  dom = g.dominators()
  ok3 = raises and all(chk[0].id in dom[r.id] for r in rets)
  ctx.check(ok3, 'R3', '_pytrial_parameters: length check', pp.node,
            'len(converted) != len(trial.parameters) raises and dominates every return',
            'a trial carrying parameters that are unknown or inactive in the space is silently truncated instead of raising',
            construct='length-check', func=pp.qualname)
  te = sc.methods['_trial_to_external_values']
  g2 = cfgmod.CFG(te.node)
  from vzstatic import pathcond
  emit = [n for n in g2.nodes if n.kind == 'stmt' and isinstance(n.ast, ast.Assign) and any(
      isinstance(t, ast.Subscript) and dotted(t.value) == 'external_values' for t in n.ast.targets)]
  if not emit:
    raise AnalysisError('_trial_to_external_values: store into external_values not found')
  loops = [n for n in g2.nodes if n.kind == 'test' and isinstance(getattr(n.ast, '_vz_parent', None), ast.While)
           and n.ast._vz_parent.test is n.ast]
  # the dictionary of values seen so far: keyed by pc.name inside the loop
  # roles: `(parent, config) = worklist.pop(..)`; the config may be copied into further locals
  pops = [n.ast for n in g2.nodes if n.kind == 'stmt' and isinstance(n.ast, ast.Assign) and isinstance(n.ast.targets[0], ast.Tuple)
          and len(n.ast.targets[0].elts) == 2 and all(isinstance(x, ast.Name) for x in n.ast.targets[0].elts)
          and isinstance(n.ast.value, ast.Call) and isinstance(n.ast.value.func, ast.Attribute) and n.ast.value.func.attr in ('pop', 'popleft')]
  if len(pops) != 1:
    raise AnalysisError(f'_trial_to_external_values: {len(pops)} work-list pops `(parent, config) = worklist.pop(..)` found')
  PV, CV = pops[0].targets[0].elts[0].id, pops[0].targets[0].elts[1].id
  cvs = {CV}
  for _ in range(3):
    for n in g2.nodes:
      if n.kind == 'stmt' and isinstance(n.ast, ast.Assign) and isinstance(n.ast.value, ast.Name) and n.ast.value.id in cvs:
        cvs |= {t.id for t in n.ast.targets if isinstance(t, ast.Name)}
  seen_dicts = {dotted(t.value) for n in g2.nodes if n.kind == 'stmt' and isinstance(n.ast, ast.Assign) for t in n.ast.targets
                if isinstance(t, ast.Subscript) and unparse(flow.resolve_local(te.node, t.slice), 0) in {f'{c}.name' for c in cvs} and dotted(t.value)
                and dotted(t.value) != 'external_values'}
  bad_parent = bad_match = None
  n_paths = 0
  for e_ in emit:
    hdr = [l for l in loops if e_ in g2.reachable([l])]
    if not hdr:
      raise AnalysisError('_trial_to_external_values: emission is not inside the work-list loop')
    starts = [m for m, lab in hdr[-1].succs if lab == 'T']
    for path in pathcond.paths(g2, starts, e_, stop=[hdr[-1]]):
      n_paths += 1
      dec = pathcond.conditions(path)

      def parent_seen(a):
        is_none = a.get(lambda k: k == f'{PV} is None')
        if is_none is True:
          return True
        return a.get(lambda k: k.startswith(f'{PV} in ') and k[len(f'{PV} in '):] in seen_dicts) is True

      def parent_matches(a):
        is_none = a.get(lambda k: k == f'{PV} is None')
        if is_none is True:
          return True
        return a.get(lambda k: any(k.endswith(f' in {c}.matching_parent_values') for c in cvs) and f'[{PV}]' in k
                     and k.split(f'[{PV}]')[0] in seen_dicts) is True
      ok_p, cex_p = pathcond.implies(dec, parent_seen)
      ok_m, cex_m = pathcond.implies(dec, parent_matches)
      if not ok_p and bad_parent is None:
        bad_parent = (e_, cex_p)
      if not ok_m and bad_match is None:
        bad_match = (e_, cex_m)
  if n_paths == 0:
    raise AnalysisError('_trial_to_external_values: no path from the loop head to the emission')
  ok4 = bad_parent is None
  ctx.check(bad_parent is None, 'R4', 'child emitted only if its parent was emitted', te.node,
            f'on all {n_paths} paths to the emission: root parameter, or parent name among the values seen so far',
            'a child parameter is presented although its parent was not' +
            (f' (path with {bad_parent[1]})' if bad_parent else ''), construct='parent-seen', func=te.qualname)
  ctx.check(bad_match is None, 'R4', 'child emitted only if the parent value matches', te.node,
            'on all paths to the emission: root parameter, or seen[parent] in pc.matching_parent_values',
            'inactive children (parent value outside their matching values) are presented' +
            (f' (path with {bad_match[1]})' if bad_match else ''), construct='parent-match', func=te.qualname)
  okc = any(isinstance(c, ast.Call) and isinstance(c.func, ast.Attribute) and c.func.attr == 'cast'
            and c.args and unparse(flow.resolve_local(te.node, c.args[0]), 0) in {f'{c_}.external_type' for c_ in cvs} for c in ast.walk(te.node))
  ctx.check(okc, 'R4', 'values cast with the parameter\'s external type', te.node, '.cast(pc.external_type)',
            'external values are not produced by ParameterValue.cast(pc.external_type)', construct='cast', func=te.qualname)
  # R5
  def is_parser(e: ast.AST) -> bool:
    e = flow.resolve_local(pp.node, e)
    return (dotted(e) or '').endswith('parse_multi_dimensional_parameter_name')
  pcalls = [c for c in ast.walk(pp.node) if isinstance(c, ast.Call) and is_parser(c.func)]
  uses_parser = bool(pcalls)
  # the integer index is the second element of the parser's result
  idx_names = set()
  res_names = {t.id for n in ast.walk(pp.node) if isinstance(n, ast.Assign) and n.value in pcalls for t in n.targets if isinstance(t, ast.Name)}
  for n in ast.walk(pp.node):
    if isinstance(n, ast.Assign) and isinstance(n.targets[0], ast.Tuple) and len(n.targets[0].elts) == 2 \
        and isinstance(n.value, ast.Name) and n.value.id in res_names and isinstance(n.targets[0].elts[1], ast.Name):
      idx_names.add(n.targets[0].elts[1].id)
  # the element stored per indexed name: a tuple or a NamedTuple record holding the integer index at a known slot
  from vzstatic import inline as _inline
  records = _inline._record_classes(pp.module.tree)
  slot = None  # (position, field name or None)
  for c in ast.walk(pp.node):
    if not (isinstance(c, ast.Call) and isinstance(c.func, ast.Attribute) and c.func.attr == 'append' and c.args):
      continue
    v = c.args[0]
    if isinstance(v, ast.Tuple) and len(v.elts) == 2:
      for i_, e_ in enumerate(v.elts):
        if isinstance(e_, ast.Name) and e_.id in idx_names:
          slot = (i_, None)
    elif isinstance(v, ast.Call) and (dotted(v.func) or '') in records and len(records[dotted(v.func)]) == 2:
      fields = [f_ for f_, _ in records[dotted(v.func)]]
      for i_, e_ in enumerate(v.args):
        if isinstance(e_, ast.Name) and e_.id in idx_names:
          slot = (i_, fields[i_])
      for k_ in v.keywords:
        if isinstance(k_.value, ast.Name) and k_.value.id in idx_names and k_.arg in fields:
          slot = (fields.index(k_.arg), k_.arg)
  appended_pair = slot is not None

  def index_key(k: ast.AST) -> bool:
    if slot is None:
      return False
    pos, fld = slot
    if isinstance(k, ast.Lambda) and len(k.args.args) == 1:
      a_ = k.args.args[0].arg
      return unparse(k.body, 0) == f'{a_}[{pos}]' or (fld is not None and unparse(k.body, 0) == f'{a_}.{fld}')
    if isinstance(k, ast.Name) and k.id in pp.module.assigns:
      k = pp.module.assigns[k.id]
    t_ = unparse(k, 0)
    return t_ == f'operator.itemgetter({pos})' or (fld is not None and t_ == f"operator.attrgetter('{fld}')")
  sort_ok = False
  for c in ast.walk(pp.node):
    if isinstance(c, ast.Call) and ((isinstance(c.func, ast.Attribute) and c.func.attr == 'sort') or dotted(c.func) == 'sorted'):
      keys = [k.value for k in c.keywords if k.arg == 'key']
      rev = any(k.arg == 'reverse' and not (isinstance(k.value, ast.Constant) and k.value.value is False) for k in c.keywords)
      if not rev and ((not keys and slot is not None and slot[0] == 0) or (keys and index_key(keys[0]))):
        sort_ok = True
  ctx.check(uses_parser, 'R5', 'indexed names grouped by parse_multi_dimensional_parameter_name', pp.node, 'parser used',
            'indexed parameters are not grouped by the name parser', construct='parser', func=pp.qualname)
  ctx.check(sort_ok and appended_pair, 'R5', 'grouped values sorted by integer index', pp.node,
            '(index, value) pairs sorted by index', 'values of an indexed parameter are not ordered by their integer index '
            '(e.g. string order puts name[10] before name[2])', construct='sort', func=pp.qualname)
  sel_parse = sel.methods['parse_multi_dimensional_parameter_name']
  sel_fmt = sel.methods.get('_multi_dimensional_parameter_name')
  rx = None
  cands = [n for n in ast.walk(sel_parse.node)]
  for nm in flow.names_in(sel_parse.node):
    if nm in pcm.assigns:
      cands += list(ast.walk(pcm.assigns[nm]))
  for n in cands:
    if isinstance(n, ast.Constant) and isinstance(n.value, str) and '(?P<' in n.value:
      rx = n.value
  fm = None
  # the builder: the dedicated helper when there is one, else the two-placeholder name format used where the
  # selector creates its indexed parameters (the helper may have been moved / inlined)
  fmt_nodes = [sel_fmt.node] if sel_fmt is not None else [m.node for m in sel.methods.values() if m is not sel_parse]
  fms = set()
  for fnode in fmt_nodes:
    for n in ast.walk(fnode):
      if isinstance(n, ast.Constant) and isinstance(n.value, str) and n.value.count('{}') == 2 and sel_fmt is None \
          and not ('[' in n.value and ']' in n.value):
        continue
      if isinstance(n, ast.Constant) and isinstance(n.value, str) and '{}' in n.value and (sel_fmt is not None or n.value.count('{}') == 2):
        fms.add(n.value)
      if isinstance(n, ast.JoinedStr):
        f_ = ''.join(v.value if isinstance(v, ast.Constant) else '{}' for v in n.values)
        if sel_fmt is not None or (f_.count('{}') == 2 and '[' in f_ and ']' in f_ and len(f_) <= 8):
          fms.add(f_)
  if len(fms) == 1:
    fm = fms.pop()
  elif len(fms) > 1:
    raise AnalysisError(f'indexed-name builder: several candidate formats {sorted(fms)}')
  ok5 = False
  detail = ''
  if rx and fm:
    import re._parser as sre
    lits = []
    groups = []
    for op, av in sre.parse(rx):
      if str(op) == 'LITERAL':
        lits.append(chr(av))
      elif str(op) == 'SUBPATTERN':
        lits.append('{}')
        groups.append(av)
      elif str(op) == 'AT':
        pass
    skeleton = ''.join(lits)
    # the base-name group must accept every name the builder can produce: a repetition of ANY / of a negated class
    name_ok = False
    for g_ in groups:
      try:
        gname = [k for k, v in sre.parse(rx).state.groupdict.items() if v == g_[0]]
      except Exception:
        gname = []
      if 'name' in gname or (not gname and g_ is groups[0]):
        items = list(g_[3])
        if len(items) == 1 and str(items[0][0]) in ('MAX_REPEAT', 'MIN_REPEAT'):
          inner = list(items[0][1][2])
          if len(inner) == 1 and (str(inner[0][0]) == 'ANY' or (str(inner[0][0]) == 'IN' and str(inner[0][1][0][0]) == 'NEGATE')):
            name_ok = True
    int_group = r'\d+' in rx
    ok5 = skeleton == fm and int_group and 'int(' in unparse(sel_parse.node, 0) and name_ok
    detail = f'regex skeleton {skeleton!r} vs format {fm!r}' + ('' if name_ok else '; the base-name group of the regex does not accept every name')
  ctx.check(ok5, 'R5', 'name parser and name builder describe the same shape', sel_parse.node, detail,
            f'{detail}: names produced by the builder are not recognised by the parser (or the index is not parsed as an integer)',
            construct='shape', func=sel_parse.qualname)
  # ------------------------------------------------------------------ R6
  tr = ctx.index.need_class('vizier._src.service.clients.Trial')
  prop = tr.methods['parameters']
  t6 = unparse(prop.node, 0)
  ok6 = '.trial_parameters(' in t6 and 'self.materialize(' in t6 and 'get_study_config' in t6
  ctx.check(ok6, 'R6', 'clients.Trial.parameters', prop.node, 'study_config.trial_parameters(proto of the materialised trial)',
            'Trial.parameters bypasses StudyConfig.trial_parameters: values are not cast / grouped / filtered',
            construct='client-path', func=prop.qualname)


_SC = 'vizier/_src/pyvizier/oss/study_config.py'
VARIANTS = [
    Variant('swap-cast-arms', 'vizier/_src/pyvizier/shared/trial.py',
            '    elif external_type == ExternalType.INTEGER:\n      return self.as_int  # pytype: disable=bad-return-type\n    elif external_type == ExternalType.FLOAT:\n      return self.as_float',
            '    elif external_type == ExternalType.INTEGER:\n      return self.as_float  # pytype: disable=bad-return-type\n    elif external_type == ExternalType.FLOAT:\n      return self.as_int', rule='R1'),
    Variant('drop-length-check', _SC,
            "    if len(trial_external_values) != len(pytrial.parameters):\n      raise ValueError('Invalid trial for this search space: failed to convert '\n                       'all trial parameters: {}'.format(pytrial))\n", '', rule='R3'),
    Variant('drop-sort', _SC, '      multi_dim_params[name].sort(key=lambda x: x[0])\n', '', rule='R5'),
    Variant('drop-parent-match-test', _SC,
            '        if parent_value not in pc.matching_parent_values:\n          continue\n', '', rule='R4'),
    Variant('discrete-always-integer', 'vizier/_src/pyvizier/shared/parameter_config.py',
            '      if all([v == round(v) for v in feasible_values]):\n        external_type = ExternalType.INTEGER',
            '      external_type = ExternalType.INTEGER', rule='R2'),
    Variant('format-parens', 'vizier/_src/pyvizier/shared/parameter_config.py', "    return '{}[{}]'.format(name, index)", "    return '{}({})'.format(name, index)", rule='R5'),
    Variant('benign-rename', _SC, 'trial_final_values', 'final_values', expect='silent', count=4),
]
