"""C17 — clients receive parameter values in the declared external types.

Structural clauses:
  R1 ParameterValue.cast has one arm per ExternalType member returning the
     matching accessor (INTERNAL -> value, BOOLEAN -> as_bool, INTEGER ->
     as_int, FLOAT -> as_float) and ends in raise;
  R2 builders attach the documented external type (add_bool_param -> BOOLEAN;
     add_discrete_param -> INTEGER only under the all-integral test, else FLOAT);
  R3 _pytrial_parameters raises when the number of converted values differs
     from the number of trial parameters, before anything is returned
     (unknown / inactive parameters are an error, not a truncation);
  R4 _trial_to_external_values emits a child only if its parent was emitted and
     the parent's value is among the child's matching parent values, and casts
     with the parameter's external type;
  R5 indexed names are grouped by parse_multi_dimensional_parameter_name and
     sorted by the *integer index* before the list is built; the parser's
     regular expression and the name builder's format string describe the same
     shape (literal skeleton comparison via the regex AST);
  R6 clients.Trial.parameters goes through StudyConfig.trial_parameters of the
     materialised trial (no bypass).
Value equality with the stored values is not decided.
"""

from __future__ import annotations

import ast
import re
from typing import Dict, List, Optional

from vzstatic import cfg as cfgmod
from vzstatic import flow
from vzstatic.index import dotted
from vzstatic.selftest import Variant
from vzstatic.source import AnalysisError, ancestors, loc, unparse

MANIFEST = {
    'technique': ('dispatch-table totality of ParameterValue.cast against the ExternalType enum, '
                  'guard-dominates-emission rules over the CFG of the external-value traversal, '
                  'regex-AST vs format-string skeleton comparison, sort-key check'),
    'level_text': (
        'Static: the cast table is total and each arm uses the matching accessor; builders '
        'declare the documented external types; children are emitted only under their active '
        'parent value; mismatching trials raise instead of being truncated; indexed parameters '
        'are grouped and ordered by integer index; the client path does not bypass the '
        'conversion. Necessary for "values presented in the declared type"; value equality is '
        'not decided (the wire part is C09).'),
    'level_note': 'Trusted: re module semantics for the literal skeleton (via re._parser).',
}


def run(ctx) -> None:
  ctx.rule('R1', 'ParameterValue.cast: one arm per ExternalType with the matching accessor, else raise', 1)
  ctx.rule('R2', 'builders declare the documented external types', 2)
  ctx.rule('R3', 'mismatching trials raise (length check dominates every return)', 1)
  ctx.rule('R4', 'children emitted only under an emitted parent with a matching value; cast by external type', 3)
  ctx.rule('R5', 'indexed parameters grouped by the parser and sorted by integer index; parser and builder agree', 3)
  ctx.rule('R6', 'clients.Trial.parameters uses StudyConfig.trial_parameters', 1)
  ctx.import_rules('C09', {'R8', 'R5'}, 'R7', 'the study config the client casts with is the one that was stored: conditional children survive the wire one by one')
  trial_mod = ctx.index.need_module('vizier._src.pyvizier.shared.trial')
  pcm = ctx.index.need_module('vizier._src.pyvizier.shared.parameter_config')
  pv = trial_mod.classes.get('ParameterValue')
  ext = pcm.classes.get('ExternalType') or trial_mod.classes.get('ExternalType')
  if ext is None:
    sym = ctx.index.resolve(trial_mod, 'ExternalType')
    ext = sym
  if pv is None or ext is None:
    raise AnalysisError('ParameterValue / ExternalType not found')
  # ------------------------------------------------------------------ R1
  cast = pv.methods['cast']
  want = {'INTERNAL': 'self.value', 'BOOLEAN': 'self.as_bool', 'INTEGER': 'self.as_int', 'FLOAT': 'self.as_float'}
  members = [k for k in ext.assigns if not k.startswith('_')]
  arms: Dict[str, str] = {}
  last = None
  for n in ast.walk(cast.node):
    if isinstance(n, ast.If) and 'external_type == ExternalType.' in unparse(n.test, 0):
      m = unparse(n.test, 0).rsplit('.', 1)[-1]
      rets = [r for st in n.body for r in ast.walk(st) if isinstance(r, ast.Return)]
      arms[m] = unparse(rets[0].value, 0) if rets and rets[0].value is not None else ''
      last = n
  probs = [f'{m}: returns `{arms.get(m)}`, expected `{want.get(m)}`' for m in members if arms.get(m) != want.get(m)]
  ends = last is not None and last.orelse and isinstance(last.orelse[-1], ast.Raise)
  ctx.check(not probs and ends, 'R1', 'ParameterValue.cast', cast.node, f'{len(arms)} arms for {members}, else raise',
            '; '.join(probs) or 'unknown external types do not raise', construct='; '.join(probs) or 'else', func=cast.qualname)
  # ------------------------------------------------------------------ R2
  sel = pcm.classes.get('SearchSpaceSelector')
  ab = sel.methods['add_bool_param']
  okb = any(isinstance(k, ast.keyword) and k.arg == 'external_type' and unparse(k.value, 0) == 'ExternalType.BOOLEAN' for k in ast.walk(ab.node))
  ctx.check(okb, 'R2', 'add_bool_param -> ExternalType.BOOLEAN', ab.node, 'external_type=BOOLEAN',
            'boolean parameters are not declared BOOLEAN: clients receive the strings "True"/"False"', construct='bool', func=ab.qualname)
  ad = sel.methods['add_discrete_param']
  g = cfgmod.CFG(ad.node)
  default_float = any(n.kind == 'stmt' and isinstance(n.ast, ast.Assign) and unparse(n.ast, 0) == 'external_type = ExternalType.FLOAT' for n in g.nodes)
  int_assign = [n for n in g.nodes if n.kind == 'stmt' and isinstance(n.ast, ast.Assign) and unparse(n.ast, 0) == 'external_type = ExternalType.INTEGER']
  def _exact_integral_test(t: ast.AST) -> bool:
    # all(<v == round(v) | v == int(v) | float(v).is_integer()> for v in feasible_values)
    if not (isinstance(t, ast.Call) and dotted(t.func) == 'all' and len(t.args) == 1
            and isinstance(t.args[0], (ast.ListComp, ast.GeneratorExp)) and len(t.args[0].generators) == 1):
      return False
    comp = t.args[0]
    gen = comp.generators[0]
    if not (isinstance(gen.target, ast.Name) and 'feasible_values' in unparse(gen.iter, 0) and not gen.ifs):
      return False
    v = gen.target.id
    e = comp.elt
    if isinstance(e, ast.Compare) and len(e.ops) == 1 and isinstance(e.ops[0], ast.Eq):
      sides = [e.left, e.comparators[0]]
      plain = [x for x in sides if isinstance(x, ast.Name) and x.id == v]
      rounded = [x for x in sides if isinstance(x, ast.Call) and dotted(x.func) in ('round', 'int', 'math.floor', 'math.trunc', 'np.round', 'np.rint')
                 and len(x.args) == 1 and isinstance(x.args[0], ast.Name) and x.args[0].id == v]
      return len(plain) == 1 and len(rounded) == 1
    if isinstance(e, ast.Call) and isinstance(e.func, ast.Attribute) and e.func.attr == 'is_integer':
      return v in flow.names_in(e.func.value)
    return False
  guard = [n for n in g.nodes if n.kind == 'test' and _exact_integral_test(n.ast)]
  okd = default_float and bool(int_assign) and bool(guard) and guard[0].id in g.dominators()[int_assign[0].id] and \
      int_assign[0] in g.reachable([m for m, lab in guard[0].succs if lab == 'T'], include_starts=True) and \
      int_assign[0] not in g.reachable([m for m, lab in guard[0].succs if lab == 'F'], include_starts=True)
  ctx.check(okd, 'R2', 'add_discrete_param: INTEGER only if all values integral, else FLOAT', ad.node,
            'INTEGER assigned only on the true branch of all(v == round(v))',
            'discrete parameters are declared INTEGER without the all-integral test (non-integral values would be truncated) '
            'or never declared', construct='discrete', func=ad.qualname)
  # ------------------------------------------------------------------ R3..R5
  sc = ctx.index.need_class('vizier._src.pyvizier.oss.study_config.StudyConfig')
  pp = sc.methods['_pytrial_parameters']
  g = cfgmod.CFG(pp.node)
  chk = [n for n in g.nodes if n.kind == 'test' and 'len(trial_external_values) != len(pytrial.parameters)' in unparse(n.ast, 0)
         or (n.kind == 'test' and 'len(' in unparse(n.ast, 0) and 'pytrial.parameters' in unparse(n.ast, 0) and '!=' in unparse(n.ast, 0))]
  raises = bool(chk) and any(isinstance(m.ast, ast.Raise) for m, lab in chk[0].succs if lab == 'T')
  rets = [p for p, _ in g.exit.preds]
  dom = g.dominators()
  ok3 = raises and all(chk[0].id in dom[r.id] for r in rets)
  ctx.check(ok3, 'R3', '_pytrial_parameters: length check', pp.node,
            'len(converted) != len(trial.parameters) raises and dominates every return',
            'a trial carrying parameters that are unknown or inactive in the space is silently truncated instead of raising',
            construct='length-check', func=pp.qualname)
  te = sc.methods['_trial_to_external_values']
  g2 = cfgmod.CFG(te.node)
  emit = [n for n in g2.nodes if n.kind == 'stmt' and isinstance(n.ast, ast.Assign) and any(
      isinstance(t, ast.Subscript) and dotted(t.value) == 'external_values' for t in n.ast.targets)]
  t_parent = [n for n in g2.nodes if n.kind == 'test' and 'parent_name not in parameter_values' in unparse(n.ast, 0)]
  t_match = [n for n in g2.nodes if n.kind == 'test' and 'not in pc.matching_parent_values' in unparse(n.ast, 0)]
  def skips(tn):
    # true branch must not reach the emission within the same iteration (continue)
    t = [m for m, lab in tn.succs if lab == 'T']
    return bool(t) and isinstance(t[0].ast, ast.Continue)
  ok4 = bool(emit and t_parent and t_match) and skips(t_parent[0]) and skips(t_match[0])
  # both tests are control-dependent on `parent_name is not None` only
  ctx.check(ok4, 'R4', 'child emitted only if its parent was emitted', te.node, 'parent-not-seen -> continue',
            'a child parameter is presented although its parent was not', construct='parent-seen', func=te.qualname)
  pvdef = 'parent_value = parameter_values[parent_name]' in unparse(te.node, 0)
  ctx.check(ok4 and pvdef, 'R4', 'child emitted only if the parent value matches', te.node,
            'parent_value not in matching_parent_values -> continue',
            'inactive children (parent value outside their matching values) are presented', construct='parent-match', func=te.qualname)
  okc = any(isinstance(c, ast.Call) and isinstance(c.func, ast.Attribute) and c.func.attr == 'cast'
            and c.args and unparse(c.args[0], 0) == 'pc.external_type' for c in ast.walk(te.node))
  ctx.check(okc, 'R4', 'values cast with the parameter\'s external type', te.node, '.cast(pc.external_type)',
            'external values are not produced by ParameterValue.cast(pc.external_type)', construct='cast', func=te.qualname)
  # R5
  t = unparse(pp.node, 0)
  uses_parser = 'parse_multi_dimensional_parameter_name' in t
  sort_ok = False
  for c in ast.walk(pp.node):
    if isinstance(c, ast.Call) and isinstance(c.func, ast.Attribute) and c.func.attr == 'sort':
      for k in c.keywords:
        if k.arg == 'key' and isinstance(k.value, ast.Lambda) and unparse(k.value.body, 0) in ('x[0]', f'{k.value.args.args[0].arg}[0]'):
          sort_ok = True
    if isinstance(c, ast.Call) and dotted(c.func) == 'sorted':
      for k in c.keywords:
        if k.arg == 'key' and isinstance(k.value, ast.Lambda) and unparse(k.value.body, 0).endswith('[0]'):
          sort_ok = True
  appended_pair = any(isinstance(c, ast.Call) and isinstance(c.func, ast.Attribute) and c.func.attr == 'append'
                      and c.args and isinstance(c.args[0], ast.Tuple) and unparse(c.args[0].elts[0], 0) == 'index' for c in ast.walk(pp.node))
  ctx.check(uses_parser, 'R5', 'indexed names grouped by parse_multi_dimensional_parameter_name', pp.node, 'parser used',
            'indexed parameters are not grouped by the name parser', construct='parser', func=pp.qualname)
  ctx.check(sort_ok and appended_pair, 'R5', 'grouped values sorted by integer index', pp.node,
            '(index, value) pairs sorted by index', 'values of an indexed parameter are not ordered by their integer index '
            '(e.g. string order puts name[10] before name[2])', construct='sort', func=pp.qualname)
  sel_parse = sel.methods['parse_multi_dimensional_parameter_name']
  sel_fmt = sel.methods['_multi_dimensional_parameter_name']
  rx = None
  for n in ast.walk(sel_parse.node):
    if isinstance(n, ast.Constant) and isinstance(n.value, str) and '(?P<' in n.value:
      rx = n.value
  fm = None
  for n in ast.walk(sel_fmt.node):
    if isinstance(n, ast.Constant) and isinstance(n.value, str) and '{}' in n.value:
      fm = n.value
  ok5 = False
  detail = ''
  if rx and fm:
    import re._parser as sre
    lits = []
    groups = []
    for op, av in sre.parse(rx):
      if str(op) == 'LITERAL':
        lits.append(chr(av))
      elif str(op) == 'SUBPATTERN':
        lits.append('{}')
        groups.append(av)
      elif str(op) == 'AT':
        pass
    skeleton = ''.join(lits)
    int_group = r'\d+' in rx
    ok5 = skeleton == fm and int_group and 'int(' in unparse(sel_parse.node, 0)
    detail = f'regex skeleton {skeleton!r} vs format {fm!r}'
  ctx.check(ok5, 'R5', 'name parser and name builder describe the same shape', sel_parse.node, detail,
            f'{detail}: names produced by the builder are not recognised by the parser (or the index is not parsed as an integer)',
            construct='shape', func=sel_parse.qualname)
  # ------------------------------------------------------------------ R6
  tr = ctx.index.need_class('vizier._src.service.clients.Trial')
  prop = tr.methods['parameters']
  t6 = unparse(prop.node, 0)
  ok6 = '.trial_parameters(' in t6 and 'self.materialize(' in t6 and 'get_study_config' in t6
  ctx.check(ok6, 'R6', 'clients.Trial.parameters', prop.node, 'study_config.trial_parameters(proto of the materialised trial)',
            'Trial.parameters bypasses StudyConfig.trial_parameters: values are not cast / grouped / filtered',
            construct='client-path', func=prop.qualname)


_SC = 'vizier/_src/pyvizier/oss/study_config.py'
VARIANTS = [
    Variant('swap-cast-arms', 'vizier/_src/pyvizier/shared/trial.py',
            '    elif external_type == ExternalType.INTEGER:\n      return self.as_int  # pytype: disable=bad-return-type\n    elif external_type == ExternalType.FLOAT:\n      return self.as_float',
            '    elif external_type == ExternalType.INTEGER:\n      return self.as_float  # pytype: disable=bad-return-type\n    elif external_type == ExternalType.FLOAT:\n      return self.as_int', rule='R1'),
    Variant('drop-length-check', _SC,
            "    if len(trial_external_values) != len(pytrial.parameters):\n      raise ValueError('Invalid trial for this search space: failed to convert '\n                       'all trial parameters: {}'.format(pytrial))\n", '', rule='R3'),
    Variant('drop-sort', _SC, '      multi_dim_params[name].sort(key=lambda x: x[0])\n', '', rule='R5'),
    Variant('drop-parent-match-test', _SC,
            '        if parent_value not in pc.matching_parent_values:\n          continue\n', '', rule='R4'),
    Variant('discrete-always-integer', 'vizier/_src/pyvizier/shared/parameter_config.py',
            '      if all([v == round(v) for v in feasible_values]):\n        external_type = ExternalType.INTEGER',
            '      external_type = ExternalType.INTEGER', rule='R2'),
    Variant('format-parens', 'vizier/_src/pyvizier/shared/parameter_config.py', "    return '{}[{}]'.format(name, index)", "    return '{}({})'.format(name, index)", rule='R5'),
    Variant('benign-rename', _SC, 'trial_final_values', 'final_values', expect='silent', count=4),
]
