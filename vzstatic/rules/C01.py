"""C01 — trial lifecycle: legal transitions, completed trials immutable, illegal
calls leave everything unchanged, documented error classes.

Decides the structural clauses (DESIGN.md section 4, C01):
  R1 typestate: every (loaded state -> stored state) pair written back to the
     datastore is a legal transition; every trial created is in a legal
     initial state.
  R2 field-write whitelist on stored trials, conditioned on the loaded state.
  R3 every datastore mutator call in a mutating RPC is reachable only with the
     request's study known to be ACTIVE/UNSPECIFIED (study-state guard
     recognised by dataflow through the helper's summary).
  R4 grpc_util.handle_exception never returns normally (terminator summary).
  R5 the error -> status-code table is total over custom_errors and unshadowed.
  R6 the datastores are pass-by-value.
"""

from __future__ import annotations

import ast
from typing import Dict, List, Set

from vzstatic import cfg as cfgmod
from vzstatic import flow
from vzstatic.index import ClassInfo, FuncInfo, dotted
from vzstatic.selftest import Variant
from vzstatic.source import AnalysisError, ancestors, loc, unparse
from vzstatic.svc import GRPC_UTIL, Svc, where
from vzstatic.typestate import FRESH, TypeState, Val

MANIFEST = {
    'technique': ('typestate abstract interpretation over the servicer CFGs (pairs of '
                  'loaded/stored Trial.State, Study.State guard facts), no-return summary '
                  'of handle_exception, isinstance-table totality, alias/provenance '
                  'analysis of the datastores'
                  '; shared rules C04.R1/R4 (lock regions, lock-key kinds), C05.R1/R2 (SQL transaction shape), C07.R4/R8 (exact delete/filters); handler bodies analysed through conservative try->handler CFG edges'),
    'level_text': (
        'Static: on every CFG path of every RPC method, each trial written back to the '
        'datastore goes through a legal state transition, completed trials have no '
        'field rewritten, every datastore mutation is dominated by a terminating '
        'study-state and trial-state guard, the error->status table is total, and the '
        'datastores copy on the way in and out. These are necessary conditions of the '
        'property for all histories; equality with a sequential reference model '
        '(values of responses) is not decided.'),
    'level_note': (
        'Trusted: grpc.ServicerContext.abort never returns; proto CopyFrom/deepcopy '
        'produce copies; datastore methods implement their documented contract '
        '(checked separately by C07). Python dynamism (setattr/monkey-patching) is '
        'assumed absent in the anchored modules. Not decided: response values, SQLite.'),
}

LEGAL = {
    ('REQUESTED', 'ACTIVE'), ('ACTIVE', 'STOPPING'), ('ACTIVE', 'SUCCEEDED'),
    ('ACTIVE', 'INFEASIBLE'), ('STOPPING', 'SUCCEEDED'), ('STOPPING', 'INFEASIBLE'),
}
CREATE_OK = {'REQUESTED', 'ACTIVE', 'SUCCEEDED'}
COMPLETED = {'SUCCEEDED', 'INFEASIBLE'}
MUTABLE_STUDY = {'ACTIVE', 'STATE_UNSPECIFIED'}
# field -> loaded states in which a stored trial may have it rewritten
FIELD_WRITE_OK = {
    'measurements': {'ACTIVE', 'STOPPING'},
    'final_measurement': {'ACTIVE', 'STOPPING'},
    'infeasible_reason': {'ACTIVE', 'STOPPING'},
    'client_id': {'REQUESTED'},
    'start_time': {'REQUESTED'},
    'end_time': {'ACTIVE', 'STOPPING'},
}
# RPCs exempt from the study-state guard, one line of reason each.
GUARD_EXEMPT = {
    'CreateStudy': 'creates the study; there is no study state to test yet',
    'SetStudyState': 'the only way to make an inactive study active again',
    'DeleteStudy': 'deleting an inactive/completed study is documented as allowed',
}
# documented status codes (property statement: "fail with the documented error class")
ERROR_CODES = {
    'ImmutableStudyError': 'FAILED_PRECONDITION',
    'ImmutableTrialError': 'FAILED_PRECONDITION',
    'NotFoundError': 'NOT_FOUND',
    'AlreadyExistsError': 'ALREADY_EXISTS',
}


def run(ctx) -> None:
  svc = Svc(ctx)
  ctx.rule('R1', 'every (loaded state -> stored state) of a trial written to the datastore is a '
           'legal lifecycle transition; created trials are REQUESTED/ACTIVE/SUCCEEDED', 4)
  ctx.rule('R2', 'fields of a stored trial are rewritten only in the loaded states that allow it '
           '(never parameters/id/name; measurements only while ACTIVE/STOPPING)', 3)
  ctx.rule('R3', 'every datastore mutator call in a mutating RPC is dominated by a terminating '
           'study-state guard on the request\'s study', 8)
  ctx.rule('R4', 'grpc_util.handle_exception has no path to its normal exit', 1)
  ctx.rule('R5', 'every class of custom_errors has exactly one reachable isinstance arm in '
           'handle_exception setting the documented status code', 4)
  ctx.rule('R6', 'datastores are pass-by-value: RAM returns/stores deep copies, SQL stores '
           'SerializeToString and returns FromString', 20)
  ctx.import_rules('C07', {'R4', 'R8', 'R10'}, 'R9', 'deleting a study removes exactly that study (exact key filters, full cascade) on both backends; updating a deleted trial fails instead of re-creating it')
  ctx.import_rules('C04', {'R1', 'R4'}, 'R7', 'guards and the writes they protect share one critical section (otherwise an illegal call can still change a completed trial)')
  ctx.import_rules('C05', {'R1', 'R2', 'R7'}, 'R8', 'SQL backend: every accepted change is committed, every refused one leaves nothing uncommitted')
  ctx.trust('grpc.ServicerContext.abort(code, details) raises and never returns')
  ctx.trust('copy.deepcopy / Message.CopyFrom / FromString / SerializeToString produce copies')

  r4_terminator(ctx, svc)
  r5_error_table(ctx, svc)
  n_rpc = 0
  for name, fi in svc.rpcs.items():
    n_rpc += 1
    ts = TypeState(svc, fi)
    ts.run()
    nn, ne = ts.cfg.stats()
    ctx.count('cfg_nodes', nn)
    ctx.count('cfg_edges', ne)
    r1_r2_typestate(ctx, svc, fi, ts)
    r3_guard(ctx, svc, fi, ts)
  ctx.count('rpc_methods', n_rpc)
  if n_rpc < 17:
    raise AnalysisError(f'only {n_rpc} RPC methods found on the servicer (17 in the proto)')
  missing = [n for n in svc.rpc_names if n not in svc.rpcs]
  if missing:
    raise AnalysisError(f'RPCs of vizier_service.proto without servicer method: {missing}')
  r6_pass_by_value(ctx, svc)


# ----------------------------------------------------------------------- R4
def r4_terminator(ctx, svc: Svc) -> None:
  he = ctx.index.need_func(f'{GRPC_UTIL}.handle_exception')
  nr = svc.noreturn(he)
  path = None if nr else svc.normal_return_path(he)
  ctx.check(nr, 'R4', 'grpc_util.handle_exception', he.node,
            'no path reaches the normal exit (every path raises or calls context.abort)',
            'returns normally when `context` is a real grpc.ServicerContext: set_code/'
            'set_details do not terminate the RPC, so every guard in the servicer is advisory '
            'over gRPC (the handler runs on and mutates the datastore)',
            construct='handle_exception may return', func=he.qualname, path=path)
  n_sites = 0
  for fi in svc.rpcs.values():
    for c in flow.calls_in(fi.node):
      callee = svc.resolve_call(fi, c)
      if callee is not None and callee.qualname == he.qualname:
        n_sites += 1
  ctx.count('handle_exception_call_sites', n_sites)
  if n_sites < 10:
    raise AnalysisError(f'only {n_sites} handle_exception call sites found in RPC methods')


def _table_arms(ctx, he, exc_param):
  """Table form of the error mapping: handle_exception (or a module-level helper it calls with the
  exception) tests `isinstance(e, <classes>)` where <classes> is bound by iterating an ordered module-level
  table of (classes, status code) rows; the first matching row wins when the match returns/breaks or feeds
  `next(...)`, the last one otherwise.  Returns arms in decision order, or [] when the form is absent."""
  mod = he.module
  cands = [(he.node, exc_param)]
  for c in flow.calls_in(he.node):
    if isinstance(c.func, ast.Name) and c.func.id in mod.functions:
      callee = mod.functions[c.func.id]
      for i, a in enumerate(c.args):
        if isinstance(a, ast.Name) and a.id == exc_param and i < len(callee.params):
          cands.append((callee.node, callee.params[i]))

  def module_value(e, depth=0):
    while isinstance(e, ast.Name) and e.id in mod.assigns and depth < 4:
      e, depth = mod.assigns[e.id], depth + 1
    return e

  for fn, param in cands:
    for t in ast.walk(fn):
      if not (isinstance(t, ast.Call) and dotted(t.func) == 'isinstance' and len(t.args) == 2
              and isinstance(t.args[0], ast.Name) and t.args[0].id == param and isinstance(t.args[1], ast.Name)):
        continue
      var = t.args[1].id
      # binder: enclosing for-loop or comprehension whose target holds `var`
      binder = None
      first_wins = True
      for a in ancestors(t):
        gens = a.generators if isinstance(a, (ast.GeneratorExp, ast.ListComp)) else []
        for gen in gens:
          if any(isinstance(x, ast.Name) and x.id == var for x in ast.walk(gen.target)):
            binder = (gen.target, gen.iter)
        if binder:
          break
        if isinstance(a, ast.For) and any(isinstance(x, ast.Name) and x.id == var for x in ast.walk(a.target)):
          binder = (a.target, a.iter)
          guard = next((x for x in ancestors(t) if isinstance(x, ast.If) and any(y is t for y in ast.walk(x.test))), None)
          first_wins = guard is not None and any(isinstance(y, (ast.Return, ast.Break)) for st in guard.body for y in ast.walk(st))
          break
        if a is fn:
          break
      if binder is None:
        continue
      target, it = binder
      via_items = isinstance(it, ast.Call) and isinstance(it.func, ast.Attribute) and it.func.attr == 'items' and not it.args
      table = module_value(it.func.value if via_items else it)
      rows = []
      if isinstance(table, ast.Dict) and via_items:
        rows = list(zip(table.keys, table.values))
      elif isinstance(table, (ast.Tuple, ast.List)) and not via_items:
        rows = [tuple(r.elts) for r in table.elts if isinstance(r, ast.Tuple) and len(r.elts) == 2]
        if len(rows) != len(table.elts):
          rows = []
      if not rows or not (isinstance(target, ast.Tuple) and len(target.elts) == 2
                          and all(isinstance(x, ast.Name) for x in target.elts)):
        continue
      pos = [x.id for x in target.elts].index(var)
      arms = []
      for r in rows:
        cls_e = module_value(r[pos])
        classes = cls_e.elts if isinstance(cls_e, (ast.Tuple, ast.List)) else [cls_e]
        code_e = module_value(r[1 - pos])
        d = dotted(code_e) or ''
        codes = {d.rsplit('.', 1)[1]} if '.StatusCode.' in d else set()
        arms.append(([ctx.lattice.name_of(mod, c) for c in classes], codes, t))
      if not first_wins:
        arms.reverse()
      # the looked-up code must be what set_code receives
      setc = [c for c in flow.calls_in(he.node) if isinstance(c.func, ast.Attribute) and c.func.attr == 'set_code' and c.args]
      fed = False
      for c in setc:
        arg = flow.resolve_local(he.node, c.args[0])
        if any(x is t for x in ast.walk(arg)):
          fed = True
        if isinstance(arg, ast.Call) and isinstance(arg.func, ast.Name) and arg.func.id in mod.functions \
            and mod.functions[arg.func.id].node is fn:
          fed = True
        if isinstance(arg, ast.Name) and fn is he.node:
          code_var = target.elts[1 - pos].id
          fed = fed or any(isinstance(st, ast.Assign) and isinstance(st.targets[0], ast.Name) and st.targets[0].id == arg.id
                           and isinstance(st.value, ast.Name) and st.value.id == code_var for st in ast.walk(fn))
      if not fed:
        continue
      ctx.count('error_table_rows', len(arms))
      return arms
  return []


# ----------------------------------------------------------------------- R5
def r5_error_table(ctx, svc: Svc) -> None:
  he = ctx.index.need_func(f'{GRPC_UTIL}.handle_exception')
  errmod = ctx.index.need_module('vizier._src.service.custom_errors')
  arms = []  # (class qualnames, code)
  # Walk the if/elif chain(s) whose tests are isinstance(<first param>, ...)
  exc_param = he.params[0]

  def code_set_in(body) -> Set[str]:
    codes = set()
    for st in body:
      for n in ast.walk(st):
        d = dotted(n) if isinstance(n, ast.Attribute) else None
        if d and '.StatusCode.' in d:
          codes.add(d.rsplit('.', 1)[1])
    return codes

  def walk_chain(ifnode: ast.If):
    t = ifnode.test
    if (isinstance(t, ast.Call) and dotted(t.func) == 'isinstance' and len(t.args) == 2
        and isinstance(t.args[0], ast.Name) and t.args[0].id == exc_param):
      carg = flow.resolve_local(he.node, t.args[1])
      classes = carg.elts if isinstance(carg, ast.Tuple) else [carg]
      names = [ctx.lattice.name_of(he.module, c) for c in classes]
      arms.append((names, code_set_in(ifnode.body), ifnode))
      if len(ifnode.orelse) == 1 and isinstance(ifnode.orelse[0], ast.If):
        walk_chain(ifnode.orelse[0])
      elif ifnode.orelse:
        arms.append((['<else>'], code_set_in(ifnode.orelse), ifnode))

  for st in he.node.body:
    if isinstance(st, ast.If):
      before = len(arms)
      walk_chain(st)
      if len(arms) > before:
        break
  if not arms:
    arms = _table_arms(ctx, he, exc_param)
  if not arms:
    raise AnalysisError('isinstance chain not found in handle_exception')
  for cname, cinfo in errmod.classes.items():
    want = ERROR_CODES.get(cname)
    q = cinfo.qualname
    hit = None
    for names, codes, node in arms:
      if names == ['<else>']:
        continue
      if any(ctx.lattice.is_sub(q, n) for n in names):
        hit = (names, codes, node)
        break  # first matching arm wins (elif order)
    if want is None:
      # a new error class: must have its own (non-else) arm
      ctx.check(hit is not None, 'R5', f'custom_errors.{cname}', cinfo.node,
                'has a status arm', 'error class has no isinstance arm in handle_exception '
                '(would be reported as UNKNOWN)', construct=cname, func=he.qualname)
      continue
    ok = hit is not None and hit[1] == {want}
    ctx.check(ok, 'R5', f'custom_errors.{cname} -> {want}', cinfo.node,
              f'first matching arm sets {want}',
              f'first matching arm {hit[0] if hit else None} sets {sorted(hit[1]) if hit else None}, '
              f'documented code is {want}', construct=f'{cname}->{want}', func=he.qualname)


# ------------------------------------------------------------------- R1, R2
def r1_r2_typestate(ctx, svc: Svc, fi: FuncInfo, ts: TypeState) -> None:
  for ev in ts.events:
    if ev.kind == 'ds_call':
      m, call = ev.data
      if m == 'update_trial':
        if ev.val is None or ev.val.kind != 'trial':
          ctx.bad('R1', f'{fi.name}: update_trial({ev.var})', where(fi, ev.node),
                  'trial written back was not loaded from the datastore in this RPC '
                  '(its previous state is unknown)', construct=call, func=fi.qualname)
          continue
        illegal = sorted((o, c) for o, c in ev.val.pairs
                         if o != c and (o, c) not in LEGAL and o != FRESH)
        fresh = [p for p in ev.val.pairs if p[0] == FRESH]
        ctx.check(not illegal and not fresh, 'R1', f'{fi.name}: update_trial({ev.var})',
                  where(fi, ev.node),
                  f'transitions stored: {sorted(p for p in ev.val.pairs if p[0] != p[1]) or "none (state unchanged)"}',
                  f'illegal transition(s) (loaded -> stored) reach the datastore: '
                  f'{illegal or fresh}', construct=call, func=fi.qualname)
      elif m == 'create_trial':
        if ev.val is None:
          ctx.bad('R1', f'{fi.name}: create_trial({ev.var})', where(fi, ev.node),
                  'state of the created trial is not established on every path',
                  construct=call, func=fi.qualname)
          continue
        bad = sorted(c for o, c in ev.val.pairs if c not in CREATE_OK)
        ctx.check(not bad, 'R1', f'{fi.name}: create_trial({ev.var})', where(fi, ev.node),
                  f'created in {sorted(ev.val.cur())}',
                  f'trial can be created in state(s) {bad}', construct=call, func=fi.qualname)
    elif ev.kind == 'field_write':
      if ev.val is None or ev.val.kind != 'trial' or ev.val.is_list:
        continue
      origs = ev.val.orig()
      if origs == {FRESH}:
        fld = ev.data
        # fresh trials: the servicer assigns id/name/state/client_id/start_time;
        # parameters of a fresh payload must not be rewritten either
        ctx.check(fld not in ('parameters',), 'R2', f'{fi.name}: {ev.var}.{fld} (fresh trial)',
                  where(fi, ev.node), 'field assigned before creation',
                  'parameters of a trial rewritten by the servicer',
                  construct=ev.node.ast, func=fi.qualname)
        continue
      fld = ev.data
      allowed = FIELD_WRITE_OK.get(fld)
      stored_origs = origs - {FRESH}
      if allowed is None:
        ctx.bad('R2', f'{fi.name}: {ev.var}.{fld}', where(fi, ev.node),
                f'field `{fld}` of a stored trial is rewritten (only '
                f'{sorted(FIELD_WRITE_OK)} may change after creation)',
                construct=ev.node.ast, func=fi.qualname)
      else:
        badset = sorted(stored_origs - allowed)
        ctx.check(not badset, 'R2', f'{fi.name}: {ev.var}.{fld}', where(fi, ev.node),
                  f'written only when loaded in {sorted(stored_origs)}',
                  f'`{fld}` of a stored trial can be rewritten when the trial was loaded in '
                  f'state(s) {badset}', construct=ev.node.ast, func=fi.qualname)
    elif ev.kind == 'state_write':
      if ev.val is not None and ev.val.kind == 'trial' and ev.data is None:
        ctx.bad('R1', f'{fi.name}: {ev.var}.state', where(fi, ev.node),
                'trial state assigned from a non-constant expression',
                construct=ev.node.ast, func=fi.qualname)


# ----------------------------------------------------------------------- R3
def r3_guard(ctx, svc: Svc, fi: FuncInfo, ts: TypeState) -> None:
  mutators = [ev for ev in ts.events if ev.kind == 'ds_call' and svc.is_mutator(ev.data[0])]
  # one level of helper inlining: self.<helper>() that calls a mutator
  if not mutators:
    return
  if fi.name in GUARD_EXEMPT:
    ctx.info(f'R3 exempt: {fi.name} — {GUARD_EXEMPT[fi.name]}')
    return
  # guard argument must derive from the request
  for node, argtxt in ts.guard_tests:
    pass
  for ev in mutators:
    m, call = ev.data
    st = ev.study
    ok = st is not None and st.cur() <= MUTABLE_STUDY
    ctx.check(ok, 'R3', f'{fi.name}: {m}', where(fi, ev.node),
              'reached only with study state in {ACTIVE, STATE_UNSPECIFIED}',
              f'datastore mutator `{m}` is reachable with the study in state(s) '
              f'{sorted((st.cur() if st else set()) - MUTABLE_STUDY)}: no terminating study-state guard '
              'dominates it', construct=call, func=fi.qualname)
  # guard's argument derives from the request parameter
  if ts.guard_tests:
    g = ts.cfg
    prov = flow.Provenance(g)
    for node, argtxt in ts.guard_tests:
      for c in flow.node_calls(node):
        s = ts.study_test_summary(c)
        if s is None:
          continue
        orig = prov.origins(s[1], node)
        from_req = any(k == 'param' and v == 'request' for k, v in orig)
        ctx.check(from_req, 'R3', f'{fi.name}: guard subject', where(fi, node),
                  f'guard tests the study named by the request ({argtxt})',
                  f'study-state guard tests `{argtxt}`, which does not derive from the request',
                  construct=c, func=fi.qualname)


# ----------------------------------------------------------------------- R6
def _proto_params(fi: FuncInfo) -> Set[str]:
  out = set()
  a = fi.node.args
  for p in a.posonlyargs + a.args + a.kwonlyargs:
    if p.arg == 'self':
      continue
    ann = ast.unparse(p.annotation) if p.annotation is not None else ''
    if ann in ('str', 'int', 'bool') or ann.startswith('Optional[Callable') or ann.startswith('Callable'):
      continue
    out.add(p.arg)
  return out


def r6_pass_by_value(ctx, svc: Svc) -> None:
  # ---- RAM
  for m in svc.ds_abstract:
    impl = svc.ram.methods.get(m.name)
    if impl is None:
      raise AnalysisError(f'RAM datastore lacks {m.name}')
    g = cfgmod.CFG(impl.node)
    rd = flow.ReachingDefs(g)

    def on_call(c):
      d = dotted(c.func) or ''
      if d in ('copy.deepcopy',):
        return 'stop'
      if d.startswith('resources.') or d in ('len', 'max', 'min', 'int', 'str'):
        return 'stop'
      return 'all'

    prov = flow.Provenance(g, rd, on_call=on_call,
                           on_attr=lambda a: 'stop' if dotted(a) == 'self._owners' else 'through')
    pparams = _proto_params(impl)
    # returns must not alias stored state
    for n in g.nodes:
      if n.kind == 'stmt' and isinstance(n.ast, ast.Return) and n.ast.value is not None:
        o = prov.origins(n.ast.value, n)
        leaks = any(k == 'attr' and dotted(v) == 'self._owners' for k, v in o)
        ctx.check(not leaks, 'R6', f'RAM.{m.name}: return', where(impl, n),
                  'returned value does not alias the nested dict (deepcopy / scalar / resource)',
                  'returns an object that aliases stored state (no copy.deepcopy on the path)',
                  construct=n.ast, func=impl.qualname)
    # stores must not alias the caller's proto
    for n in g.nodes:
      if n.kind != 'stmt':
        continue
      a = n.ast
      vals = []
      if isinstance(a, ast.Assign) and any(isinstance(t, (ast.Subscript, ast.Attribute)) for t in a.targets):
        for t in a.targets:
          if isinstance(t, (ast.Subscript, ast.Attribute)):
            to = prov.origins(t.value, n)
            if any(k == 'attr' and dotted(v) == 'self._owners' for k, v in to):
              vals.append(a.value)
      for c in flow.node_calls(n):
        if isinstance(c.func, ast.Attribute) and c.func.attr in ('update', 'append', 'extend', 'setdefault', 'CopyFrom', 'MergeFrom'):
          ro = prov.origins(c.func.value, n)
          if any(k == 'attr' and dotted(v) == 'self._owners' for k, v in ro):
            if c.func.attr in ('CopyFrom', 'MergeFrom'):
              ctx.ok('R6', f'RAM.{m.name}: {c.func.attr}', where(impl, n), 'copies field-wise')
            else:
              vals.extend(c.args)
        else:
          # helper receiving both a stored object and a caller object
          d = dotted(c.func) or ''
          if d in ('copy.deepcopy',) or d.startswith('resources.') or d.startswith('logging.'):
            continue
          args = list(c.args) + [k.value for k in c.keywords]
          stored_args = [x for x in args
                         if any(k == 'attr' and dotted(v) == 'self._owners' for k, v in prov.origins(x, n))]
          if stored_args:
            vals.extend(x for x in args if x not in stored_args)
      # constructor nodes that wrap caller data and are stored later are
      # covered through provenance of the stored name (temp_dict).
      for v in vals:
        o = prov.origins(v, n)
        alias = sorted(p for k, p in o if k == 'param' and p in pparams)
        ctx.check(not alias, 'R6', f'RAM.{m.name}: store', where(impl, n),
                  'stored value is a copy of the argument',
                  f'stores the caller\'s object {alias} by reference (no deepcopy)',
                  construct=n.ast, func=impl.qualname)
  # ---- SQL
  for m in svc.ds_abstract:
    impl = svc.sql.methods.get(m.name)
    if impl is None:
      raise AnalysisError(f'SQL datastore lacks {m.name}')
    for c in flow.calls_in(impl.node):
      if isinstance(c.func, ast.Attribute) and c.func.attr == 'values':
        for k in c.keywords:
          if k.arg and k.arg.startswith('serialized'):
            ok = (isinstance(k.value, ast.Call) and isinstance(k.value.func, ast.Attribute)
                  and k.value.func.attr == 'SerializeToString')
            ctx.check(ok, 'R6', f'SQL.{m.name}: {k.arg}', loc(c),
                      'stored as SerializeToString()', 'stored column is not a serialisation',
                      construct=k.value, func=impl.qualname)
    pparams = _proto_params(impl)
    for n in ast.walk(impl.node):
      if isinstance(n, ast.Return) and n.value is not None:
        names = flow.names_in(n.value)
        ctx.check(not (names & pparams), 'R6', f'SQL.{m.name}: return', loc(n),
                  'does not return the caller\'s object', 'returns its argument by reference',
                  construct=n, func=impl.qualname)


VARIANTS = [
    Variant('drop-mutable-guard-complete', 'vizier/_src/service/vizier_service.py',
            """      trial = self.datastore.get_trial(request.name)
      if trial.state not in self._TRIAL_MUTABLE_STATES:
        e = custom_errors.ImmutableTrialError(
            'Trial {} has state {}. Only trials in state ACTIVE or STOPPING '
            'can be completed.'.format(
                request.name, study_pb2.Trial.State.Name(trial.state)
            )
        )
        grpc_util.handle_exception(e, context)

      trial.state = study_pb2.Trial.State.SUCCEEDED""",
            """      trial = self.datastore.get_trial(request.name)

      trial.state = study_pb2.Trial.State.SUCCEEDED""", rule='R'),
    Variant('stop-from-succeeded', 'vizier/_src/service/vizier_service.py',
            'if trial.state == study_pb2.Trial.ACTIVE:\n        trial.state = study_pb2.Trial.STOPPING',
            'if trial.state in (study_pb2.Trial.ACTIVE, study_pb2.Trial.SUCCEEDED):\n        trial.state = study_pb2.Trial.STOPPING',
            rule='R1'),
    Variant('assign-parameters', 'vizier/_src/service/vizier_service.py',
            '      trial.measurements.extend([request.measurement])',
            '      trial.measurements.extend([request.measurement])\n      del trial.parameters[:]',
            rule='R2'),
    Variant('ram-get-trial-no-copy', 'vizier/_src/service/ram_datastore.py',
            """        return copy.deepcopy(
            self._owners[resource.owner_id]
            .studies[resource.study_id]
            .trial_protos[resource.trial_id]
        )""",
            """        return (
            self._owners[resource.owner_id]
            .studies[resource.study_id]
            .trial_protos[resource.trial_id]
        )""", rule='R6'),
    Variant('ram-update-trial-no-copy', 'vizier/_src/service/ram_datastore.py',
            'trial_protos[resource.trial_id] = copy.deepcopy(trial)\n      except',
            'trial_protos[resource.trial_id] = trial\n      except', rule='R6'),
    Variant('delete-trial-no-guard', 'vizier/_src/service/vizier_service.py',
            """    study_name = TrialResource.from_name(request.name).study_resource.name
    if self._study_is_immutable(study_name):
      e = custom_errors.ImmutableStudyError(
          'Study {} is immutable. Cannot delete trial.'.format(study_name)
      )
      grpc_util.handle_exception(e, context)

    self.datastore.delete_trial""",
            """    self.datastore.delete_trial""", rule='R3'),
    Variant('guard-logs-only', 'vizier/_src/service/vizier_service.py',
            """          'Study {} is immutable. Cannot stop trial.'.format(study_name)
      )
      grpc_util.handle_exception(e, context)""",
            """          'Study {} is immutable. Cannot stop trial.'.format(study_name)
      )
      logging.warning('%s', e)""", rule='R3'),
    Variant('new-error-class', 'vizier/_src/service/custom_errors.py',
            'class ImmutableTrialError(ValueError):',
            'class QuotaError(RuntimeError):\n  pass\n\n\nclass ImmutableTrialError(ValueError):',
            rule='R5'),
    Variant('notfound-wrong-code', 'vizier/_src/service/grpc_util.py',
            'context.set_code(grpc.StatusCode.NOT_FOUND)',
            'context.set_code(grpc.StatusCode.UNKNOWN)', rule='R5'),
    Variant('create-keeps-infeasible', 'vizier/_src/service/vizier_service.py',
            'if trial.state != study_pb2.Trial.State.SUCCEEDED:\n        trial.state = study_pb2.Trial.State.REQUESTED',
            'if trial.state not in (study_pb2.Trial.State.SUCCEEDED, study_pb2.Trial.State.STOPPING):\n        trial.state = study_pb2.Trial.State.REQUESTED',
            rule='R1'),
    # benign
    Variant('benign-inline-immutable', 'vizier/_src/service/vizier_service.py',
            """    if self._study_is_immutable(request.name):
      e = custom_errors.ImmutableStudyError(
          'Study {} is immutable. Cannot update metadata.'.format(request.name)
      )""",
            """    if self.datastore.load_study(request.name).state not in (
        study_pb2.Study.State.ACTIVE, study_pb2.Study.State.STATE_UNSPECIFIED):
      e = custom_errors.ImmutableStudyError(
          'Study {} is immutable. Cannot update metadata.'.format(request.name)
      )""", expect='silent'),
    Variant('benign-direct-raise', 'vizier/_src/service/vizier_service.py',
            """          'Study {} is immutable. Cannot stop trial.'.format(study_name)
      )
      grpc_util.handle_exception(e, context)""",
            """          'Study {} is immutable. Cannot stop trial.'.format(study_name)
      )
      raise e""", expect='silent'),
    Variant('benign-rename-helper', 'vizier/_src/service/vizier_service.py',
            '_study_is_immutable', '_study_frozen', expect='silent', count=9),
]
