"""C07 — RAM and SQL datastores are observationally equivalent.

Sibling cross-check of the two implementations of the DataStore interface:
  R1 same interface (every abstract method, identical parameter lists);
  R2 same error contract: the classes that can escape each method are exactly
     those its abstract docstring documents — in the RAM backend every key
     lookup on the nested dict is guarded (try/except KeyError -> documented
     error, or an `in` test), in both backends every explicit raise is a
     documented class and every documented class is actually raised;
  R3 update_metadata is all-or-nothing on the RAM backend: no fallible lookup
     follows the first mutation of stored state (SQL: C05.R2);
  R4 delete_study cascades over everything keyed by the study, with exact key
     matches (SQL: every table with a study_id column; RAM: the StudyNode owns
     every per-study container);
  R5 both backends merge metadata with the shared merge functions;
  R6 pass-by-value on both (shared with C01.R6);
  R7 `max_*` queries agree: a count-based implementation is only allowed
     where no API can delete a single element.
"""

from __future__ import annotations

import ast
import re
from typing import Dict, List, Optional, Set, Tuple

from vzstatic import cfg as cfgmod
from vzstatic import flow
from vzstatic.index import ClassInfo, FuncInfo, dotted
from vzstatic.rules import C01
from vzstatic.selftest import Variant
from vzstatic.source import AnalysisError, ancestors, loc, unparse
from vzstatic.svc import Svc, where

MANIFEST = {
    'technique': ('sibling cross-check of the two DataStore implementations: signature parity, '
                  'exception-escape analysis against the documented Raises contract (guarded '
                  'lookups on the exception-aware CFG), mutation-after-fallible-lookup ordering, '
                  'table/column cascade coverage from the sqla.Table declarations, alias analysis'
                  '; symbolic SQLAlchemy statement model (sqlmodel) for cascade/filters; cache-coherence rule over in-memory containers of the SQL backend; result-shaping clauses (ORDER BY on string columns, LIMIT)'
                  '; write-footprint agreement of the two backends per method (tables vs containers); update-never-inserts dominance check; unconditional cascade (post-dominance of every delete)'),
    'level_text': (
        'Static: everything about the two backends that is visible in their text agrees — '
        'interface, escaping error classes per method, atomicity of update_metadata, the '
        'delete-study cascade, shared merge code, pass-by-value, id/number queries. Each is a '
        'necessary condition of observational equivalence for some call sequence (named in the '
        'rule). Row ordering of list_* and byte equality of stored protos are not decided.'),
    'level_note': (
        'Documented contract = the abstract method docstrings in datastore.py. Lookups of the '
        'parent study in RAM create_* methods are treated as a servicer precondition and checked '
        'at the servicer call sites instead. SQLite semantics trusted.'),
}

DOC_CLASSES = ('NotFoundError', 'AlreadyExistsError')


def documented(m: FuncInfo) -> Set[str]:
  doc = ast.get_docstring(m.node) or ''
  return {c for c in DOC_CLASSES if c in doc}


def run(ctx) -> None:
  svc = Svc(ctx)
  ctx.rule('R1', 'both backends implement every abstract DataStore method with the same parameters', 40)
  ctx.rule('R2', 'escaping error classes of every method equal the documented Raises contract on '
           'both backends (no raw KeyError, no undocumented class, no documented class missing)', 40)
  ctx.rule('R3', 'RAM update_metadata: no fallible lookup after the first mutation of stored state', 1)
  ctx.rule('R4', 'delete_study removes every per-study table/container with exact key matches', 4)
  ctx.rule('R5', 'both update_metadata implementations use merge_study_metadata / merge_trial_metadata', 2)
  ctx.rule('R6', 'datastores are pass-by-value (see C01.R6)', 20)
  ctx.rule('R7', 'max_* queries are not count-based where single elements can be deleted', 2)
  ctx.rule('R8', 'every SQL filter is an exact equality on key columns (the RAM backend addresses '
           'rows by exact dict keys): no LIKE/startswith/contains/range filters', 30)
  ctx.rule('R9', 'SQL backend: every in-memory container is invalidated by every method that writes a table it was filled from', 1)
  ctx.import_rules('C05', {'R1', 'R2', 'R7'}, 'R12', 'a failed SQL call leaves nothing behind, like a failed RAM call: rollback before the raise, engine not in autocommit')
  ctx.rule('R11', 'write footprint: a DataStore method writes the same kinds of rows in both backends (trials / suggestion '
           'operations / early-stopping operations / study)', 8)
  ctx.rule('R10', 'RAM update_trial never inserts: the row store is dominated by an existence test of the same key '
           '(DeleteTrial takes no study lock, so a blind store resurrects a trial deleted in between)', 1)
  if len(svc.ds_abstract) < 20:
    raise AnalysisError(f'only {len(svc.ds_abstract)} abstract DataStore methods found (20 on the pinned tree)')

  r1_interface(ctx, svc)
  r2_errors(ctx, svc)
  r3_ram_atomic_metadata(ctx, svc)
  r4_cascade(ctx, svc)
  r5_merge(ctx, svc)
  C01.r6_pass_by_value(ctx, svc)
  r7_max(ctx, svc)
  r8_exact_filters(ctx, svc)
  r9_sql_caches(ctx, svc)
  r10_update_never_inserts(ctx, svc)
  r11_write_footprint(ctx, svc)


# ----------------------------------------------------------------------- R9
_CONTAINER_CTORS = {'dict', 'list', 'set', 'defaultdict', 'OrderedDict', 'Counter', 'deque', 'WeakValueDictionary', 'LRUCache'}


def _tables_mentioned(node: ast.AST) -> Set[str]:
  return {d[5:] for x in ast.walk(node) if isinstance(x, ast.Attribute)
          for d in [dotted(x) or ''] if d.startswith('self._') and d.endswith('_table')}


def _tables_written(fn: ast.AST) -> Set[str]:
  out = set()
  for c in ast.walk(fn):
    if isinstance(c, ast.Call) and isinstance(c.func, ast.Attribute) and c.func.attr in ('insert', 'update', 'delete'):
      d = dotted(c.func.value) or ''
      if d.startswith('self._') and d.endswith('_table'):
        out.add(d[5:])
  return out


_PER_STUDY_ROWS = {'studies', 'trials', 'suggestion_operations', 'early_stopping_operations'}


def _ram_container_rows(svc: Svc) -> Dict[str, str]:
  """field name of the RAM node dataclasses -> kind of row it holds, read off the field's annotation."""
  out: Dict[str, str] = {}
  for ci in svc.ram.module.classes.values():
    for st in ci.node.body:
      if isinstance(st, ast.AnnAssign) and isinstance(st.target, ast.Name):
        ann = unparse(st.annotation, 0)
        if 'EarlyStoppingOperation' in ann:
          out[st.target.id] = 'early_stopping_operations'
        elif 'operations_pb2.Operation' in ann or ann.endswith('Operation]'):
          out[st.target.id] = 'suggestion_operations'
        elif 'study_pb2.Trial' in ann:
          out[st.target.id] = 'trials'
        elif ann.endswith('study_pb2.Study'):
          out[st.target.id] = 'studies'
  if len(set(out.values())) < 4:
    raise AnalysisError(f'RAM node dataclasses: row containers recognised: {out}')
  return out


def r11_write_footprint(ctx, svc: Svc) -> None:
  from vzstatic.sqlmodel import SqlModel
  tables = sql_tables(svc)
  _RAM_CONTAINER_ROWS = _ram_container_rows(svc)
  node_fields = {st.target.id for ci in svc.ram.module.classes.values() for st in ci.node.body
                 if isinstance(st, ast.AnnAssign) and isinstance(st.target, ast.Name)} | {'_owners'}
  n = 0
  for m in svc.ds_abstract:
    if not m.name.startswith(('create_', 'update_', 'delete_')) or m.name in ('update_metadata', 'create_study', 'update_study'):
      continue
    ram, sql = svc.ram.methods.get(m.name), svc.sql.methods.get(m.name)
    if ram is None or sql is None:
      continue
    sql_rows = set()
    for call, q in SqlModel(sql.node).executed():
      if q.kind in ('insert', 'update', 'delete') and q.table:
        sql_rows.add(tables.get(q.table, (q.table,))[0])
    sql_rows.discard('owners')
    ram_rows = set()
    unknown = []
    for x in ast.walk(ram.node):
      tg = []
      if isinstance(x, ast.Assign):
        tg = [(t, 'store') for t in x.targets]
      elif isinstance(x, ast.AugAssign):
        tg = [(x.target, 'store')]
      elif isinstance(x, ast.Delete):
        tg = [(t, 'del') for t in x.targets]
      elif isinstance(x, ast.Call) and isinstance(x.func, ast.Attribute) and x.func.attr in ('pop', 'clear', 'update', 'popitem', 'setdefault', 'CopyFrom'):
        tg = [(x.func.value, 'del' if x.func.attr in ('pop', 'clear', 'popitem') else 'store')]
      for t, kind in tg:
        if isinstance(t, ast.Name):
          continue
        cont = flow.resolve_local(ram.node, t.value if isinstance(t, ast.Subscript) else t)
        chain = unparse(cont, 0)
        if '_owners' not in chain and not any(k in chain for k in _RAM_CONTAINER_ROWS):
          continue
        last = chain.rsplit('.', 1)[-1].split('[')[0]
        if last in _RAM_CONTAINER_ROWS:
          ram_rows.add(_RAM_CONTAINER_ROWS[last])
        elif kind == 'del' and last in node_fields and last != '_owners' and last not in _RAM_CONTAINER_ROWS \
            and any('StudyNode' in unparse(st.annotation, 0) for ci in svc.ram.module.classes.values() for st in ci.node.body
                    if isinstance(st, ast.AnnAssign) and isinstance(st.target, ast.Name) and st.target.id == last):
          ram_rows |= _PER_STUDY_ROWS
        elif last in node_fields:
          continue  # container nodes created on demand: no rows of their own
        else:
          unknown.append(chain)
    if unknown:
      raise AnalysisError(f'RAM.{m.name}: write into `{unknown[0]}` not classified')
    n += 1
    ctx.check(ram_rows == sql_rows, 'R11', f'{m.name}: rows written', ram.node,
              f'both backends write {sorted(sql_rows)}',
              f'the RAM backend writes {sorted(ram_rows)} but the SQL backend writes {sorted(sql_rows)}: after this call the two backends hold '
              'different rows (e.g. an operation that one of them dropped is still answered by the other)',
              construct=f'{m.name}:footprint', func=ram.qualname)
  if n < 8:
    raise AnalysisError(f'write footprints compared for only {n} methods')


def r10_update_never_inserts(ctx, svc: Svc) -> None:
  fi = svc.ram.methods.get('update_trial')
  if fi is None:
    raise AnalysisError('RAMDataStore.update_trial not found')
  g = cfgmod.CFG(fi.node)
  dom = g.dominators()

  def canon(e: ast.AST) -> str:
    return unparse(flow.resolve_local(fi.node, e), 0)
  stores = [(n, t) for n in g.nodes if n.kind == 'stmt' and isinstance(n.ast, ast.Assign) for t in n.ast.targets
            if isinstance(t, ast.Subscript)]
  if not stores:
    raise AnalysisError('RAMDataStore.update_trial: row store not found')
  for n, t in stores:
    cont, key = canon(t.value), unparse(t.slice, 0)
    guarded = False
    for m in g.nodes:
      if m.id not in dom[n.id] or m is n:
        continue
      if m.kind == 'test':
        tst, neg = m.ast, False
        while isinstance(tst, ast.UnaryOp) and isinstance(tst.op, ast.Not):
          tst, neg = tst.operand, not neg
        if isinstance(tst, ast.Compare) and len(tst.ops) == 1 and isinstance(tst.ops[0], (ast.In, ast.NotIn)) \
            and unparse(tst.left, 0) == key and canon(tst.comparators[0]) == cont:
          present_label = 'T' if (isinstance(tst.ops[0], ast.In) != neg) else 'F'
          # the store must be reachable only through the "present" side
          other = [x for x, lab in m.succs if lab != present_label and lab in ('T', 'F')]
          if n not in g.reachable(other, include_starts=True):
            guarded = True
      for e_ in flow.node_exprs(m):
        for x in ast.walk(e_):
          if isinstance(x, ast.Subscript) and isinstance(x.ctx, ast.Load) and unparse(x.slice, 0) == key and canon(x.value) == cont:
            guarded = True
    ctx.check(guarded, 'R10', f'RAM.update_trial: store into `{unparse(t.value, 40)}`', where(fi, n),
              'dominated by an existence test of the same key',
              f'`{unparse(t, 60)} = ...` is not preceded by an existence test of `{key}`: updating a trial that was deleted in the '
              'meantime (DeleteTrial does not take the study lock) silently re-creates it instead of raising NotFoundError; the SQL backend raises',
              construct='update_trial:upsert', func=fi.qualname)


def r9_sql_caches(ctx, svc: Svc) -> None:
  """The SQL backend answers from the database.  Any in-memory container it keeps (a row cache,
  a memo of ids...) must be invalidated by *every* method that writes a table the container was
  filled from — otherwise reads keep answering from rows that no longer exist (delete + re-create
  of a study, a second writer), which the RAM backend never does."""
  sql = svc.sql
  init = sql.methods.get('__init__')
  if init is None:
    raise AnalysisError('SQLDataStore.__init__ not found')
  caches: Dict[str, ast.AST] = {}
  for n in ast.walk(init.node):
    tgt, val = None, None
    if isinstance(n, ast.Assign) and len(n.targets) == 1:
      tgt, val = n.targets[0], n.value
    elif isinstance(n, ast.AnnAssign) and n.value is not None:
      tgt, val = n.target, n.value
    d = dotted(tgt) if tgt is not None else None
    if not (d and d.startswith('self.') and d.count('.') == 1):
      continue
    is_container = isinstance(val, (ast.Dict, ast.List, ast.Set, ast.DictComp, ast.ListComp, ast.SetComp)) or (
        isinstance(val, ast.Call) and (dotted(val.func) or '').rsplit('.', 1)[-1] in _CONTAINER_CTORS)
    if is_container:
      caches[d[5:]] = n
  # memoising decorators on methods are caches too
  for m in sql.methods.values():
    for dec in m.node.decorator_list:
      t = unparse(dec, 0)
      if 'lru_cache' in t or 'functools.cache' in t or t.endswith('.cache') or 'cached_property' in t:
        ctx.bad('R9', f'SQLDataStore.{m.name} is memoised ({t})', m.node,
                f'`@{t}` on a datastore method: its answers survive every later write (no method invalidates a function cache)',
                construct=f'memo:{m.name}', func=sql.qualname)
  if not caches:
    ctx.ok('R9', 'SQLDataStore keeps no in-memory container', init.node, 'every read is a query on the connection')
    return
  writers = {name: _tables_written(m.node) for name, m in sql.methods.items() if not name.startswith('__')}
  writers = {k: v for k, v in writers.items() if v}
  for attr, where_ in sorted(caches.items()):
    fill_tables: Set[str] = set()
    touch: Dict[str, bool] = {}
    for name, m in sql.methods.items():
      if name == '__init__':
        continue
      fills = False
      invalidates = False
      for x in ast.walk(m.node):
        if isinstance(x, ast.Assign):
          for t in x.targets:
            if isinstance(t, ast.Subscript) and dotted(t.value) == f'self.{attr}':
              fills = True
            if dotted(t) == f'self.{attr}':
              invalidates = True
        if isinstance(x, ast.Call) and isinstance(x.func, ast.Attribute) and dotted(x.func.value) == f'self.{attr}':
          if x.func.attr in ('pop', 'clear', 'popitem', 'remove', 'discard'):
            invalidates = True
          if x.func.attr in ('setdefault', 'append', 'add', 'update', 'extend', 'insert'):
            fills = True
        if isinstance(x, ast.Delete) and any(dotted(getattr(t, 'value', t)) == f'self.{attr}' for t in x.targets):
          invalidates = True
      if fills:
        fill_tables |= _tables_mentioned(m.node)
      touch[name] = invalidates or fills
    for w, tabs in sorted(writers.items()):
      relevant = (tabs & fill_tables) if fill_tables else tabs
      if not relevant:
        continue
      ctx.check(touch.get(w, False), 'R9', f'SQLDataStore.{attr}: invalidated by {w}', sql.methods[w].node,
                f'{w} writes {sorted(relevant)} and updates the container',
                f'self.{attr} is filled from {sorted(fill_tables) or "queries"} but {w}() writes {sorted(relevant)} without touching it: '
                'after that call reads are answered from rows that were changed or deleted (e.g. delete_study + re-creation of the '
                'same name hands out trials that no longer exist); the RAM backend has no such state',
                construct=f'{attr}:{w}', func=sql.qualname)


# ----------------------------------------------------------------------- R1
def _sig(fi: FuncInfo) -> List[str]:
  a = fi.node.args
  return [x.arg for x in a.posonlyargs + a.args] + ['*'] + [x.arg for x in a.kwonlyargs]


def r1_interface(ctx, svc: Svc) -> None:
  for m in svc.ds_abstract:
    for cls in (svc.ram, svc.sql):
      impl = cls.methods.get(m.name)
      ok = impl is not None and _sig(impl) == _sig(m)
      ctx.check(ok, 'R1', f'{cls.name}.{m.name}', impl.node if impl else cls.node,
                'implemented with the abstract signature',
                'missing or signature differs from the abstract method', construct=m.name, func=cls.qualname)
  for cls in (svc.ram, svc.sql):
    extra = [n for n in cls.methods if not n.startswith('_') and n not in {m.name for m in svc.ds_abstract}]
    for n in extra:
      ctx.info(f'{cls.name} has a public method outside the interface: {n}')


# ----------------------------------------------------------------------- R2
def store_derived(prov: flow.Provenance, e: ast.AST, node) -> bool:
  return any(k == 'attr' and dotted(v) == 'self._owners' for k, v in prov.origins(e, node))


def _guarded_by_in(n: ast.Subscript, fn: ast.FunctionDef) -> bool:
  """Is the lookup dominated (syntactically) by an `in`/`not in` test on the same container?"""
  base = unparse(n.value, limit=0)
  key = unparse(n.slice, limit=0)
  for anc in ancestors(n):
    if anc is fn:
      break
    if isinstance(anc, ast.If):
      t = anc.test
      tests = [t] + (t.values if isinstance(t, ast.BoolOp) else [])
      for c in tests:
        if isinstance(c, ast.Compare) and len(c.ops) == 1 and isinstance(c.ops[0], (ast.In, ast.NotIn)):
          if unparse(c.comparators[0], limit=0) == base and unparse(c.left, limit=0) == key:
            in_body = any(x is n for s in anc.body for x in ast.walk(s))
            if isinstance(c.ops[0], ast.In) == in_body:
              return True
  # idiom: `if k not in d: d[k] = v` as an earlier statement of an enclosing block
  from vzstatic.source import parent
  cur = n
  while cur is not None and cur is not fn:
    par = parent(cur)
    for fld in ('body', 'orelse', 'finalbody'):
      blk = getattr(par, fld, None)
      if isinstance(blk, list) and cur in blk:
        for st in blk[: blk.index(cur)]:
          if isinstance(st, ast.If) and isinstance(st.test, ast.Compare) and len(st.test.ops) == 1 \
              and isinstance(st.test.ops[0], ast.NotIn) \
              and unparse(st.test.comparators[0], limit=0) == base and unparse(st.test.left, limit=0) == key:
            for x in st.body:
              if isinstance(x, ast.Assign) and any(
                  isinstance(t, ast.Subscript) and unparse(t.value, limit=0) == base
                  and unparse(t.slice, limit=0) == key for t in x.targets):
                return True
    cur = par
  return False


def r2_errors(ctx, svc: Svc) -> None:
  lat = ctx.lattice
  for m in svc.ds_abstract:
    doc = documented(m)
    for cls in (svc.ram, svc.sql):
      impl = cls.methods.get(m.name)
      if impl is None:
        continue
      g = cfgmod.CFG(impl.node)
      raised: Set[str] = set()
      problems: List[Tuple[ast.AST, str]] = []
      precond: List[ast.AST] = []
      # explicit raises
      for n in ast.walk(impl.node):
        if isinstance(n, ast.Raise) and n.exc is not None:
          e = n.exc.func if isinstance(n.exc, ast.Call) else n.exc
          q = lat.name_of(impl.module, e)
          short = q.rsplit('.', 1)[-1]
          if isinstance(e, ast.Name) and any(isinstance(a, ast.ExceptHandler) and a.name == e.id for a in ancestors(n)):
            continue  # re-raise of the caught exception
          raised.add(short)
          if short not in doc:
            problems.append((n, f'raises {short}, which the DataStore contract of {m.name} does not document'))
      # implicit KeyError (RAM nested dict)
      if cls is svc.ram:
        rd = flow.ReachingDefs(g)
        prov = flow.Provenance(g, rd, on_attr=lambda a: 'stop' if dotted(a) == 'self._owners' else 'through',
                           follow_stores=False)
        for n in ast.walk(impl.node):
          if not isinstance(n, ast.Subscript) or isinstance(n.ctx, ast.Store):
            continue
          node = g.node_of(n)
          if node is None or not store_derived(prov, n.value, node):
            continue
          # inside a try whose handler catches KeyError?
          caught = False
          for tr, part in reversed(node.trys):
            if part != 'body':
              continue
            for h in tr.handlers:
              if lat.catches(impl.module, h, 'KeyError') == 'all':
                caught = True
                # handler must convert to a documented class
                hr = [x for x in ast.walk(h) if isinstance(x, ast.Raise)]
                if not hr:
                  problems.append((h, 'KeyError handler swallows a failed lookup'))
            if caught:
              break
          if caught or _guarded_by_in(n, impl.node):
            continue
          key = unparse(n.slice, limit=0)
          if m.name.startswith('create_') and ('owner_id' in key or 'study_id' in key):
            precond.append(n)
            continue
          problems.append((n, f'lookup `{unparse(n, limit=80)}` can raise a raw KeyError, but the contract of '
                              f'{m.name} documents {sorted(doc) or "no error"} (the SQL backend raises '
                              'NotFoundError / succeeds): the backends differ for a missing key'))
      missing = doc - raised
      for c in sorted(missing):
        problems.append((impl.node, f'documented {c} is never raised by this backend'))
      if problems:
        for node, msg in problems:
          ctx.bad('R2', f'{cls.name}.{m.name}', node, msg,
                  construct=_stable(node), func=impl.qualname)
      else:
        ctx.ok('R2', f'{cls.name}.{m.name}', impl.node,
               f'escaping classes {sorted(raised) or "none"} == documented {sorted(doc) or "none"}')
      for n in precond:
        ctx.info(f'{cls.name}.{m.name}: parent lookup {unparse(n, limit=60)} unguarded — servicer '
                 'precondition (checked at the call sites below)')
  # servicer precondition: create_* of child resources is dominated by a read that
  # raises NotFoundError for a missing study
  reads = {'load_study', 'max_trial_id', 'list_trials', 'get_trial'}
  for name, fi in svc.rpcs.items():
    g = svc.rpc_cfg(fi)
    guards = []
    for n in g.nodes:
      for c in flow.node_calls(n):
        if svc.ds_call(c) in reads:
          guards.append(n)
        d = dotted(c.func) or ''
        if d.startswith('self.') and fi.cls is not None:
          callee = svc.index.find_method(fi.cls, d[5:])
          if callee is not None and any(svc.ds_call(x) in reads for x in flow.calls_in(callee.node)):
            guards.append(n)
    for n in g.nodes:
      for c in flow.node_calls(n):
        m = svc.ds_call(c)
        if m in ('create_trial', 'create_suggestion_operation', 'create_early_stopping_operation'):
          reach = g.reachable([g.entry], blocked=[x for x in guards if x is not n], include_starts=True)
          ctx.check(n not in reach, 'R2', f'{name}: {m} precondition', where(fi, n),
                    'dominated by a datastore read that fails with NotFoundError for a missing study',
                    f'{m} can be reached without a prior read of the study: RAM raises a raw KeyError, '
                    'SQL silently creates an orphan row', construct=c, func=fi.qualname)


def _stable(node: ast.AST) -> str:
  if isinstance(node, ast.FunctionDef):
    return node.name
  if isinstance(node, ast.ExceptHandler):
    return 'except ' + (unparse(node.type, limit=0) if node.type else '')
  return unparse(node, limit=0)


# ----------------------------------------------------------------------- R3
def r3_ram_atomic_metadata(ctx, svc: Svc) -> None:
  impl = svc.ram.methods.get('update_metadata')
  if impl is None:
    raise AnalysisError('RAM update_metadata missing')
  g = cfgmod.CFG(impl.node)
  rd = flow.ReachingDefs(g)
  prov = flow.Provenance(g, rd, on_attr=lambda a: 'stop' if dotted(a) == 'self._owners' else 'through',
                           follow_stores=False)
  mutations, fallible = [], []
  for n in g.nodes:
    if n.kind in ('entry', 'exit', 'raise'):
      continue
    for c in flow.node_calls(n):
      d = dotted(c.func) or ''
      args = list(c.args) + [k.value for k in c.keywords]
      if d in ('copy.deepcopy',) or d.startswith('logging.') or d.startswith('resources.'):
        continue
      if d.startswith('self.') and d.count('.') == 1 and d[5:] in svc.ds_kind:
        # built from its own public methods: writes mutate, documented raisers can fail
        if svc.ds_kind[d[5:]] == 'write':
          mutations.append(n)
        if documented(svc.datastore.methods[d[5:]]):
          fallible.append(n)
        continue
      if isinstance(c.func, ast.Attribute) and c.func.attr in ('items', 'values', 'keys', 'get', 'trial_resource'):
        continue
      if any(store_derived(prov, a, n) for a in args) or (
          isinstance(c.func, ast.Attribute) and c.func.attr in ('CopyFrom', 'MergeFrom', 'append', 'extend', 'update', 'add')
          and store_derived(prov, c.func.value, n)):
        mutations.append(n)
    for e in flow.node_exprs(n):
      for x in ast.walk(e):
        if isinstance(x, ast.Subscript) and isinstance(x.ctx, (ast.Load, ast.Del)) and store_derived(prov, x.value, n):
          fallible.append(n)
    if n.kind == 'stmt' and isinstance(n.ast, ast.Raise):
      fallible.append(n)
    if n.kind == 'stmt' and isinstance(n.ast, ast.Assign) and any(
        isinstance(t, (ast.Subscript, ast.Attribute)) and store_derived(prov, t.value if isinstance(t, ast.Subscript) else t, n)
        for t in n.ast.targets):
      mutations.append(n)
  if not mutations:
    raise AnalysisError('RAM update_metadata: no mutation of stored state recognised')
  after = g.reachable(mutations, include_starts=False)
  late = [f for f in fallible if f in after and f not in mutations or (f in mutations and f in g.reachable([f]))]
  late = [f for f in fallible if f in after]
  if late:
    ctx.bad('R3', 'RAM.update_metadata all-or-nothing', impl.node,
            f'a lookup that can fail (line {late[0].lineno}: {late[0]!r}) is reachable '
            f'after stored state was already modified (line {mutations[0].lineno}): a metadata update '
            'naming a missing trial is applied partially, whereas the SQL backend rolls back',
            construct='lookup after mutation', func=impl.qualname,
            path=g.path(mutations[0], late[0]))
  else:
    ctx.ok('R3', 'RAM.update_metadata all-or-nothing', impl.node,
           f'{len(fallible)} fallible lookups all precede the {len(mutations)} mutation(s)')


# ----------------------------------------------------------------------- R4
def sql_tables(svc: Svc) -> Dict[str, Tuple[str, Set[str]]]:
  """attr name -> (table name, column names) from the sqla.Table(...) declarations."""
  init = svc.sql.methods.get('__init__')
  out = {}
  for n in ast.walk(init.node):
    if isinstance(n, ast.Assign) and isinstance(n.value, ast.Call) and (dotted(n.value.func) or '').endswith('.Table'):
      cols = set()
      for a in n.value.args:
        if isinstance(a, ast.Call) and (dotted(a.func) or '').endswith('.Column') and a.args and isinstance(a.args[0], ast.Constant):
          cols.add(a.args[0].value)
      tname = n.value.args[0].value if n.value.args and isinstance(n.value.args[0], ast.Constant) else '?'
      for t in n.targets:
        d = dotted(t)
        if d and d.startswith('self.'):
          out[d[5:]] = (tname, cols)
  return out


def r4_cascade(ctx, svc: Svc) -> None:
  tables = sql_tables(svc)
  if len(tables) < 5:
    raise AnalysisError(f'only {len(tables)} sqla.Table declarations found')
  per_study = {a: t for a, (t, cols) in tables.items() if 'study_id' in cols}
  impl = svc.sql.methods.get('delete_study')
  from vzstatic.sqlmodel import SqlModel
  deleted: Dict[str, List[ast.AST]] = {}
  executed = set()
  for call, q in SqlModel(impl.node).executed():
    if q.kind == 'delete' and q.table:
      executed.add(q.table)
      deleted.setdefault(q.table, []).extend(q.wheres)
  for attr, tname in sorted(per_study.items()):
    ctx.check(attr in executed, 'R4', f'SQL.delete_study: table {tname}', impl.node,
              'rows of the study are deleted in the same transaction',
              f'table `{tname}` has a study_id column but delete_study leaves its rows behind: after '
              'DeleteStudy + CreateStudy of the same name the SQL backend still serves the old rows '
              '(operation numbering continues, a stale unfinished operation can be returned), the '
              'RAM backend starts empty', construct=f'table {tname}', func=impl.qualname)
  # every delete is unconditional: once the first row of the study is deleted, every normal path to the end passes
  # through each of the other deletes (no "skip the operation tables if ..." shortcut)
  g_del = cfgmod.CFG(impl.node)
  del_nodes = []
  for call, q in SqlModel(impl.node).executed():
    if q.kind == 'delete' and q.table:
      nd = g_del.node_of(call)
      if nd is not None:
        del_nodes.append((nd, q.table))
  if del_nodes:
    first = min((nd for nd, _ in del_nodes), key=lambda m: m.id)
    dom_d = g_del.dominators()
    firsts = [nd for nd, _ in del_nodes if all(nd.id in dom_d[o.id] or o is nd for o, _ in del_nodes)] or [first]
    for nd, tb in del_nodes:
      if nd is firsts[0]:
        continue
      skip = g_del.exit in g_del.reachable([firsts[0]], blocked=[nd])
      ctx.check(not skip, 'R4', f'SQL.delete_study: delete from {tables.get(tb, (tb,))[0]} is unconditional', where(impl, nd),
                'on every normal path after the first delete',
                f'the delete from `{tables.get(tb, (tb,))[0]}` can be skipped on a normal path (it is conditional): rows of the deleted study '
                'survive there, and a study re-created under the same name continues from them (operation numbering, stale operations); '
                'the RAM backend drops everything', construct=f'conditional delete {tb}', func=impl.qualname)
  # exact key matches only
  for attr, clauses in deleted.items():
    for cl in clauses:
      ok = isinstance(cl, ast.Compare) and len(cl.ops) == 1 and isinstance(cl.ops[0], ast.Eq)
      ctx.check(ok, 'R4', f'SQL.delete_study: filter on {tables.get(attr, ("?",))[0]}', cl,
                'exact equality on key columns',
                f'delete filter `{unparse(cl, limit=100)}` is not an exact key equality (pattern matches '
                'such as LIKE/startswith also hit sibling studies; RAM deletes exactly one study)',
                construct=cl, func=impl.qualname)
    cols = set()
    for cl in clauses:
      for x in ast.walk(cl):
        if isinstance(x, ast.Attribute):
          base = flow.resolve_local(impl.node, x.value)
          if isinstance(base, ast.Attribute) and base.attr == 'c':
            cols.add(x.attr)
    tname, tcols = tables.get(attr, ('?', set()))
    pk_ok = ('study_name' in cols) or ({'owner_id', 'study_id'} <= cols)
    ctx.check(pk_ok, 'R4', f'SQL.delete_study: key of {tname}', impl.node,
              f'filtered by {sorted(cols)}',
              f'rows of `{tname}` are selected by {sorted(cols)}: the study is identified by '
              '(owner_id, study_id) or study_name', construct=f'key {tname}', func=impl.qualname)
  # RAM: the StudyNode owns every per-study container
  init = svc.ram.methods.get('__init__')
  attrs = set()
  for n in ast.walk(init.node):
    if isinstance(n, (ast.Assign, ast.AnnAssign)):
      for t in (n.targets if isinstance(n, ast.Assign) else [n.target]):
        d = dotted(t)
        if d and d.startswith('self.'):
          attrs.add(d[5:])
  ctx.check(attrs <= {'_owners', '_lock'}, 'R4', 'RAM: single root container', init.node,
            'all per-study data hangs off _owners -> StudyNode, which delete_study removes',
            f'RAM datastore keeps state outside the owner tree: {sorted(attrs - {"_owners", "_lock"})} '
            '(not removed by delete_study)', construct='ram-root', func=svc.ram.qualname)
  dimpl = svc.ram.methods.get('delete_study')
  dels = [n for n in ast.walk(dimpl.node) if isinstance(n, ast.Delete)]
  ok = any(isinstance(t, ast.Subscript) and unparse(t, limit=0).endswith('.studies[resource.study_id]')
           or (isinstance(t, ast.Subscript) and isinstance(t.value, ast.Attribute) and t.value.attr == 'studies')
           for d in dels for t in d.targets)
  pops = [c for c in flow.calls_in(dimpl.node) if isinstance(c.func, ast.Attribute) and c.func.attr == 'pop'
          and isinstance(c.func.value, ast.Attribute) and c.func.value.attr == 'studies']
  ctx.check(ok or bool(pops), 'R4', 'RAM.delete_study removes the StudyNode', dimpl.node,
            'deletes the study node (trials, operations, clients go with it)',
            'delete_study does not remove the StudyNode from the owner', construct='ram-delete', func=dimpl.qualname)


# ----------------------------------------------------------------------- R5
def r5_merge(ctx, svc: Svc) -> None:
  for cls in (svc.ram, svc.sql):
    impl = cls.methods.get('update_metadata')
    names = {(dotted(c.func) or '').rsplit('.', 1)[-1] for c in flow.calls_in(impl.node)}
    ok = {'merge_study_metadata', 'merge_trial_metadata'} <= names
    ctx.check(ok, 'R5', f'{cls.name}.update_metadata', impl.node,
              'uses the shared merge functions', 'does not use merge_study_metadata/merge_trial_metadata '
              '(private re-implementation can diverge from the other backend)',
              construct='merge', func=impl.qualname)


# ----------------------------------------------------------------------- R7
def r7_max(ctx, svc: Svc) -> None:
  names = {m.name for m in svc.ds_abstract}
  pairs = {'max_trial_id': 'delete_trial', 'max_suggestion_operation_number': 'delete_suggestion_operation'}
  for mx, deleter in pairs.items():
    if mx not in names:
      raise AnalysisError(f'DataStore.{mx} missing')
    can_delete = deleter in names
    impl = svc.ram.methods[mx]
    g = cfgmod.CFG(impl.node)
    prov = flow.Provenance(g)
    count_based = False
    for n in g.nodes:
      if n.kind == 'stmt' and isinstance(n.ast, ast.Return) and n.ast.value is not None:
        o = prov.origins(n.ast.value, n)
        if any(k == 'call' and dotted(v.func) == 'len' for k, v in o) and not any(
            k == 'call' and dotted(v.func) == 'max' for k, v in o):
          count_based = True
    ctx.check(not (count_based and can_delete), 'R7', f'RAM.{mx}', impl.node,
              ('count-based but no API deletes a single element (only the study cascade, R4)'
               if count_based else 'computed as a maximum'),
              f'{mx} is computed as a count although {deleter} can remove single elements: after '
              'deleting a non-newest element the RAM backend hands out an id that is still in use, '
              'the SQL backend (max query) does not', construct=mx, func=impl.qualname)


def r8_exact_filters(ctx, svc: Svc) -> None:
  for m in svc.sql.methods.values():
    for c in flow.calls_in(m.node):
      if isinstance(c.func, ast.Attribute) and c.func.attr in ('where', 'filter', 'filter_by', 'having'):
        for a0 in c.args:
          a = flow.resolve_local(m.node, a0)
          def _is_col(x):
            if not isinstance(x, ast.Attribute):
              return False
            base = flow.resolve_local(m.node, x.value)
            return isinstance(base, ast.Attribute) and base.attr == 'c'
          ok = isinstance(a, ast.Compare) and len(a.ops) == 1 and isinstance(a.ops[0], ast.Eq) and any(
              _is_col(x) for x in ast.walk(a.left))
          ctx.check(ok, 'R8', f'SQL.{m.name}: filter', a,
                    'exact equality on a key column',
                    f'filter `{unparse(a, limit=100)}` is not an exact key equality: pattern / prefix / '
                    'range matches also select rows of sibling resources (e.g. study `tune_1` vs `tune_10`, '
                    'LIKE wildcards `_` `%`), which the RAM backend (exact dict keys) never does',
                    construct=a, func=m.qualname)
  # result-shaping clauses: the RAM backend lists in insertion (= increasing id) order and never truncates
  col_types: Dict[str, str] = {}
  for x in ast.walk(svc.sql.node):
    if isinstance(x, ast.Call) and (dotted(x.func) or '').endswith('Column') and len(x.args) >= 2 and isinstance(x.args[0], ast.Constant):
      col_types.setdefault(str(x.args[0].value), (dotted(x.args[1]) or unparse(x.args[1], 0)).rsplit('.', 1)[-1])
  if len(col_types) < 8:
    raise AnalysisError(f'only {len(col_types)} column definitions found in SQLDataStore')
  for m in svc.sql.methods.values():
    for c in flow.calls_in(m.node):
      if not isinstance(c.func, ast.Attribute):
        continue
      if c.func.attr in ('order_by',):
        for a in c.args:
          col = None
          for x in ast.walk(a):
            if isinstance(x, ast.Attribute) and isinstance(x.value, ast.Attribute) and x.value.attr == 'c':
              col = x.attr
          typ = col_types.get(col or '', '?')
          ctx.check(typ.upper() in ('INTEGER', 'INT', 'BIGINT'), 'R8', f'SQL.{m.name}: order_by({col})', a,
                    'ordered by an integer id column (the order the RAM backend lists in)',
                    f'rows are ordered by the {typ} column `{col}`: names sort lexicographically (…/trials/10 before …/trials/2), '
                    'so listings - and everything that pops from them, e.g. the REQUESTED pool of SuggestTrials - differ from the '
                    'RAM backend, which lists in creation order', construct=f'order_by:{col}', func=m.qualname)
      if c.func.attr in ('limit', 'offset', 'distinct', 'group_by') and any(
          isinstance(x, ast.Attribute) and x.attr.endswith('_table') for x in ast.walk(c.func.value)):
        ctx.bad('R8', f'SQL.{m.name}: .{c.func.attr}(...)', c,
                f'the query result is shaped by .{c.func.attr}(): the RAM backend returns every matching row exactly once',
                construct=f'shape:{c.func.attr}', func=m.qualname)


_RAM = 'vizier/_src/service/ram_datastore.py'
_SQL = 'vizier/_src/service/sql_datastore.py'
VARIANTS = [
    Variant('sql-get-trial-valueerror', _SQL,
            "        raise NotFoundError('Failed to find trial name: %s' % trial_name)",
            "        raise ValueError('Failed to find trial name: %s' % trial_name)", rule='R2'),
    Variant('ram-delete-trial-raw-keyerror', _RAM,
            """      try:
        del (
            self._owners[resource.owner_id]
            .studies[resource.study_id]
            .trial_protos[resource.trial_id]
        )
      except KeyError as err:
        raise custom_errors.NotFoundError(
            'Trial does not exist:', trial_name
        ) from err""",
            """      del (
          self._owners[resource.owner_id]
          .studies[resource.study_id]
          .trial_protos[resource.trial_id]
      )""", rule='R2'),
    Variant('sql-drop-trials-cascade', _SQL,
            '      self._write_or_rollback(dsq)\n      self._write_or_rollback(dtq)\n',
            '      self._write_or_rollback(dsq)\n', rule='R4'),
    Variant('ram-side-table', _RAM,
            '    self._lock = threading.Lock()\n\n  def create_study',
            '    self._lock = threading.Lock()\n    self._op_index = {}\n\n  def create_study', rule='R4'),
    Variant('sql-private-merge', _SQL,
            '      vz.metadata_util.merge_study_metadata(\n          original_study.study_spec, study_metadata\n      )',
            '      original_study.study_spec.metadata.extend(study_metadata)', rule='R5'),
    Variant('sql-update-study-no-exist-check', _SQL,
            "      if not self._connection.execute(eq).fetchone()[0]:\n        raise NotFoundError('Study %s does not exist.' % study.name)\n      self._write_or_rollback(uq)",
            "      self._write_or_rollback(uq)", rule='R2'),
    Variant('sql-list-trials-prefix', _SQL,
            '    lq = lq.where(self._trials_table.c.owner_id == study_resource.owner_id)\n    lq = lq.where(self._trials_table.c.study_id == study_resource.study_id)',
            '    lq = lq.where(self._trials_table.c.trial_name.startswith(study_name))', rule='R8'),
    Variant('sql-list-trials-order-by-name', _SQL,
            '    lq = lq.where(self._trials_table.c.study_id == study_resource.study_id)\n\n    with self._lock:\n      if not self._connection.execute(eq).fetchone()[0]:\n        raise NotFoundError(\'Study name %s does not exist.\' % study_name)',
            '    lq = lq.where(self._trials_table.c.study_id == study_resource.study_id)\n    lq = lq.order_by(self._trials_table.c.trial_name)\n\n    with self._lock:\n      if not self._connection.execute(eq).fetchone()[0]:\n        raise NotFoundError(\'Study name %s does not exist.\' % study_name)', rule='R8'),
    Variant('benign-sql-list-trials-order-by-id', _SQL,
            '    lq = lq.where(self._trials_table.c.study_id == study_resource.study_id)\n\n    with self._lock:\n      if not self._connection.execute(eq).fetchone()[0]:\n        raise NotFoundError(\'Study name %s does not exist.\' % study_name)',
            '    lq = lq.where(self._trials_table.c.study_id == study_resource.study_id)\n    lq = lq.order_by(self._trials_table.c.trial_id)\n\n    with self._lock:\n      if not self._connection.execute(eq).fetchone()[0]:\n        raise NotFoundError(\'Study name %s does not exist.\' % study_name)', expect='silent'),
    Variant('benign-ram-rename', _RAM, 'trial_protos', 'trial_map', expect='silent', count=17),
]
