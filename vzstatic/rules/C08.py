"""C08 — local, gRPC and split-Pythia deployments behave identically.

Structural clauses decided:
  R1 error-class parity: every exception that can escape an RPC method is a
     grpc.RpcError produced by grpc_util.handle_exception; any other escaping
     class (a raw datastore NotFoundError, a bare ValueError) is seen as that
     class in-process but as UNKNOWN over the wire;
  R2 handle_exception terminates the call in both modes (C01.R4);
  R3 promised client exceptions: the sites that translate lookup failures into
     ResourceNotFoundError catch KeyError *and* grpc.RpcError and always raise
     the promised class;
  R4 duck-type parity: every method invoked on a VizierService / PythiaService
     handle is an rpc of the corresponding .proto service, implemented by the
     servicer with signature (request, context=None), and called with exactly
     one positional argument;
  R5 handlers around calls on a service handle treat KeyError-like classes and
     grpc.RpcError alike (a handler for one without the other is
     deployment-dependent);
  R6 error details handed to handle_exception are bounded scalars (names, ids,
     enum names), never a whole message: gRPC trailers are limited to 16 KiB
     and an oversized message changes the status code only over the wire.
"""

from __future__ import annotations

import ast
from typing import Dict, List, Optional, Set, Tuple

from vzstatic import cfg as cfgmod
from vzstatic import flow
from vzstatic.index import ClassInfo, FuncInfo, dotted
from vzstatic.selftest import Variant
from vzstatic.source import AnalysisError, ancestors, loc, unparse
from vzstatic.svc import GRPC_UTIL, Svc, where
from vzstatic.typestate import TypeState

MANIFEST = {
    'technique': ('exception-escape analysis per RPC over the exception-aware CFG (explicit raises, '
                  'documented datastore errors, helper summaries, handler matching with the class '
                  'lattice); handler-coverage rules on the client; name/signature parity of every '
                  'call on a service handle against the parsed .proto services; typed access paths '
                  'for error-detail arguments'
                  '; handle_exception context argument check; transport transparency deny-rules (interceptors, per-call deadlines, load shedding)'
                  '; terminator-not-caught check on every guard site; class-discriminating handlers around algorithm calls'),
    'level_text': (
        'Static: the class of every error that can leave an RPC is the same in-process and over '
        'the wire, promised client exceptions are translated from both shapes, every call on a '
        'stub-or-servicer handle exists on both, and error details cannot exceed transport '
        'limits. Necessary for identical behaviour across the three deployments; equality of '
        'returned values (serialisation) is C09 and is not decided here.'),
    'level_note': (
        'Raise model per RPC: explicit raise, terminating guards (RpcError), datastore calls per '
        'their documented Raises contract, servicer helpers by summary. Resource-name parsing '
        'errors for malformed names and arbitrary internal errors are not modelled. Trusted: a '
        'non-RpcError escaping a servicer method reaches a gRPC client as StatusCode.UNKNOWN.'),
}

HANDLE_TYPES = ('VizierService', 'PythiaService')
FILES = ['vizier/_src/service/vizier_client.py', 'vizier/_src/service/clients.py',
         'vizier/_src/service/service_policy_supporter.py', 'vizier/_src/service/pythia_service.py',
         'vizier/_src/service/vizier_service.py']
NOTFOUND = 'vizier._src.service.custom_errors.NotFoundError'
EXISTS = 'vizier._src.service.custom_errors.AlreadyExistsError'


def ds_raises(svc: Svc, name: str) -> List[str]:
  m = svc.datastore.methods.get(name)
  if m is None:
    return []
  doc = ast.get_docstring(m.node) or ''
  out = []
  if 'NotFoundError' in doc:
    out.append(NOTFOUND)
  if 'AlreadyExistsError' in doc:
    out.append(EXISTS)
  return out


def helper_raises(svc: Svc, fi: FuncInfo, seen=None) -> List[Tuple[str, str]]:
  """(class, why) that can escape a servicer helper (no handlers inside assumed)."""
  out = []
  for c in flow.calls_in(fi.node):
    m = svc.ds_call(c)
    if m:
      for cls in ds_raises(svc, m):
        if not _caught(svc, fi, c, cls):
          out.append((cls, f'datastore.{m}'))
  return out


def _caught(svc: Svc, fi: FuncInfo, node: ast.AST, cls: str) -> bool:
  for a in ancestors(node):
    if isinstance(a, ast.Try) and any(x is node for st in a.body for x in ast.walk(st)):
      for h in a.handlers:
        if svc.ctx.lattice.catches(fi.module, h, cls) == 'all':
          return True
    if isinstance(a, (ast.FunctionDef, ast.Lambda)):
      break
  return False


def run(ctx) -> None:
  svc = Svc(ctx)
  ctx.rule('R1', 'every exception class that can escape an RPC method is a grpc.RpcError', 17)
  ctx.rule('R2', 'grpc_util.handle_exception never returns normally (both deployments terminate)', 1)
  ctx.rule('R3', 'sites translating lookup failures into ResourceNotFoundError cover KeyError and '
           'grpc.RpcError and always raise the promised class', 2)
  ctx.rule('R4', 'calls on VizierService/PythiaService handles are rpcs of the .proto service, '
           'implemented as (request, context=None), called with one positional argument', 20)
  ctx.rule('R5', 'handlers around service-handle calls treat KeyError-like classes and RpcError alike', 1)
  ctx.rule('R6', 'error details passed to handle_exception are bounded scalars, never whole messages', 10)
  ctx.rule('R7', 'every handle_exception call in an RPC method passes that RPC\'s context', 10)
  ctx.import_rules('C12', {'R8'}, 'R12', 'a policy sees the complete trial list wherever it runs (ListTrials is not paginated / truncated)')
  ctx.import_rules('C12', {'R4'}, 'R11', 'the policy supporter lists trials the same way wherever Pythia runs: only the TrialFilter selects')
  ctx.rule('R10', 'handlers around algorithm (Pythia) calls do not discriminate on the exception class: a Python class does not '
           'survive the gRPC hop to a remote Pythia', 1)
  ctx.rule('R9', 'no guard refusal is issued inside a try block whose handler can catch the in-process terminator (locally the '
           'refusal would be swallowed, over gRPC the aborted status sticks)', 10)
  ctx.rule('R8', 'transport is transparent: no interceptors / per-call deadlines / load shedding on channels, stubs and servers', 3)
  ctx.trust('a non-RpcError exception escaping a servicer method is reported to a gRPC client as '
            'StatusCode.UNKNOWN; in-process it propagates as its own class')
  ctx.trust('gRPC limits status details (trailers) to 16 KiB; LocalRpcError has no limit')

  he = ctx.index.need_func(f'{GRPC_UTIL}.handle_exception')
  ctx.check(svc.noreturn(he), 'R2', 'grpc_util.handle_exception', he.node,
            'terminates in both modes', 'returns normally for a real ServicerContext',
            construct='handle_exception may return', func=he.qualname)
  r1_escape(ctx, svc)
  r3_r5_clients(ctx, svc)
  r4_duck(ctx, svc)
  r6_details(ctx, svc, he)
  r7_context_passed(ctx, svc, he)
  r10_algorithm_error_classes(ctx, svc)
  r8_transparent_transport(ctx)


# ----------------------------------------------------------------------- R1
def r1_escape(ctx, svc: Svc) -> None:
  lat = ctx.lattice
  for name, fi in svc.rpcs.items():
    g = cfgmod.CFG(fi.node)
    terms = {n.id for n in svc._cut_terminators(g, fi, 0)}
    events: Dict[int, List[Tuple[str, str]]] = {}

    def rm(n):
      evs = []
      if n.id in terms:
        evs.append(('grpc.RpcError', 'terminating guard'))
      elif n.kind == 'stmt' and isinstance(n.ast, ast.Raise) and n.ast.exc is not None:
        e = n.ast.exc.func if isinstance(n.ast.exc, ast.Call) else n.ast.exc
        evs.append((lat.name_of(fi.module, e), 'explicit raise'))
      else:
        for c in flow.node_calls(n):
          m = svc.ds_call(c)
          if m:
            for cls in ds_raises(svc, m):
              evs.append((cls, f'datastore.{m}'))
            continue
          d = dotted(c.func) or ''
          if d.startswith('self.') and d.count('.') == 1 and fi.cls is not None:
            callee = svc.index.find_method(fi.cls, d[5:])
            if callee is not None and callee.name not in svc.rpcs:
              for cls, why in helper_raises(svc, callee):
                evs.append((cls, f'{d}() -> {why}'))
      events[n.id] = evs
      return [e for e, _ in evs]

    g.add_exception_edges(rm, lambda h, exc, node: lat.catches(fi.module, h, exc))
    reach = g.reachable([g.entry], include_starts=True)
    escapes = []
    for p, lab in g.raise_exit.preds:
      if p not in reach:
        continue
      cls = lab[1]
      if lat.is_sub(cls, 'grpc.RpcError'):
        continue
      why = [w for e, w in events.get(p.id, []) if e == cls]
      escapes.append((p, cls, why[0] if why else ''))
    # AlreadyExistsError of create_*: each create in the servicer is the write of a
    # read-modify-write covered by one lock region (C04.R1: the name/id/number is
    # derived from a read under the same lock), so it is infeasible sequentially
    # and under the lock discipline.
    escapes = [e for e in escapes if not (e[1] == EXISTS and 'datastore.create_' in e[2])]
    by_cls: Dict[str, List] = {}
    for p, cls, why in escapes:
      by_cls.setdefault(cls, []).append((p, why))
    if not by_cls:
      ctx.ok('R1', f'{name}', fi.node, 'only RpcError can escape')
    for cls, lst in sorted(by_cls.items()):
      short = cls.rsplit('.', 1)[-1]
      p, why = lst[0]
      ctx.bad('R1', f'{name}: {short} escapes', where(fi, p),
              f'{short} (first from {why}; {len(lst)} site(s)) escapes the RPC unmapped: in-process the '
              f'client sees {short} ({"a KeyError" if short == "NotFoundError" else "a ValueError"} '
              'subclass), over gRPC it sees RpcError(UNKNOWN) — the class of the error depends on the '
              'deployment', construct=f'{short} escapes', func=fi.qualname)


# ------------------------------------------------------------------- R3, R5
def _service_reaching(ctx, fi: FuncInfo, call: ast.Call, handle_attrs: Dict[str, Set[str]]) -> bool:
  d = dotted(call.func) or ''
  parts = d.split('.')
  if len(parts) == 3 and parts[0] == 'self':
    cls_attrs = handle_attrs.get(fi.cls.qualname if fi.cls else '', set())
    if parts[1] in cls_attrs:
      return True
    if parts[1] in ('_client',):  # clients.py: VizierClient methods wrap one service call each
      return True
  if len(parts) == 2 and parts[0] in ('client',) and fi.module.name.endswith('clients'):
    return True
  return False


def handle_attrs_of(ctx) -> Dict[str, Set[str]]:
  """class qualname -> attribute names annotated/assigned as a service handle."""
  out: Dict[str, Set[str]] = {}
  for f in FILES:
    mi = ctx.index.module_of_file(f)
    for ci in mi.classes.values():
      s = set()
      for nm, ann in ci.annotations.items():
        if any(t in unparse(ann, limit=0) for t in HANDLE_TYPES):
          s.add(nm)
      init = ci.methods.get('__init__')
      if init is not None:
        ptypes = {a.arg: unparse(a.annotation, limit=0) for a in init.node.args.args if a.annotation is not None}
        for n in ast.walk(init.node):
          if isinstance(n, (ast.Assign, ast.AnnAssign)):
            tgts = n.targets if isinstance(n, ast.Assign) else [n.target]
            for t in tgts:
              dt = dotted(t) or ''
              if not dt.startswith('self.'):
                continue
              ann = unparse(n.annotation, limit=0) if isinstance(n, ast.AnnAssign) else ''
              val = n.value
              if any(h in ann for h in HANDLE_TYPES):
                s.add(dt[5:])
              elif isinstance(val, ast.Name) and any(h in ptypes.get(val.id, '') for h in HANDLE_TYPES):
                s.add(dt[5:])
      if s:
        out[ci.qualname] = s
  return out


def r3_r5_clients(ctx, svc: Svc) -> None:
  lat = ctx.lattice
  attrs = handle_attrs_of(ctx)
  ctx.info(f'service handle attributes: { {k.rsplit(".", 1)[-1]: sorted(v) for k, v in attrs.items()} }')
  if len(attrs) < 3:
    raise AnalysisError(f'service handle attributes found in only {len(attrs)} classes')
  n_try = 0
  for f in FILES[:4]:
    mi = ctx.index.module_of_file(f)
    funcs = list(mi.functions.values()) + [m for c in mi.classes.values() for m in c.methods.values()]
    for fi in funcs:
      for t in ast.walk(fi.node):
        if not isinstance(t, ast.Try):
          continue
        calls = [c for st in t.body for c in flow.calls_in(st) if _service_reaching(ctx, fi, c, attrs)]
        if not calls:
          continue
        n_try += 1
        catches_key = [h for h in t.handlers if lat.catches(fi.module, h, 'KeyError') == 'all'
                       or lat.catches(fi.module, h, NOTFOUND) == 'all']
        catches_rpc = [h for h in t.handlers if lat.catches(fi.module, h, 'grpc.RpcError') == 'all']
        promises = any(isinstance(x, ast.Raise) and x.exc is not None and 'ResourceNotFoundError' in unparse(x.exc, limit=0)
                       for h in t.handlers for x in ast.walk(h))
        inst = f'{fi.qualname.rsplit(".", 2)[-2]}.{fi.name}: try at line {t.lineno}'
        if promises:
          both = bool(catches_key) and bool(catches_rpc)
          always = all(isinstance(h.body[-1], ast.Raise) and h.body[-1].exc is not None
                       and 'ResourceNotFoundError' in unparse(h.body[-1].exc, limit=0)
                       and not any(isinstance(x, ast.Raise) and x is not h.body[-1] for x in ast.walk(h))
                       for h in set(catches_key + catches_rpc))
          ctx.check(both and always, 'R3', inst, t,
                    'lookup failure is translated from KeyError (in-process) and RpcError (gRPC) alike',
                    ('the handler that raises ResourceNotFoundError does not cover '
                     + ('grpc.RpcError' if not catches_rpc else 'KeyError')
                     + ': in that deployment a missing resource surfaces as a different exception class')
                    if not both else
                    'a handler path re-raises something other than ResourceNotFoundError (e.g. depending on '
                    'the status code, which is UNKNOWN for unmapped datastore errors over gRPC)',
                    construct=f'{fi.name}:translate', func=fi.qualname)
        else:
          # R5: a KeyError-like handler without an RpcError twin (or vice versa for lookups)
          if catches_key and not catches_rpc:
            ctx.bad('R5', inst, t,
                    'a failure of the service call is handled when it arrives as KeyError (in-process '
                    'servicer) but not when it arrives as grpc.RpcError (stub): behaviour differs '
                    'between deployments', construct=f'{fi.name}:keyerror-only', func=fi.qualname)
          else:
            ctx.ok('R5', inst, t, 'handlers do not single out the in-process exception shape')
  if n_try < 2:
    raise AnalysisError(f'only {n_try} try-blocks around service calls found')


# ----------------------------------------------------------------------- R4
def r4_duck(ctx, svc: Svc) -> None:
  attrs = handle_attrs_of(ctx)
  vz_rpcs = set(svc.schema.services['VizierService'].rpcs)
  py_rpcs = set(svc.schema.services['PythiaService'].rpcs)
  pythia = ctx.index.need_class('vizier._src.service.pythia_service.PythiaServicer')
  n = 0
  for f in FILES:
    mi = ctx.index.module_of_file(f)
    for ci in mi.classes.values():
      handles = set(attrs.get(ci.qualname, set()))
      for m in ci.methods.values():
        local_handles = set()
        for x in ast.walk(m.node):
          if isinstance(x, ast.Assign) and isinstance(x.value, ast.Call):
            d = dotted(x.value.func) or ''
            if d.startswith('self.'):
              callee = ctx.index.find_method(ci, d[5:])
              if callee is not None and callee.node.returns is not None and 'PythiaService' in unparse(callee.node.returns, limit=0):
                for t in x.targets:
                  if isinstance(t, ast.Name):
                    local_handles.add(t.id)
        for c in flow.calls_in(m.node):
          d = dotted(c.func) or ''
          parts = d.split('.')
          meth = None
          kind = None
          if len(parts) == 3 and parts[0] == 'self' and parts[1] in handles:
            meth = parts[2]
            ann = ''
            if parts[1] in ci.annotations:
              ann = unparse(ci.annotations[parts[1]], limit=0)
            kind = 'Pythia' if 'pythia' in parts[1].lower() or 'Pythia' in ann else 'Vizier'
          elif len(parts) == 2 and parts[0] in local_handles:
            meth, kind = parts[1], 'Pythia'
          if meth is None:
            continue
          n += 1
          rpcs = py_rpcs if kind == 'Pythia' else vz_rpcs
          servicer = pythia if kind == 'Pythia' else svc.servicer
          impl = servicer.methods.get(meth)
          sig_ok = False
          if impl is not None:
            a = impl.node.args
            names = [x.arg for x in a.args]
            sig_ok = names == ['self', 'request', 'context'] and len(a.defaults) >= 1 \
                and isinstance(a.defaults[-1], ast.Constant) and a.defaults[-1].value is None
          call_ok = len(c.args) == 1 and not c.keywords
          ok = meth in rpcs and sig_ok and call_ok
          ctx.check(ok, 'R4', f'{ci.name}.{m.name}: {d}()', c,
                    f'rpc of {kind}Service, servicer signature (request, context=None), one argument',
                    (f'`{meth}` is not an rpc of {kind}Service (a stub has no such method)' if meth not in rpcs else
                     'servicer method signature is not (request, context=None)' if not sig_ok else
                     'call passes more than the request (a stub would reject / misinterpret it)'),
                    construct=f'{d}', func=m.qualname)
  if n < 20:
    raise AnalysisError(f'only {n} calls on service handles found (25 on the pinned tree)')


# ----------------------------------------------------------------------- R6
def r6_details(ctx, svc: Svc, he: FuncInfo) -> None:
  n = 0
  for name, fi in svc.rpcs.items():
    ts = TypeState(svc, fi)
    ts.run()
    g = ts.cfg
    rd = flow.ReachingDefs(g)
    for node in g.nodes:
      for c in flow.node_calls(node):
        callee = svc.resolve_call(fi, c)
        if callee is None or callee.qualname != he.qualname or not c.args:
          continue
        n += 1
        # the error object: a Name defined by a constructor call, or an inline constructor
        ctor = None
        if isinstance(c.args[0], ast.Call):
          ctor = c.args[0]
        elif isinstance(c.args[0], ast.Name):
          for d in rd.at(node, c.args[0].id):
            if d.kind == 'assign' and isinstance(d.value, ast.Call):
              ctor = d.value
        if ctor is None:
          ctx.ok('R6', f'{name}: error at line {node.lineno}', where(fi, node), 'no message arguments')
          continue
        env = ts.state.get(node.id, {})
        bad = None
        for piece in _message_pieces(ctor):
          t = _msg_type(svc, ts, fi, env, piece)
          if t is not None:
            bad = (piece, t)
            break
        ctx.check(bad is None, 'R6', f'{name}: error details at line {node.lineno}', where(fi, node),
                  'details are built from names, ids and enum names only',
                  f'error details embed a whole `{bad[1] if bad else ""}` message '
                  f'(`{unparse(bad[0], limit=60) if bad else ""}`): its text is unbounded, gRPC trailers are '
                  'limited to 16 KiB, so a large study turns the documented status code into '
                  'RESOURCE_EXHAUSTED over the wire only', construct=bad[0] if bad else None, func=fi.qualname)
  if n < 10:
    raise AnalysisError(f'only {n} handle_exception calls found in RPC methods')


# ----------------------------------------------------------------------- R7
def r10_algorithm_error_classes(ctx, svc: Svc) -> None:
  n = 0
  for name, fi in svc.rpcs.items():
    for t in ast.walk(fi.node):
      if not isinstance(t, ast.Try):
        continue
      calls = [c for b in t.body for c in flow.calls_in(b) if isinstance(c.func, ast.Attribute) and c.func.attr in ('Suggest', 'EarlyStop')]
      if not calls:
        continue
      n += 1
      bad = None
      for h in t.handlers:
        names = ctx.lattice.handler_names(fi.module, h) if h.type is not None else ['BaseException']
        if not all(x in ('Exception', 'BaseException', 'grpc.RpcError') for x in names):
          bad = bad or (h, f'`except {unparse(h.type, 40)}` singles out a Python exception class')
        if h.name:
          for x in ast.walk(h):
            if isinstance(x, ast.Call) and dotted(x.func) in ('isinstance', 'issubclass') and x.args \
                and any(isinstance(y, ast.Name) and y.id == h.name for y in ast.walk(x.args[0])):
              bad = bad or (x, f'`{unparse(x, 60)}` tests the class of the caught exception')
            if isinstance(x, ast.Call) and dotted(x.func) == 'type' and x.args and isinstance(x.args[0], ast.Name) and x.args[0].id == h.name:
              bad = bad or (x, f'`{unparse(x, 60)}` inspects the class of the caught exception')
      ctx.check(bad is None, 'R10', f'{name}: handlers around {unparse(calls[0].func, 40)}()', where(fi, t),
                'every failure of the algorithm is treated alike',
                (bad[1] if bad else '') + ': with Pythia in another process the exception arrives as a grpc.RpcError and the branch is never taken, '
                'so the study ends in a different state than with an in-process Pythia', construct=f'{name}:algorithm-error-class', func=fi.qualname)
  if n < 1:
    raise AnalysisError('no try block around an algorithm call found in the servicer')


def r7_context_passed(ctx, svc: Svc, he: FuncInfo) -> None:
  """handle_exception(e, context): without the RPC's context the helper raises its *local* error class
  even inside a gRPC server, which the wire reports as UNKNOWN instead of the documented code."""
  n = 0
  hp = [p for p in he.params]
  for name, fi in svc.rpcs.items():
    cpar = fi.params[2] if len(fi.params) > 2 else None
    for c in flow.calls_in(fi.node):
      callee = svc.resolve_call(fi, c)
      if callee is None or callee.qualname != he.qualname:
        continue
      n += 1
      passed = None
      if len(c.args) >= 2:
        passed = c.args[1]
      for k in c.keywords:
        if len(hp) >= 2 and k.arg == hp[1]:
          passed = k.value
      swallowed = None
      for anc in ancestors(c):
        if isinstance(anc, ast.Try) and any(any(y is c for y in ast.walk(b)) for b in anc.body):
          for h in anc.handlers:
            if ctx.lattice.catches(fi.module, h, 'vizier._src.service.grpc_util.LocalRpcError') == 'all' \
                and not (h.body and isinstance(h.body[-1], ast.Raise)):
              swallowed = h
        if anc is fi.node:
          break
      ctx.check(swallowed is None, 'R9', f'{name}: handle_exception at line {c.lineno} is not caught again', where(fi, c),
                'no enclosing handler catches the terminator',
                f'the refusal is issued inside a try block whose handler `except {unparse(swallowed.type, 30) if swallowed is not None and swallowed.type is not None else ""}` '
                'catches the in-process terminator (LocalRpcError) and carries on: the local deployment answers normally where the gRPC '
                'deployment reports the aborted status - the two deployments differ', construct=f'{name}:terminator-caught', func=fi.qualname)
      ok = passed is not None and isinstance(passed, ast.Name) and passed.id == cpar
      ctx.check(ok, 'R7', f'{name}: handle_exception(.., {unparse(passed, 20) if passed is not None else "<missing>"}) at line {c.lineno}',
                where(fi, c), 'the servicer context of this RPC is passed on',
                'the RPC context is not passed to handle_exception: in a gRPC server the helper cannot abort with the documented '
                'status code and raises its in-process error class instead, which the client sees as UNKNOWN - the error class '
                'differs between the local and the gRPC deployment', construct=f'{name}:no-context', func=fi.qualname)
  if n < 10:
    raise AnalysisError(f'only {n} handle_exception calls found in RPC methods')


# ----------------------------------------------------------------------- R8
_TRANSPORT_MODULES = ['vizier._src.service.stubs_util', 'vizier._src.service.vizier_server', 'vizier._src.service.vizier_client',
                      'vizier._src.service.service_policy_supporter', 'vizier._src.service.vizier_service',
                      'vizier._src.service.pythia_service', 'vizier._src.service.clients']


def r8_transparent_transport(ctx) -> None:
  """The gRPC plumbing adds no failure mode that the in-process deployment lacks: no per-call deadlines
  or interceptors on channels/stub calls, no load shedding on servers."""
  n_srv = n_chan = 0
  for q in _TRANSPORT_MODULES:
    mi = ctx.index.need_module(q)
    for c in ast.walk(mi.tree):
      if not isinstance(c, ast.Call):
        continue
      d = dotted(c.func) or ''
      if d == 'grpc.server':
        n_srv += 1
        bad = [k.arg for k in c.keywords if k.arg in ('maximum_concurrent_rpcs', 'interceptors')
               and not (isinstance(k.value, ast.Constant) and k.value.value is None)]
        ctx.check(not bad, 'R8', f'{q.rsplit(".", 1)[-1]}: grpc.server(...) at line {c.lineno}', c,
                  'server queues requests (no load shedding, no interceptors)',
                  f'grpc.server(..., {", ".join(bad)}=...) rejects or rewrites calls at the transport: a request that the in-process '
                  'deployment simply serves (or queues) fails with RESOURCE_EXHAUSTED / a different status over gRPC only',
                  construct=f'grpc.server:{",".join(bad)}', func=q)
      if d in ('grpc.insecure_channel', 'grpc.secure_channel'):
        n_chan += 1
        opts = [k for k in c.keywords if k.arg in ('options', 'compression')] + ([c.args[1]] if d == 'grpc.insecure_channel' and len(c.args) > 1 else [])
        retry = None
        for o in opts:
          txt = unparse(getattr(o, 'value', o), 0)
          # options that change what a call does when it fails / how long it may take
          if any(w in txt for w in ('service_config', 'enable_retries', 'retry', 'keepalive_timeout', 'max_receive_message_length',
                                    'max_send_message_length', 'per_rpc_retry', 'hedging')):
            retry = o
        ctx.check(retry is None, 'R8', f'{q.rsplit(".", 1)[-1]}: {d} at line {c.lineno}', c, 'plain channel',
                  f'`{unparse(retry, 70) if retry is not None else ""}` configures the channel to retry / limit calls: a failure that the in-process deployment '
                  'reports (e.g. a policy that raises once) is silently repeated or turned into another status only when the service sits behind a channel',
                  construct='channel-options', func=q)
      if d == 'grpc.intercept_channel':
        ctx.bad('R8', f'{q.rsplit(".", 1)[-1]}: grpc.intercept_channel at line {c.lineno}', c,
                'calls on this channel are rewritten by a client interceptor (deadline / wait_for_ready / metadata): the remote '
                'deployments get failure modes (e.g. DEADLINE_EXCEEDED for a slow algorithm) that the in-process service cannot have',
                construct='intercept_channel', func=q)
      # per-call deadline on a stub / service-handle call
      if isinstance(c.func, ast.Attribute) and c.func.attr[:1].isupper() and any(k.arg in ('timeout', 'wait_for_ready') for k in c.keywords) \
          and (dotted(c.func.value) or '').split('.')[-1] in ('_service', '_pythia', 'stub', '_stub', 'temp_pythia_service', 'pythia_service'):
        ctx.bad('R8', f'{q.rsplit(".", 1)[-1]}: {unparse(c.func, 40)}(timeout=...) at line {c.lineno}', c,
                'a per-call deadline exists only on the gRPC path: slow calls fail remotely and succeed locally',
                construct='stub-timeout', func=q)
  if n_srv < 2 or n_chan < 1:
    raise AnalysisError(f'transport sites not found (grpc.server: {n_srv}, channels: {n_chan})')


def _message_pieces(ctor: ast.Call) -> List[ast.AST]:
  out: List[ast.AST] = []
  for a in list(ctor.args) + [k.value for k in ctor.keywords]:
    for x in ast.walk(a):
      if isinstance(x, ast.Call) and isinstance(x.func, ast.Attribute) and x.func.attr == 'format':
        out += list(x.args) + [k.value for k in x.keywords]
      elif isinstance(x, ast.FormattedValue):
        out.append(x.value)
      elif isinstance(x, ast.BinOp) and isinstance(x.op, ast.Mod):
        out += list(x.right.elts) if isinstance(x.right, ast.Tuple) else [x.right]
      elif isinstance(x, ast.BinOp) and isinstance(x.op, ast.Add):
        out += [x.left, x.right]
    if isinstance(a, (ast.Name, ast.Attribute)):
      out.append(a)
  return out


def _msg_type(svc: Svc, ts: TypeState, fi: FuncInfo, env, e: ast.AST) -> Optional[str]:
  """Full message type of expression `e` if it denotes a whole proto message."""
  if isinstance(e, ast.Call) and dotted(e.func) in ('str', 'repr') and e.args:
    return _msg_type(svc, ts, fi, env, e.args[0])
  if isinstance(e, ast.Name):
    v = env.get(e.id)
    if v is not None and not v.is_list:
      return 'vizier.Trial' if v.kind == 'trial' else 'vizier.Study'
    if e.id in fi.params:
      return ts._param_message(e.id)
    return None
  if isinstance(e, ast.Attribute):
    base = _msg_type(svc, ts, fi, env, e.value)
    if base is None:
      return None
    f = svc.schema.field_type(base, e.attr)
    if f is None:
      return None
    if svc.schema.is_message(f.type):
      return f.type
    return None
  if isinstance(e, ast.Call):
    m = svc.ds_call(e)
    if m in ('load_study',):
      return 'vizier.Study'
    if m in ('get_trial',):
      return 'vizier.Trial'
  return None


_SVC = 'vizier/_src/service/vizier_service.py'
VARIANTS = [
    Variant('client-calls-non-rpc', 'vizier/_src/service/vizier_client.py',
            '    response = self._service.ListTrials(request)',
            '    response = self._service.ListAllTrials(request)', rule='R4'),
    Variant('rpc-raises-bare-valueerror', _SVC,
            '    trial = request.trial\n    with self._study_name_to_lock[request.parent]:',
            "    trial = request.trial\n    if trial.id:\n      raise ValueError('id must not be set')\n    with self._study_name_to_lock[request.parent]:",
            rule='R1'),
    Variant('from-resource-name-narrow', 'vizier/_src/service/clients.py',
            "    except Exception as err:\n      raise ResourceNotFoundError(f'Study {name} does not exist.') from err",
            "    except KeyError as err:\n      raise ResourceNotFoundError(f'Study {name} does not exist.') from err",
            rule='R3'),
    Variant('supporter-keyerror-only', 'vizier/_src/service/service_policy_supporter.py',
            "    trials = self._vizier_service.ListTrials(request).trials",
            "    try:\n      trials = self._vizier_service.ListTrials(request).trials\n    except KeyError:\n      trials = []",
            rule='R5'),
    Variant('error-embeds-study', _SVC,
            "          'Study {} is immutable. Cannot create trial.'.format(request.parent)",
            "          'Study {} is immutable. Cannot create trial: {}'.format(request.parent, request.trial)",
            rule='R6'),
    Variant('client-passes-context', 'vizier/_src/service/vizier_client.py',
            '    self._service.DeleteTrial(request)', '    self._service.DeleteTrial(request, None)', rule='R4'),
    Variant('benign-direct-raise-local', _SVC,
            """          'Study {} is immutable. Cannot stop trial.'.format(study_name)
      )
      grpc_util.handle_exception(e, context)""",
            """          'Study {} is immutable. Cannot stop trial.'.format(study_name)
      )
      grpc_util.handle_exception(e, context)
      return None""", expect='silent'),
]
