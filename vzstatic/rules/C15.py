"""C15 — numeric encoding of trials is invertible and always decodes into the space.

Structural clauses:
  R1 inverse pairs agree: for every branch of
     ModelInputArrayBijector.scaler_from_spec the backward expression is the
     formal inverse of the forward one and forward(low)=0, forward(high)=1
     (expression trees extracted from the lambdas / nested defs, closure
     variables substituted statement by statement, normalised with sympy on
     closed expressions only; no program path is executed); the degenerate
     branch is taken only for low == high exactly;
  R2 one-hot pair: embed indexes eye(n) by the integer code; unembed is the
     argmax over the first n - num_oovs columns of the same spec;
  R3 decode into the space: every return of _to_parameter_value is None, a
     float clipped with both bounds of the *original* parameter config, or an
     element subscripted out of parameter_config.feasible_values;
  R4 label sign convention: convert() and to_metrics() multiply by the same
     factor, the safety shift is the only other arithmetic, and neither writes
     into its caller's array;
  R5 TrialToArrayConverter.to_parameters splits columns with the spec list
     to_features produces;
  R6 feature mapper: map() and unmap() address continuous / one-hot columns
     through the same walk over converter.output_specs.
Floating-point accuracy and dtype truncation are not decided.
"""

from __future__ import annotations

import ast
import sys
from typing import Dict, List, Optional, Tuple

from vzstatic import cfg as cfgmod
from vzstatic import flow
from vzstatic.index import FuncInfo, dotted
from vzstatic.rules.C18 import AliasAnalysis
from vzstatic.selftest import Variant
from vzstatic.source import AnalysisError, loc, unparse

MANIFEST = {
    'technique': ('symbolic extraction of the forward/backward scaling expressions (statement-by-'
                  'statement substitution of closure variables) and formal-inverse / orientation '
                  'check with sympy as a normaliser of closed expressions; return-provenance of the '
                  'decoder; alias analysis of the label converters; index-walk agreement of map/unmap'
                  '; one-hot widths compared symbolically (sympy); decoder clip checked on the sub-CFG where clipping is on; exact index encoding'
                  '; path-based symbolic execution (sympy as normaliser) of scaler construction following same-class/module helpers and NamedTuple carriers; member-wise table of the default getter; value-truthiness lint in label extraction'),
    'level_text': (
        'Static: each scaler branch is a formal bijection onto [0,1] with the documented '
        'orientation, the one-hot pair uses one spec, the decoder can only return None, a clipped '
        'value or a feasible value, label conversion applies the same sign factor both ways without '
        'touching its input, and array<->dict splitting uses one spec list. Necessary for '
        'invertibility and decode-into-space; floating-point accuracy is not decided.'),
    'level_note': ('sympy (pure-python wheel, read in place from /opt/veriftools/wheels) is used only to '
                   'decide equality of closed algebraic expressions; if it cannot, the instance is '
                   'reported as analysis-broken, not as a violation.'),
}

CORE = 'vizier/pyvizier/converters/core.py'
WHEELS = ['/opt/veriftools/wheels/sympy-1.14.0-py3-none-any.whl', '/opt/veriftools/wheels/mpmath-1.3.0-py3-none-any.whl']


def _sympy():
  try:
    import sympy  # noqa
    return sympy
  except ImportError:
    for w in WHEELS:
      if w not in sys.path:
        sys.path.insert(0, w)
    try:
      import sympy
      return sympy
    except ImportError as e:
      raise AnalysisError(f'sympy not available ({e})')


class SymEval:
  """Evaluates the arithmetic subset used by the scalers to sympy expressions."""

  def __init__(self, sp, env):
    self.sp = sp
    self.env = dict(env)

  def ev(self, e: ast.AST):
    sp = self.sp
    if isinstance(e, ast.Constant) and isinstance(e.value, (int, float)):
      return sp.nsimplify(e.value)
    if isinstance(e, ast.Name):
      if e.id in self.env:
        return self.env[e.id]
      raise AnalysisError(f'free variable {e.id} in a scaling expression')
    if isinstance(e, ast.BinOp):
      a, b = self.ev(e.left), self.ev(e.right)
      if isinstance(e.op, ast.Add):
        return a + b
      if isinstance(e.op, ast.Sub):
        return a - b
      if isinstance(e.op, ast.Mult):
        return a * b
      if isinstance(e.op, ast.Div):
        return a / b
      if isinstance(e.op, ast.Pow):
        return a ** b
    if isinstance(e, ast.UnaryOp) and isinstance(e.op, ast.USub):
      return -self.ev(e.operand)
    if isinstance(e, ast.BoolOp) and isinstance(e.op, ast.Or):
      return self.ev(e.values[0])  # `(high - low) or 1.0`: the non-degenerate value
    if isinstance(e, ast.Call):
      d = dotted(e.func) or ''
      if d in ('np.log', 'jnp.log', 'math.log') and len(e.args) == 1:
        return sp.log(self.ev(e.args[0]))
      if d in ('np.exp', 'jnp.exp', 'math.exp') and len(e.args) == 1:
        return sp.exp(self.ev(e.args[0]))
      if d in ('np.where', 'jnp.where') and len(e.args) == 3:
        return self.ev(e.args[1])  # finite branch of where(isfinite(y), A, y)
      if d in ('float', 'np.float64', 'np.asarray') and e.args:
        return self.ev(e.args[0])
    raise AnalysisError(f'expression outside the scaling algebra: {unparse(e, 60)}')


def _fn_expr(sp, fn: ast.AST, env_at_def: Dict, env_final: Dict):
  """sympy expression of a lambda / def in terms of symbol x."""
  x = sp.Symbol('x', real=True)
  args = fn.args
  local = dict(env_final)
  names = [a.arg for a in args.args]
  defaults = args.defaults
  for a, d in zip(names[len(names) - len(defaults):], defaults):
    local[a] = SymEval(sp, env_at_def).ev(d)
  local[names[0]] = x
  if isinstance(fn, ast.Lambda):
    body = fn.body
  else:
    rets = [s for s in ast.walk(fn) if isinstance(s, ast.Return)]
    if len(rets) != 1:
      raise AnalysisError('scaler function with several returns')
    body = rets[0].value
  return SymEval(sp, local).ev(body), x


def run(ctx) -> None:
  ctx.rule('R1', 'every scaler branch: backward is the formal inverse of forward; forward(low)=0, forward(high)=1', 4)
  ctx.rule('R2', 'one-hot embed/unembed use one spec: eye(n)[code], argmax over the first n - num_oovs columns', 1)
  ctx.rule('R3', 'decoder returns None, a value clipped with both original bounds, or an element of feasible_values', 4)
  ctx.rule('R4', 'label conversion: same sign factor both ways; no write into the caller\'s array', 3)
  ctx.rule('R5', 'to_parameters splits with the spec list of to_features', 1)
  ctx.rule('R6', 'feature mapper map/unmap walk the same output_specs', 2)
  ctx.rule('R7', 'index encoding of non-continuous values is exact (feasible_values.index under exact membership, else OOV)', 2)
  mi = ctx.index.module_of_file(CORE)
  r1_scalers(ctx, mi)
  r2_onehot(ctx, mi)
  r3_decoder(ctx, mi)
  r4_labels(ctx, mi)
  r5_split(ctx, mi)
  r6_mapper(ctx)
  r7_exact_index(ctx, mi)
  r7_getter_representation(ctx, mi)


# ----------------------------------------------------------------------- R7 (getter)
def r7_getter_representation(ctx, mi) -> None:
  """The value looked up in feasible_values must be in the parameter's *internal* representation (as_float / as_int /
  as_str, the one feasible_values themselves are stored in): member-wise table of the default getter."""
  from vzstatic import enumeval
  fi = mi.functions.get('_create_default_getter')
  if fi is None:
    raise AnalysisError('_create_default_getter not found')
  inner = next((x for x in ast.walk(fi.node) if isinstance(x, ast.FunctionDef) and x is not fi.node), None)
  if inner is None:
    raise AnalysisError('_create_default_getter: nested getter not found')
  subj = next((unparse(t.left, 0) for t in ast.walk(inner) if isinstance(t, ast.Compare) and unparse(t.left, 0).endswith('.type')), None)
  if subj is None:
    raise AnalysisError('_create_default_getter: no dispatch on <config>.type')
  want = {'DOUBLE': 'as_float', 'DISCRETE': 'as_float', 'INTEGER': 'as_int', 'CATEGORICAL': 'as_str'}
  probs = []
  for member, acc in want.items():
    def tev(t, member=member):
      v = enumeval.eval_test(t, {subj: member})
      if v is None and isinstance(t, ast.Compare) and isinstance(t.ops[0], (ast.In, ast.NotIn)):
        return False if isinstance(t.ops[0], ast.NotIn) else True  # `name not in trial.parameters`: the parameter is present
      return v
    body = [s_ for s_ in inner.body]
    # follow the function with the presence test decided as "present"
    r = None
    def run(stmts):
      for st in stmts:
        if isinstance(st, ast.Return):
          return st.value
        if isinstance(st, ast.If):
          v = tev(st.test)
          if v is None:
            return enumeval.UNKNOWN
          x = run(st.body if v else st.orelse)
          if x is not None:
            return x
      return None
    r = run(body)
    got = r.attr if isinstance(r, ast.Attribute) else (unparse(r, 0) if isinstance(r, ast.AST) else '?')
    if got != acc:
      probs.append(f'{member}: `{got}`, expected `.{acc}`')
  ctx.check(not probs, 'R7', 'default getter returns the internal representation', inner,
            'DOUBLE/DISCRETE as_float, INTEGER as_int, CATEGORICAL as_str',
            '; '.join(probs) + ': the value is compared with feasible_values in another representation (a Python bool is not the string '
            "'True'), so a feasible value is encoded as out-of-vocabulary and decodes to a different value", construct='getter-representation',
            func=fi.qualname)


# ----------------------------------------------------------------------- R7
_TOL = {'isclose', 'allclose', 'approx', 'searchsorted', 'argmin', 'round', 'around', 'rint', 'digitize'}


def r7_exact_index(ctx, mi) -> None:
  """Encoding a DISCRETE/CATEGORICAL/INTEGER value as an index is exact and injective: the index is
  feasible_values.index(value) under an exact membership test, otherwise the out-of-vocabulary index."""
  ci = mi.classes.get('DefaultModelInputConverter')
  fi = ci.methods.get('_convert_index') if ci else None
  if fi is None:
    raise AnalysisError('DefaultModelInputConverter._convert_index not found')
  alias = {}
  for n in ast.walk(fi.node):
    if isinstance(n, ast.Assign) and len(n.targets) == 1 and isinstance(n.targets[0], ast.Name):
      alias[n.targets[0].id] = n.value

  def is_fv(e, d=0):
    if isinstance(e, ast.Name) and e.id in alias and d < 3:
      return is_fv(alias[e.id], d + 1)
    return (dotted(e) or '').endswith('.feasible_values')
  rets = [r for r in ast.walk(fi.node) if isinstance(r, ast.Return) and r.value is not None]
  if not rets:
    raise AnalysisError('_convert_index: no return')
  tol = [c for c in ast.walk(fi.node) if isinstance(c, ast.Call) and (dotted(c.func) or '').rsplit('.', 1)[-1] in _TOL]
  for r in rets:
    v = r.value
    exact = (isinstance(v, ast.Call) and isinstance(v.func, ast.Attribute) and v.func.attr == 'index' and is_fv(v.func.value)) or \
        (isinstance(v, ast.Call) and dotted(v.func) == 'len' and v.args and is_fv(v.args[0]))
    if exact:
      ctx.ok('R7', f'_convert_index: return at line {r.lineno}', r, 'exact position in feasible_values / out-of-vocabulary index')
    elif tol:
      ctx.bad('R7', f'_convert_index: return at line {r.lineno}', r,
              f'the index is found with `{unparse(tol[0], 60)}` (a tolerance / nearest match, first match wins): feasible values closer '
              'together than the tolerance are encoded as the same index, so decoding returns a different feasible value',
              construct='convert-index:tolerance', func=fi.qualname)
    else:
      raise AnalysisError(f'_convert_index returns `{unparse(v, 60)}`: neither feasible_values.index(..) nor len(feasible_values)')
  member = [x for x in ast.walk(fi.node) if isinstance(x, ast.Compare) and len(x.ops) == 1 and isinstance(x.ops[0], ast.In)
            and is_fv(x.comparators[0])]
  ctx.check(bool(member) or bool(tol), 'R7', '_convert_index: exact membership test', fi.node, '`value in feasible_values`',
            'no exact membership test guards feasible_values.index()', construct='convert-index:member', func=fi.qualname)


# ----------------------------------------------------------------------- R1
def r1_scalers(ctx, mi) -> None:
  """Path-based symbolic execution of scaler_from_spec (and of the same-class helpers it returns through): every
  path that ends in `cls(forward, backward, ...)` is classified by the decisions taken on it (low == high; scale ==
  LOG / REVERSE_LOG; otherwise LINEAR) and its two functions are compared as sympy expressions."""
  from vzstatic import pathcond
  sp = _sympy()
  bij = mi.classes.get('ModelInputArrayBijector')
  fi = bij.methods['scaler_from_spec']
  L, H = sp.symbols('L H', positive=True)
  leaves = []  # (branch name, fwd (fn, env), bwd (fn, env), env, return node, owner FuncInfo)

  from vzstatic import inline as _inline
  records = _inline._record_classes(mi.tree)

  def fn_of(e, env, fns):
    if isinstance(e, ast.Lambda):
      return (e, dict(env), env)
    if isinstance(e, ast.Name):
      return fns.get(e.id)
    if isinstance(e, ast.Attribute) and isinstance(e.value, ast.Name):
      return fns.get(f'{e.value.id}.{e.attr}')
    if isinstance(e, ast.Subscript) and isinstance(e.value, ast.Name) and isinstance(e.slice, ast.Constant):
      return fns.get(f'{e.value.id}[{e.slice.value}]')
    return None

  def pair_of(c: ast.Call, env, fns, depth) -> Optional[Dict]:
    """Functions carried by a record / tuple value: {field name and position: (function, env)} for a NamedTuple
    constructor call or for a call of a module-level / same-class helper that returns one."""
    d = dotted(c.func) or ''
    if d in records:
      out = {}
      fields = [f_ for f_, _ in records[d]]
      for i_, a_ in enumerate(c.args):
        v_ = fn_of(a_, env, fns)
        if v_ is not None and i_ < len(fields):
          out[fields[i_]] = out[i_] = v_
      for k_ in c.keywords:
        v_ = fn_of(k_.value, env, fns)
        if v_ is not None and k_.arg in fields:
          out[k_.arg] = out[fields.index(k_.arg)] = v_
      return out or None
    callee = mi.functions.get(d) if '.' not in d else bij.methods.get(d[4:]) if d.startswith('cls.') else None
    if callee is None or depth > 2:
      return None
    params = [p_ for p_ in callee.params if p_ not in ('cls', 'self')]
    if len(c.args) > len(params) or c.keywords:
      return None
    env0 = {}
    for p_, a_ in zip(params, c.args):
      try:
        env0[p_] = SymEval(sp, env).ev(a_)
      except AnalysisError:
        pass
    g2 = cfgmod.CFG(callee.node)
    results = []
    for rn in [n for n in g2.nodes if n.kind == 'stmt' and isinstance(n.ast, ast.Return) and n.ast.value is not None]:
      for path in pathcond.paths(g2, [g2.entry], rn, limit=500):
        env2, fns2 = dict(env0), {}
        specp2 = params[0] if params else ''
        run_path(path, env2, fns2, specp2, depth + 1, None)
        v = rn.ast.value
        if isinstance(v, ast.Call):
          r_ = pair_of(v, env2, fns2, depth + 1)
        elif isinstance(v, ast.Tuple):
          r_ = {i_: fn_of(e_, env2, fns2) for i_, e_ in enumerate(v.elts) if fn_of(e_, env2, fns2) is not None}
        else:
          r_ = None
        if r_:
          results.append(r_)
    return results[0] if results else None

  def run_path(path, env, fns, specp, depth, tags) -> None:
    for n, lab in path:
      a = n.ast
      if n.kind != 'stmt':
        continue
      if isinstance(a, ast.FunctionDef):
        fns[a.name] = (a, dict(env), env)
      elif isinstance(a, ast.Assign) and len(a.targets) == 1:
        tg = a.targets[0]
        if isinstance(tg, ast.Name) and isinstance(a.value, ast.Lambda):
          fns[tg.id] = (a.value, dict(env), env)
        elif isinstance(tg, ast.Name):
          try:
            env[tg.id] = SymEval(sp, env).ev(a.value)
          except AnalysisError:
            env.pop(tg.id, None)
        elif isinstance(tg, ast.Tuple) and len(tg.elts) == 2 and dotted(a.value) == f'{specp}.bounds':
          for nm, v in zip(tg.elts, (L, H)):
            if isinstance(nm, ast.Name):
              env[nm.id] = v
        elif isinstance(tg, ast.Tuple) and isinstance(a.value, ast.Tuple) and len(tg.elts) == len(a.value.elts):
          try:
            vals = [SymEval(sp, env).ev(v) for v in a.value.elts]
          except AnalysisError:
            vals = None
          for i_, nm in enumerate(tg.elts):
            if isinstance(nm, ast.Name):
              if vals is None:
                env.pop(nm.id, None)
              else:
                env[nm.id] = vals[i_]

  def analyse(f: FuncInfo, prefix: List[Tuple[str, bool]], depth: int) -> None:
    g = cfgmod.CFG(f.node)
    specp = [p for p in f.params if p not in ('cls', 'self')]
    if not specp:
      raise AnalysisError(f'{f.name}: no spec parameter')
    specp = specp[0]
    rets = [n for n in g.nodes if n.kind == 'stmt' and isinstance(n.ast, ast.Return) and isinstance(n.ast.value, ast.Call)]
    for rn in rets:
      call = rn.ast.value
      d = dotted(call.func) or ''
      is_ctor = d in ('cls', bij.name) and len(call.args) >= 2
      helper = None
      if d.startswith('cls.') and d.count('.') == 1 and d[4:] in bij.methods and d[4:] != 'identity' \
          and any(isinstance(a, ast.Name) and a.id == specp for a in call.args):
        helper = bij.methods[d[4:]]
      if not is_ctor and helper is None:
        continue
      seen = set()
      for path in pathcond.paths(g, [g.entry], rn, limit=3000):
        env: Dict = {}
        fns: Dict[str, Tuple[ast.AST, Dict]] = {}
        tags: List[Tuple[str, bool]] = list(prefix)
        for n, lab in path:
          a = n.ast
          if n.kind == 'test' and lab in ('T', 'F'):
            pol = lab == 'T'
            t = a
            while isinstance(t, ast.UnaryOp) and isinstance(t.op, ast.Not):
              t, pol = t.operand, not pol
            txt = unparse(t, 0)
            if isinstance(t, ast.Compare) and len(t.ops) == 1 and isinstance(t.ops[0], (ast.Eq, ast.NotEq)):
              if isinstance(t.ops[0], ast.NotEq):
                pol = not pol
              sides = [dotted(t.left) or '', dotted(t.comparators[0]) or '']
              if any(x.endswith('ScaleType.REVERSE_LOG') for x in sides):
                tags.append(('REVERSE_LOG', pol))
              elif any(x.endswith('ScaleType.LOG') for x in sides):
                tags.append(('LOG', pol))
              else:
                try:
                  vals = {SymEval(sp, env).ev(t.left), SymEval(sp, env).ev(t.comparators[0])}
                  if vals == {L, H}:
                    tags.append(('degenerate', pol))
                except AnalysisError:
                  pass
            elif ('isclose' in txt or 'abs(' in txt or 'allclose' in txt) and any(k in txt for k in env):
              tags.append(('degenerate~', pol))
            continue
          if n.kind != 'stmt':
            continue
          if isinstance(a, ast.FunctionDef):
            fns[a.name] = (a, dict(env), env)
          elif isinstance(a, ast.Assign) and len(a.targets) == 1:
            tg = a.targets[0]
            if isinstance(tg, ast.Name) and isinstance(a.value, ast.Lambda):
              fns[tg.id] = (a.value, dict(env), env)
            elif isinstance(tg, (ast.Name, ast.Tuple)) and isinstance(a.value, ast.Call) \
                and pair_of(a.value, env, fns, depth) is not None:
              pr = pair_of(a.value, env, fns, depth)
              if isinstance(tg, ast.Name):
                for k_, v_ in pr.items():
                  fns[f'{tg.id}.{k_}'] = v_
                  fns[f'{tg.id}[{k_}]'] = v_
              else:
                for i_, nm in enumerate(tg.elts):
                  if isinstance(nm, ast.Name) and i_ in pr:
                    fns[nm.id] = pr[i_]
            elif isinstance(tg, ast.Name):
              try:
                env[tg.id] = SymEval(sp, env).ev(a.value)
              except AnalysisError:
                env.pop(tg.id, None)
            elif isinstance(tg, ast.Tuple) and len(tg.elts) == 2 and dotted(a.value) == f'{specp}.bounds':
              for nm, v in zip(tg.elts, (L, H)):
                if isinstance(nm, ast.Name):
                  env[nm.id] = v
            elif isinstance(tg, ast.Tuple) and isinstance(a.value, ast.Tuple) and len(tg.elts) == len(a.value.elts):
              try:
                vals = [SymEval(sp, env).ev(v) for v in a.value.elts]
              except AnalysisError:
                vals = None
              for i_, nm in enumerate(tg.elts):
                if isinstance(nm, ast.Name):
                  if vals is None:
                    env.pop(nm.id, None)
                  else:
                    env[nm.id] = vals[i_]
        true_tags = [t for t, pol in tags if pol]
        name = 'degenerate' if 'degenerate' in true_tags else 'degenerate~' if 'degenerate~' in true_tags else \
            'LOG' if 'LOG' in true_tags else 'REVERSE_LOG' if 'REVERSE_LOG' in true_tags else 'LINEAR'
        if helper is not None:
          key = (name, tuple(tags))
          if key not in seen and depth < 2:
            seen.add(key)
            analyse(helper, tags, depth + 1)
          continue

        fwd, bwd = fn_of(call.args[0], env, fns), fn_of(call.args[1], env, fns)
        key = (name, id(fwd[0]) if fwd else None, id(bwd[0]) if bwd else None, tuple(sorted((k, str(v)) for k, v in env.items())))
        if key in seen:
          continue
        seen.add(key)
        leaves.append((name, fwd, bwd, dict(env), rn.ast, f))

  analyse(fi, [], 0)
  names = [b[0] for b in leaves]
  ctx.check('degenerate' in names and 'degenerate~' not in names, 'R1', 'degenerate branch taken only for low == high', fi.node,
            '`if low == high` exactly',
            'the singleton branch is selected by an approximate test: narrow but non-degenerate ranges are shifted to 0.5 instead of '
            'being scaled onto [0, 1] (orientation and, in float32, invertibility are lost)', construct='degenerate-test', func=fi.qualname)
  done = set()
  for name, fwd, bwd, env, node, owner in leaves:
    if name == 'degenerate~':
      continue
    try:
      if fwd is None or bwd is None:
        raise AnalysisError(f'{name}: forward/backward function not found')
      fe, x = _fn_expr(sp, fwd[0], fwd[1], fwd[2] if len(fwd) > 2 else env)
      be, _ = _fn_expr(sp, bwd[0], bwd[1], bwd[2] if len(bwd) > 2 else env)
      comp = sp.simplify(be.subs(x, fe) - x)
      inv_ok = comp == 0
      if name == 'degenerate':
        orient_ok = True
        detail = f'forward {fe}, backward {be}'
      else:
        f_lo = sp.simplify(fe.subs(x, L))
        f_hi = sp.simplify(fe.subs(x, H))
        orient_ok = f_lo == 0 and f_hi == 1
        detail = f'forward {fe}; backward {be}; forward(low)={f_lo}, forward(high)={f_hi}'
      sig = (name, str(fe), str(be))
      if sig in done:
        continue
      done.add(sig)
      ctx.check(inv_ok and orient_ok, 'R1', f'scaler branch {name}', node,
                detail,
                (f'backward(forward(x)) - x simplifies to {comp}, not 0: ' if not inv_ok else
                 'forward does not map low -> 0 and high -> 1: ') + detail,
                construct=f'scaler-{name}', func=fi.qualname)
    except AnalysisError as e:
      raise AnalysisError(f'scaler branch {name}: {e}')
  if len({n for n in names if n in ('LOG', 'REVERSE_LOG', 'LINEAR')}) < 3:
    raise AnalysisError(f'scaler branches found: {sorted(set(names))}')


# ----------------------------------------------------------------------- R2
def r2_onehot(ctx, mi) -> None:
  """Block width and valid-column count are compared symbolically: with R = bounds[1] - bounds[0] feasible codes and O
  out-of-vocabulary columns, the spec declares R + O columns, embed indexes eye(R + O), unembed takes argmax over the
  first R columns."""
  sp = _sympy()
  bij = mi.classes.get('ModelInputArrayBijector')
  fi = bij.methods['onehot_embedder_from_spec']
  b0, b1, O = sp.symbols('b0 b1 O')
  ctor = next((c for c in ast.walk(fi.node) if isinstance(c, ast.Call) and (dotted(c.func) or '').endswith('NumpyArraySpec')
               and any(k.arg == 'num_dimensions' for k in c.keywords)), None)
  if ctor is None:
    raise AnalysisError('onehot_embedder_from_spec: output NumpyArraySpec(num_dimensions=...) not found')
  outer_defs = {}
  for n in fi.node.body:
    if isinstance(n, ast.Assign) and len(n.targets) == 1 and isinstance(n.targets[0], ast.Name):
      outer_defs.setdefault(n.targets[0].id, []).append(n.value)

  def sym(e: ast.AST, fn, depth=0):
    if depth > 8:
      raise AnalysisError('one-hot width expression too deep')
    t = unparse(e, 0)
    if t in ('spec.bounds[1]',):
      return b1
    if t in ('spec.bounds[0]',):
      return b0
    if t in ('num_oovs', 'output_spec.num_oovs'):
      return O
    if t == 'output_spec.num_dimensions':
      return sym(next(k.value for k in ctor.keywords if k.arg == 'num_dimensions'), fi.node, depth + 1)
    if isinstance(e, ast.Constant) and isinstance(e.value, (int, float)):
      return sp.Integer(e.value) if isinstance(e.value, int) else sp.Float(e.value)
    if isinstance(e, ast.Call) and dotted(e.func) == 'int' and len(e.args) == 1:
      return sym(e.args[0], fn, depth + 1)
    if isinstance(e, ast.BinOp) and isinstance(e.op, (ast.Add, ast.Sub)):
      l, r = sym(e.left, fn, depth + 1), sym(e.right, fn, depth + 1)
      return l + r if isinstance(e.op, ast.Add) else l - r
    if isinstance(e, ast.IfExp) and unparse(e.test, 0) == 'pad_oovs':
      return O if (sym(e.body, fn, depth + 1), sym(e.orelse, fn, depth + 1)) == (1, 0) else sp.Symbol('unknown')
    if isinstance(e, ast.Name):
      r = flow.resolve_local(fn, e)
      if r is not e:
        return sym(r, fn, depth + 1)
      if e.id in outer_defs and len(outer_defs[e.id]) == 1:
        return sym(outer_defs[e.id][0], fi.node, depth + 1)
    raise AnalysisError(f'one-hot width: cannot interpret `{t}`')

  n_dims = sym(next(k.value for k in ctor.keywords if k.arg == 'num_dimensions'), fi.node)
  ndim_ok = sp.simplify(n_dims - (b1 - b0 + O)) == 0
  inner = [n for n in fi.node.body if isinstance(n, ast.FunctionDef)]
  lambdas = [n.value for n in fi.node.body if isinstance(n, ast.Assign) and isinstance(n.value, ast.Lambda)]
  emb_ok = une_ok = False
  for fn in inner:
    for r in [x for x in ast.walk(fn) if isinstance(x, ast.Return) and x.value is not None]:
      v = flow.resolve_local(fn, r.value)
      # embed: <eye(W, ...)>[codes]
      if isinstance(v, ast.Subscript):
        base = flow.resolve_local(fn, v.value)
        if isinstance(base, ast.Call) and (dotted(base.func) or '').endswith('eye') and base.args:
          emb_ok = sp.simplify(sym(base.args[0], fn) - n_dims) == 0
      # unembed: argmax(X[:, :K], axis=1)[.astype(..)]
      # the decoded index IS the argmax (optionally cast): anything merged in (np.where, masks) can produce the
      # out-of-vocabulary index, i.e. a missing parameter, for a real-valued input
      core = v
      while isinstance(core, ast.Call) and isinstance(core.func, ast.Attribute) and core.func.attr in ('astype', 'flatten', 'ravel', 'reshape'):
        core = core.func.value
      for c in [core]:
        if isinstance(c, ast.Call) and (dotted(c.func) or '').endswith('argmax') and c.args:
          sub = flow.resolve_local(fn, c.args[0])
          axis1 = any(k.arg == 'axis' and isinstance(k.value, ast.Constant) and k.value.value in (1, -1) for k in c.keywords)
          if isinstance(sub, ast.Subscript) and isinstance(sub.slice, ast.Tuple) and len(sub.slice.elts) == 2 \
              and isinstance(sub.slice.elts[1], ast.Slice) and sub.slice.elts[1].lower is None and sub.slice.elts[1].upper is not None:
            une_ok = axis1 and sp.simplify(sym(sub.slice.elts[1].upper, fn) - (b1 - b0)) == 0
  ctx.check(bool(emb_ok and une_ok and ndim_ok), 'R2', 'one-hot embed / unembed', fi.node,
            'eye(n)[code]; argmax over columns [:n - num_oovs]; n = range + num_oovs',
            f'embed and unembed no longer agree on the block width / out-of-vocabulary columns (spec width ok: {bool(ndim_ok)}, '
            f'eye width ok: {bool(emb_ok)}, argmax over the valid columns only: {bool(une_ok)})',
            construct='onehot', func=fi.qualname)


# ----------------------------------------------------------------------- R3
def r3_decoder(ctx, mi) -> None:
  ci = mi.classes.get('DefaultModelInputConverter')
  fi = ci.methods['_to_parameter_value']
  g = cfgmod.CFG(fi.node)
  rd = flow.ReachingDefs(g)
  # the same function with clipping switched on: edges that need `self._should_clip` to be false are removed
  g_on = cfgmod.CFG(fi.node)
  for tn in g_on.nodes:
    if tn.kind == 'test':
      t = unparse(tn.ast, 0)
      drop = 'F' if t == 'self._should_clip' else 'T' if t in ('not self._should_clip',) else None
      if drop:
        for m_, lab in list(tn.succs):
          if lab == drop:
            tn.succs.remove((m_, lab))
            m_.preds.remove((tn, lab))
  rd_on = flow.ReachingDefs(g_on)
  n_ret = 0
  for n in g.nodes:
    if not (n.kind == 'stmt' and isinstance(n.ast, ast.Return)):
      continue
    n_ret += 1
    v = n.ast.value
    inst = f'_to_parameter_value: return at line {n.lineno}'
    if v is None or (isinstance(v, ast.Constant) and v.value is None):
      ctx.ok('R3', inst, n.ast, 'None')
      continue
    txt = unparse(v, 0)
    # (a) element of feasible_values
    def from_feasible(e: ast.AST, depth=0) -> bool:
      if depth > 4:
        return False
      for x in ast.walk(e):
        if isinstance(x, ast.Subscript):
          base = x.value
          if isinstance(base, ast.Name):
            ds = [d for d in rd.at(n, base.id) if d.kind == 'assign' and d.value is not None]
            if len(ds) == 1:
              base = ds[0].value
          if unparse(base, 0).endswith('parameter_config.feasible_values'):
            return True
      for nm in flow.names_in(e):
        for d in rd.at(n, nm):
          if d.kind == 'assign' and d.value is not None and from_feasible(d.value, depth + 1):
            return True
      return False
    if from_feasible(v):
      ctx.ok('R3', inst, n.ast, 'an element of parameter_config.feasible_values')
      continue
    # (b) clipped float: every definition that can reach the return is np.clip(v, lo, hi) with the two bounds of
    # the *original* config, except definitions made only when clipping is switched off
    def bound_index(e: ast.AST, at) -> Optional[int]:
      """0/1 if `e` is bounds[0]/bounds[1] of self._parameter_config (through np.float64(..) / a tuple-unpacked local)."""
      if isinstance(e, ast.Call) and len(e.args) == 1 and (dotted(e.func) or '').rsplit('.', 1)[-1] in ('float64', 'float32', 'float', 'asarray'):
        return bound_index(e.args[0], at)
      if isinstance(e, ast.Subscript) and unparse(e.value, 0) == 'self._parameter_config.bounds' and isinstance(e.slice, ast.Constant):
        return e.slice.value if e.slice.value in (0, 1) else None
      if isinstance(e, ast.Name):
        ds = [d for d in rd.at(at, e.id)]
        if len(ds) == 1 and ds[0].value is not None:
          d = ds[0]
          if d.index in (0, 1) and unparse(d.value, 0) == 'self._parameter_config.bounds':
            return d.index
          if d.index is None and d.kind == 'assign':
            return bound_index(d.value, g.nodes[d.node_id])
      return None

    def value_defs(e: ast.AST, at, seen) -> List:
      """Definitions (Def, node) of the numeric value inside wrappers float()/ParameterValue()."""
      out = []
      for nm in flow.names_in(e):
        if nm in ('pyvizier', 'np', 'float', 'self', 'int'):
          continue
        for d in rd.at(at, nm):
          if (d.name, d.node_id) in seen:
            continue
          seen.add((d.name, d.node_id))
          out.append(d)
      return out

    # path-sensitive in the clipping flag: on the sub-graph where `self._should_clip` is true, every definition that
    # reaches the return must be an np.clip with both original bounds
    n_on = g_on.node_of(n.ast)
    defs_on = []
    seen_on = set()
    for nm in flow.names_in(v):
      if nm in ('pyvizier', 'np', 'float', 'self', 'int'):
        continue
      for d in rd_on.at(n_on, nm):
        if (d.name, d.node_id) not in seen_on:
          seen_on.add((d.name, d.node_id))
          defs_on.append(d)
    ok = bool(defs_on)
    why = 'the returned value is neither clipped nor taken from feasible_values'
    for d in defs_on:
      if d.kind == 'param':
        ok, why = False, 'the raw input value can reach the return without passing np.clip while should_clip is set'
        continue
      dn = g_on.nodes[d.node_id]
      val = d.value
      if isinstance(val, ast.Call) and (dotted(val.func) or '').endswith('clip') and len(val.args) >= 3:
        lo, hi = bound_index(val.args[1], g.node_of(dn.ast)), bound_index(val.args[2], g.node_of(dn.ast))
        if (lo, hi) != (0, 1):
          ok = False
          why = ('np.clip does not use both bounds of the original parameter config (`self._parameter_config.bounds[0]`, `[1]`): '
                 f'got [{unparse(val.args[1], 40)}, {unparse(val.args[2], 40)}]')
      else:
        ok, why = False, f'`{unparse(dn.ast, 60)}` reaches the return unclipped although should_clip is set'
    ctx.check(ok, 'R3', inst, n.ast, 'clipped with both bounds of the original config (when should_clip)', why +
              ': the decoder can return a value outside the parameter\'s domain', construct=f'return {txt}', func=fi.qualname)
  if n_ret < 4:
    raise AnalysisError(f'_to_parameter_value: only {n_ret} returns found')
  # no designer builds a non-clipping converter
  n_off = []
  for f in ctx.src.py_files():
    if f.startswith('vizier/_src/algorithms/designers') or f.startswith('vizier/_src/algorithms/evolution'):
      tree = ctx.src.parse(f)
      for x in ast.walk(tree):
        if isinstance(x, ast.keyword) and x.arg == 'should_clip' and isinstance(x.value, ast.Constant) and x.value.value is False:
          n_off.append(loc(x.value))
  ctx.check(not n_off, 'R3', 'no designer disables clipping', 'vizier/_src/algorithms',
            'no should_clip=False in designers', f'should_clip=False at {n_off}: that designer can suggest out-of-bounds values',
            construct='should_clip', func='designers')


# ----------------------------------------------------------------------- R4
def r4_labels(ctx, mi) -> None:
  ci = mi.classes.get('DefaultModelOutputConverter')
  conv, tom = ci.methods['convert'], ci.methods['to_metrics']
  from vzstatic.pathcond import neval, NoValue

  def factors(fn):
    """Sign factors applied by multiplication, each as the pair (value when flipping, value when not): a factor is an
    operand of `*` / `*=` (followed through locals bound once) that evaluates to a number under both settings of the
    flip flag."""
    out = []

    def value_pair(e):
      e = flow.resolve_local(fn.node, e)
      if not any(isinstance(x, ast.Attribute) and 'flip' in x.attr for x in ast.walk(e)):
        return None
      flag = next(unparse(x, 0) for x in ast.walk(e) if isinstance(x, ast.Attribute) and 'flip' in x.attr)
      try:
        vs = tuple(neval(e, {flag: b}) for b in (True, False))
      except NoValue:
        return ('?', unparse(e, 40))
      return vs if all(isinstance(v, (int, float)) and not isinstance(v, bool) for v in vs) else ('?', unparse(e, 40))
    for x in ast.walk(fn.node):
      if isinstance(x, ast.BinOp) and isinstance(x.op, ast.Mult):
        for s_ in (x.left, x.right):
          vp = value_pair(s_)
          if vp is not None:
            out.append(vp)
      if isinstance(x, ast.AugAssign) and isinstance(x.op, ast.Mult):
        vp = value_pair(x.value)
        out.append(('inplace',) + (vp or (unparse(x.value, 40),)))
    return out
  fc, ft = factors(conv), factors(tom)
  same = fc == ft == [(-1, 1)]
  ctx.check(same, 'R4', 'convert / to_metrics use the same sign factor', tom.node, f'{fc} (flip, no flip) in both directions',
            f'convert multiplies by {fc}, to_metrics by {ft} (value when flipping, value when not): labels -> metrics -> labels is not '
            'the identity under one of the sign conventions',
            construct=f'{fc}/{ft}', func=ci.qualname)
  b = AliasAnalysis(ctx, tom, tom.params[1], set()).run()
  ctx.check(not b, 'R4', 'to_metrics does not write into its argument', tom.node, 'in-place arithmetic only on private copies',
            f'in-place operation at line {b[0].lineno if b else 0} on an array that may be the caller\'s labels: decoding the same array '
            'twice gives different metrics', construct='to_metrics-inplace', func=tom.qualname)
  # a missing metric is told from a present one by presence, never by the truthiness of the metric *value* (0.0 is a value)
  numeric_truthy = None

  def numeric_source(e, depth=0) -> bool:
    # does `e` denote metric values (floats): x.value / get_value(..) / a comprehension of those
    e = flow.resolve_local(conv.node, e)
    if depth > 4:
      return False
    if isinstance(e, ast.Attribute) and e.attr == 'value':
      return True
    if isinstance(e, ast.Call) and isinstance(e.func, ast.Attribute) and e.func.attr == 'get_value':
      return True
    if isinstance(e, ast.IfExp):
      return numeric_source(e.body, depth + 1) or numeric_source(e.orelse, depth + 1)
    if isinstance(e, (ast.ListComp, ast.GeneratorExp)):
      return numeric_source(e.elt, depth + 1)
    return False
  for comp in (x for x in ast.walk(conv.node) if isinstance(x, (ast.ListComp, ast.GeneratorExp))):
    for gen in comp.generators:
      if not isinstance(gen.target, ast.Name):
        continue
      v = gen.target.id
      tests = [x.test for x in ast.walk(comp.elt) if isinstance(x, ast.IfExp)] + list(gen.ifs)
      for t in tests:
        parts = t.values if isinstance(t, ast.BoolOp) else [t]
        for p_ in parts:
          q_ = p_.operand if isinstance(p_, ast.UnaryOp) and isinstance(p_.op, ast.Not) else p_
          if isinstance(q_, ast.Name) and q_.id == v and numeric_source(gen.iter):
            numeric_truthy = numeric_truthy or p_
  ctx.check(numeric_truthy is None, 'R4', 'missing metrics are detected by presence, not by the value being falsy', conv.node,
            'no truthiness test on a metric value',
            f'`{unparse(numeric_truthy, 30) if numeric_truthy is not None else ""}` tests the truthiness of a metric value: an objective of exactly 0.0 is '
            'converted to NaN (and comes back as a missing metric)', construct='convert:value-truthiness', func=conv.qualname)
  b2 = AliasAnalysis(ctx, conv, conv.params[1], set()).run()
  ctx.check(not b2, 'R4', 'convert does not write into its argument', conv.node, 'ok', 'convert writes into its argument',
            construct='convert-inplace', func=conv.qualname)


# ----------------------------------------------------------------------- R5
def r5_split(ctx, mi) -> None:
  ci = mi.classes.get('TrialToArrayConverter')
  fi = ci.methods['to_parameters']
  from vzstatic import pathcond
  g = cfgmod.CFG(fi.node)
  par = [p_ for p_ in fi.params if p_ != 'self'][0]
  rets = [n for n in g.nodes if n.kind == 'stmt' and isinstance(n.ast, ast.Return) and n.ast.value is not None]
  ok = bool(rets)
  for r in rets:
    pths = pathcond.paths(g, [g.entry], r)
    for pth in pths:
      t = unparse(pathcond.substitute_on_path(pth, r.ast.value), 0)
      ok = ok and t == f'self._impl.to_parameters(DictOf2DArrays(self._impl.to_features([])).dict_like({par}))'
  ctx.check(ok, 'R5', 'TrialToArrayConverter.to_parameters', fi.node,
            'columns split by DictOf2DArrays(self._impl.to_features([])).dict_like(arr)',
            'the array is not split with the layout to_features() produces', construct='split', func=fi.qualname)


# ----------------------------------------------------------------------- R6
def r6_mapper(ctx) -> None:
  ci = ctx.index.need_class('vizier.pyvizier.converters.feature_mapper.ContinuousCategoricalFeatureMapper')
  init, mp, un = ci.methods['__init__'], ci.methods['map'], ci.methods['unmap']
  ti, tm, tu = unparse(init.node, 0), unparse(mp.node, 0), unparse(un.node, 0)
  map_ok = 'features[..., self._continuous_indices]' in tm and 'features[..., self._categorical_indices]' in tm \
      and 'for spec in converter.output_specs' in ti
  ctx.check(map_ok, 'R6', 'map(): columns addressed by the per-spec indices', mp.node, 'index tables built from converter.output_specs',
            'map() no longer selects columns by the indices derived from output_specs', construct='map', func=mp.qualname)
  # unmap walks the same specs and writes continuous columns at the running index `ind`
  walk = 'for spec in self.converter.output_specs' in tu
  cont_at_ind = False
  for x in ast.walk(un.node):
    if isinstance(x, ast.If) and 'CONTINUOUS' in unparse(x.test, 0):
      b = unparse(ast.Module(body=x.body, type_ignores=[]), 0)
      cont_at_ind = '.at[..., ind].set(features.continuous[..., con_ind])' in b and 'ind += 1' in b and 'con_ind += 1' in b
  onehot_at_ind = '.at[..., ind:ind + spec.num_dimensions].set(jnp.eye(spec.num_dimensions)[features.categorical[..., cat_ind]])' in tu \
      and 'ind += spec.num_dimensions' in tu
  ctx.check(walk and cont_at_ind and onehot_at_ind, 'R6', 'unmap(): the same walk writes each block at its own offset', un.node,
            'continuous value at ind, one-hot block at ind:ind+n, in output_specs order',
            'unmap() does not place continuous and one-hot blocks at the offsets map() reads them from (e.g. assumes continuous '
            'columns come first): unmap(map(x)) != x when a one-hot parameter precedes a continuous one',
            construct='unmap', func=un.qualname)


VARIANTS = [
    Variant('linear-plus-low-sign', CORE, 'unscale_fn = lambda x, high=high, low=low: x * (high - low) + low',
            'unscale_fn = lambda x, high=high, low=low: x * (high - low) - low', rule='R1'),
    Variant('reverse-log-drop-one-minus', CORE, '        return 1.0 - (np.log(raw_sum - x) - low) / denom',
            '        return (np.log(raw_sum - x) - low) / denom', rule='R1'),
    Variant('degenerate-isclose', CORE, '    if low == high:\n\n      def backward_fn(y):', '    if np.isclose(low, high):\n\n      def backward_fn(y):', rule='R1'),
    Variant('clip-lower-twice', CORE,
            '            np.float64(self._parameter_config.bounds[0]),\n            np.float64(self._parameter_config.bounds[1]),',
            '            np.float64(self._parameter_config.bounds[0]),\n            np.float64(self._parameter_config.bounds[0]),', rule='R3'),
    Variant('argmax-all-columns', CORE,
            '          x[:, : output_spec.num_dimensions - output_spec.num_oovs], axis=1', '          x, axis=1', rule='R2'),
    Variant('to-metrics-other-sign', CORE,
            '    labels = labels * (-1 if self._should_flip_sign else 1)\n    metrics = [',
            '    labels = labels * (1 if self._should_flip_sign else -1)\n    metrics = [', rule='R4'),
    Variant('benign-log-rewrite', CORE, 'scale_fn = lambda x, low=low, denom=denom: (np.log(x) - low) / denom',
            'scale_fn = lambda x, low=low, denom=denom: np.log(x) / denom - low / denom', expect='silent'),
]
