"""C05 — SQL-backed service survives a crash at any point.

Decides the *transaction shape* that crash-atomicity and
acknowledged-implies-durable rest on (SQLite's journal is trusted):
  R1 every SQLDataStore method commits all its writes exactly once, on every
     normal path, and never commits between two writes;
  R2 no exceptional exit leaves uncommitted writes on the shared connection
     (they would be committed by the next call: a torn update);
  R3 write statements go through the rollback wrapper (sibling cross-check);
  R4 single-resource RPCs perform at most one datastore mutator call per path;
  R6 trial ids are allocated from a table query in the same RPC (restart
     continuity), and max_trial_id is a query, not an in-memory counter.
"""

from __future__ import annotations

import ast
from typing import Dict, FrozenSet, List, Optional, Set, Tuple

from vzstatic import cfg as cfgmod
from vzstatic import flow
from vzstatic.index import FuncInfo, dotted
from vzstatic.selftest import Variant
from vzstatic.source import AnalysisError, ancestors, loc, unparse
from vzstatic.svc import Svc, where

MANIFEST = {
    'technique': ('transaction typestate (clean/dirty/committed) by abstract interpretation '
                  'over exception-aware CFGs of every SQLDataStore method; query kind by '
                  'provenance; path counting of mutator calls per RPC'
                  '; start-up closure of the constructor is write-free; private datastore helpers inlined into the transaction typestate'
                  '; closed keyword surface of create_engine (incl. **kwargs followed to their dict) and SQLite durability pragmas; wrapper must raise after rollback'),
    'level_text': (
        'Static: every SQLDataStore method wraps all its writes in exactly one transaction on '
        'every normal path and rolls back before every exceptional exit; every single-resource '
        'RPC performs at most one datastore mutation; ids come from a table query. These shape '
        'conditions are what crash atomicity and durability-of-acknowledged-calls reduce to, '
        'given SQLite transactions. The crash itself is not simulated.'),
    'level_note': (
        'Trusted: a committed SQLite transaction is durable and atomic; Connection.execute of a '
        'failing statement leaves earlier uncommitted statements pending; rollback() discards '
        'them. SuggestTrials/CheckTrialEarlyStoppingState are exempt from atomicity by the '
        'property. Not decided: that clients can continue after restart (dynamic).'),
}

MULTI_CALL_RPCS = {'SuggestTrials', 'CheckTrialEarlyStoppingState'}


def query_kinds(fi: FuncInfo, g: cfgmod.CFG, rd: flow.ReachingDefs) -> Dict[str, str]:
  """local query variable -> 'write' | 'read' (by how it was built)."""
  kinds: Dict[str, str] = {}
  prov = flow.Provenance(g, rd)
  for n in g.nodes:
    for d in rd.gen[n.id]:
      if d.kind != 'assign' or d.value is None:
        continue
      k = None
      for c in flow.calls_in(d.value):
        dd = dotted(c.func) or ''
        if isinstance(c.func, ast.Attribute) and c.func.attr in ('insert', 'delete') and not c.args:
          k = 'write'
        elif dd in ('sqla.update', 'sqlalchemy.update', 'sqla.insert', 'sqla.delete'):
          k = 'write'
        elif dd in ('sqla.select', 'sqlalchemy.select', 'sqla.exists'):
          k = k or 'read'
      if k is None:
        # q = q.where(...): inherits
        for nm in flow.names_in(d.value):
          if nm in kinds:
            k = kinds[nm]
      if k is not None:
        if kinds.get(d.name) == 'write' and k == 'read':
          continue
        kinds[d.name] = k
  return kinds


class TxnAnalysis:
  CLEAN, DIRTY, COMMITTED = 'clean', 'dirty', 'committed'

  def __init__(self, ctx, svc: Svc, fi: FuncInfo, wrapper_rolls_back: bool, wrapper_name: str):
    self.ctx, self.svc, self.fi = ctx, svc, fi
    self.g = cfgmod.CFG(fi.node)
    self.rd = flow.ReachingDefs(self.g)
    self.kinds = query_kinds(fi, self.g, self.rd)
    self.wrapper = wrapper_name
    self.wrapper_rolls_back = wrapper_rolls_back
    self.node_ev: Dict[int, List[Tuple[str, ast.Call]]] = {}
    for n in self.g.nodes:
      self.node_ev[n.id] = self._events(n)
    self.g.add_exception_edges(self._raise_model, self._catches)

  def _arg_kind(self, c: ast.Call) -> str:
    if not c.args:
      return 'read'
    a = c.args[0]
    if isinstance(a, ast.Name):
      return self.kinds.get(a.id, 'read')
    for cc in flow.calls_in(a):
      dd = dotted(cc.func) or ''
      if (isinstance(cc.func, ast.Attribute) and cc.func.attr in ('insert', 'delete')) or dd.endswith('.update'):
        return 'write'
    return 'read'

  def _events(self, n: cfgmod.Node) -> List[Tuple[str, ast.Call]]:
    evs = []
    if n.kind in ('entry', 'exit', 'raise'):
      return evs
    for c in flow.node_calls(n):
      d = dotted(c.func) or ''
      if self.wrapper and d == self.wrapper:
        evs.append(('wwrite', c))
      elif d.endswith('_connection.execute') and d.startswith('self.'):
        if self._arg_kind(c) == 'write':
          evs.append(('dwrite', c))
        else:
          evs.append(('read', c))
      elif d.endswith('_connection.commit') and d.startswith('self.'):
        evs.append(('commit', c))
      elif d.endswith('_connection.rollback') and d.startswith('self.'):
        evs.append(('rollback', c))
      elif d.startswith('self.') and d.count('.') == 1 and d[5:] in self.svc.sql.methods and d[5:] != self.fi.name \
          and getattr(self, '_depth', 0) < 3:
        # a private helper of the datastore: its statements happen here (source order; helpers are straight-line)
        h = self.svc.sql.methods[d[5:]]
        if h.name.startswith('_') and not h.name.startswith('__'):
          sub = TxnAnalysis.__new__(TxnAnalysis)
          sub.ctx, sub.svc, sub.fi = self.ctx, self.svc, h
          sub.g = cfgmod.CFG(h.node)
          sub.rd = flow.ReachingDefs(sub.g)
          sub.kinds = query_kinds(h, sub.g, sub.rd)
          # a query passed as argument keeps the caller's kind
          for i, a in enumerate(c.args):
            if isinstance(a, ast.Name) and a.id in self.kinds and i + 1 < len(h.params) + 1:
              ps = [p for p in h.params if p != 'self']
              if i < len(ps):
                sub.kinds[ps[i]] = self.kinds[a.id]
          sub.wrapper, sub.wrapper_rolls_back = self.wrapper, self.wrapper_rolls_back
          sub._depth = getattr(self, '_depth', 0) + 1
          for hn in sorted((x for x in sub.g.nodes if x.ast is not None), key=lambda x: (getattr(x.ast, 'lineno', 0), x.id)):
            for k, cc in sub._events(hn):
              evs.append((k, c))
    return evs

  def _raise_model(self, n: cfgmod.Node):
    out = []
    if n.kind == 'stmt' and isinstance(n.ast, ast.Raise):
      if n.ast.exc is None:
        out.append('*')
      else:
        e = n.ast.exc.func if isinstance(n.ast.exc, ast.Call) else n.ast.exc
        if isinstance(e, ast.Name) and e.id in {h.ast.name for h in self.g.nodes if h.kind == 'handler' and h.ast.name}:
          out.append('*')
        else:
          out.append(self.ctx.lattice.name_of(self.fi.module, e))
    for kind, c in self.node_ev.get(n.id, []):
      if kind in ('wwrite', 'dwrite'):
        out.append('sqlalchemy.exc.DatabaseError')
    return out

  def _catches(self, h, exc, node):
    return self.ctx.lattice.catches(self.fi.module, h, exc)

  def _apply(self, n: cfgmod.Node, st: str, record=None) -> str:
    for kind, c in self.node_ev.get(n.id, []):
      if kind in ('wwrite', 'dwrite'):
        if st == self.COMMITTED and record is not None:
          record('second-transaction', n, c)
        st = self.DIRTY
      elif kind == 'commit':
        st = self.COMMITTED if st == self.DIRTY else st
      elif kind == 'rollback':
        st = self.CLEAN
    return st

  def run(self):
    problems = []

    def transfer(node, states, succ, label):
      if node.kind in ('entry', 'exit', 'raise'):
        return states
      if isinstance(label, tuple) and label[0] == 'exc':
        evs = self.node_ev.get(node.id, [])
        out = set()
        for st in states:
          if any(k == 'wwrite' for k, _ in evs) and label[1] == 'sqlalchemy.exc.DatabaseError' and self.wrapper_rolls_back:
            out.add(self.CLEAN)  # the wrapper rolled back before re-raising
          else:
            out.add(st)
        return frozenset(out)
      return frozenset(self._apply(node, st) for st in states)

    self.state = cfgmod.forward(self.g, frozenset([self.CLEAN]), transfer, lambda a, b: a | b)
    return self


def run(ctx) -> None:
  svc = Svc(ctx)
  ctx.rule('R1', 'every SQLDataStore method commits all its writes exactly once on every normal '
           'path (no uncommitted write at return, no commit between two writes)', 20)
  ctx.rule('R2', 'no exceptional exit of a SQLDataStore method leaves uncommitted writes on the '
           'shared connection (rollback precedes the raise)', 10)
  ctx.rule('R3', 'write statements are issued through the rollback wrapper', 10)
  ctx.rule('R4', 'single-resource RPCs perform at most one datastore mutator call on any path', 9)
  ctx.rule('R6', 'trial ids derive from a max_trial_id table query in the same RPC; '
           'SQL max_trial_id returns a query result', 4)
  ctx.rule('R7', 'the SQL engine/connection is not put into autocommit: explicit commit() is the only '
           'durability point (the transaction shape of R1/R2 is meaningless otherwise)', 1)
  ctx.rule('R8', 'opening the datastore (constructor and what it calls) writes no rows', 1)
  ctx.import_rules('C07', {'R4', 'R8'}, 'R9', 'acknowledged rows are not removed by an operation on another study: exact key filters, exact cascade')
  ctx.import_rules('C01', {'R1'}, 'R10', 'what the servicer writes back is the row it loaded in the same RPC (no in-process copy that outlives a request)')
  ctx.trust('SQLite: commit() makes all pending statements durable atomically; rollback() discards them')
  r7_engine_config(ctx, svc)
  sql = svc.sql
  # wrapper summary: _write_or_rollback rolls back on every exceptional path
  wrapper = svc.sql_wrapper().fi
  wrapper_call = svc.sql_wrapper().call_name
  rolls = False
  if wrapper is not None:
    rolls = _wrapper_rolls_back(ctx, wrapper)
    ctx.check(rolls, 'R2', f'{wrapper.name}: rollback before re-raise', wrapper.node,
              'every exceptional path of the wrapper calls rollback() before raising',
              'the write wrapper can re-raise without rollback()', construct='wrapper', func=wrapper.qualname)
    # a rollback discards *all* pending statements of the caller's transaction: afterwards the wrapper may only raise
    gw = cfgmod.CFG(wrapper.node)
    rbs = [n for n in gw.nodes if any((dotted(c.func) or '').endswith('.rollback') for c in flow.node_calls(n))]
    carries_on = [n for n in rbs if gw.exit in gw.reachable([n], include_starts=False) or
                  any(any(isinstance(c.func, ast.Attribute) and c.func.attr == 'execute' for c in flow.node_calls(m))
                      for m in gw.reachable([n], include_starts=False))]
    ctx.check(not carries_on, 'R2', f'{wrapper.name}: nothing but a raise follows rollback()', wrapper.node,
              'every path from rollback() ends in a raise',
              'after rollback() the wrapper can return normally or execute again (a retry): the rollback has already discarded the '
              "caller's earlier pending writes, so the call then commits and acknowledges an update of which only the last statements exist",
              construct='wrapper:continues-after-rollback', func=wrapper.qualname)
  else:
    ctx.info('no rollback wrapper in SQLDataStore: every write is a direct execute and R2 is decided on the '
             'exception edges of each method')

  n_writes = n_commits = n_rollbacks = 0
  for m in svc.ds_abstract:
    impl = sql.methods.get(m.name)
    if impl is None:
      raise AnalysisError(f'SQLDataStore lacks {m.name}')
    ta = TxnAnalysis(ctx, svc, impl, rolls, wrapper_call).run()
    nn, ne = ta.g.stats()
    ctx.count('cfg_nodes', nn)
    ctx.count('cfg_edges', ne)
    evs = [e for n in ta.g.nodes for e in ta.node_ev.get(n.id, [])]
    n_writes += sum(1 for k, _ in evs if k in ('wwrite', 'dwrite'))
    n_commits += sum(1 for k, _ in evs if k == 'commit')
    n_rollbacks += sum(1 for k, _ in evs if k == 'rollback')
    # R1: normal exit
    bad_exit = []
    for p, lab in ta.g.exit.preds:
      if p.id not in ta.state:
        continue
      outs = {ta._apply(p, st) for st in ta.state[p.id]}
      if TxnAnalysis.DIRTY in outs:
        bad_exit.append(p)
    second = []
    for n in ta.g.nodes:
      if n.id in ta.state:
        for st in ta.state[n.id]:
          ta._apply(n, st, record=lambda k, nn_, c: second.append(nn_))
    is_writer = any(k in ('wwrite', 'dwrite') for k, _ in evs)
    if bad_exit:
      p = bad_exit[0]
      path = ta.g.path(ta.g.entry, p)
      ctx.bad('R1', f'SQL.{m.name}: committed at return', where(impl, p),
              'a normal path returns with uncommitted writes pending on the shared connection: '
              'the change is acknowledged but not durable (lost on crash, or rolled back by the '
              'next failing call)', construct='uncommitted at return', func=impl.qualname,
              path=(path or [])[-8:])
    elif second:
      ctx.bad('R1', f'SQL.{m.name}: single transaction', where(impl, second[0]),
              'a write follows a commit in the same call: a crash between the two leaves a torn update',
              construct='write after commit', func=impl.qualname)
    else:
      ctx.ok('R1', f'SQL.{m.name}', impl.node,
             'all writes committed once on every normal path' if is_writer else 'read-only')
    # R2: exceptional exits
    for p, lab in ta.g.raise_exit.preds:
      if p.id not in ta.state:
        continue
      # state on that edge
      evs_p = ta.node_ev.get(p.id, [])
      dirty = False
      for st in ta.state[p.id]:
        if any(k == 'wwrite' for k, _ in evs_p) and lab[1] == 'sqlalchemy.exc.DatabaseError' and rolls:
          continue
        if st == TxnAnalysis.DIRTY:
          dirty = True
      ctx.check(not dirty, 'R2', f'SQL.{m.name}: raise at line {p.lineno}', where(impl, p),
                f'exits by {lab[1]} with nothing pending',
                f'exits by {lab[1]} while earlier writes of this call are uncommitted and not rolled '
                'back: the next call\'s commit on the shared connection persists a partial update',
                construct=f'{_short(p)} -> {lab[1]}', func=impl.qualname)
    # R3: direct writes
    for n in ta.g.nodes:
      for k, c in ta.node_ev.get(n.id, []):
        if k == 'wwrite':
          ctx.ok('R3', f'SQL.{m.name}: write via wrapper', where(impl, n))
        elif k == 'dwrite':
          # deviation: allowed only as information when it is the only write (R2 holds trivially)
          o = ctx.obligations
          ctx.info(f'R3 deviation (information): {impl.qualname} issues a write with a bare '
                   f'connection.execute at {where(impl, n)}')
          ctx.ok('R3', f'SQL.{m.name}: bare execute', where(impl, n),
                 'bare execute of a write; acceptable because R2 holds on this path')
  ctx.count('sql_write_statements', n_writes)
  ctx.count('sql_commits', n_commits)
  ctx.count('sql_rollbacks', n_rollbacks)
  if n_writes < 10 or n_commits < 1:
    raise AnalysisError(f'SQL statements recognised: {n_writes} writes, {n_commits} commits '
                        '(14 / 11 on the pinned tree) — matcher rot')

  r4_one_mutation(ctx, svc)
  r6_ids(ctx, svc)
  r8_startup_readonly(ctx, svc, rolls, wrapper_call)


def r8_startup_readonly(ctx, svc: Svc, rolls: bool, wrapper_name: str) -> None:
  """Opening the database changes no row: the constructor (and every private method it reaches) creates the
  schema only.  A start-up "repair" pass rewrites acknowledged state after exactly the crashes the property is about."""
  sql = svc.sql
  init = sql.methods.get('__init__')
  if init is None:
    raise AnalysisError('SQLDataStore.__init__ not found')
  todo, seen = [init], set()
  n_exec = 0
  while todo:
    m = todo.pop()
    if m.qualname in seen:
      continue
    seen.add(m.qualname)
    ta = TxnAnalysis(ctx, svc, m, rolls, wrapper_name)
    writes = [(k, c) for n in ta.g.nodes for k, c in ta.node_ev.get(n.id, []) if k in ('wwrite', 'dwrite', 'commit')]
    n_exec += len([1 for n in ta.g.nodes for k, c in ta.node_ev.get(n.id, [])])
    ctx.check(not writes, 'R8', f'start-up: {m.name}', writes[0][1] if writes else m.node,
              'no row write and no commit when the datastore is opened',
              f'{m.name}() runs when the datastore is opened and rewrites rows ({unparse(writes[0][1], 60) if writes else ""}): after a crash '
              'the restarted server no longer shows what was acknowledged before it (e.g. trials handed out by completed '
              'operations are taken back)', construct=f'startup-write:{m.name}', func=m.qualname)
    for c in flow.calls_in(m.node):
      d = dotted(c.func) or ''
      if d.startswith('self.') and d.count('.') == 1 and d[5:] in sql.methods and d[5:] not in ('__init__',):
        todo.append(sql.methods[d[5:]])
  creates = any((dotted(c.func) or '').endswith('create_all') for c in flow.calls_in(init.node))
  if not creates:
    raise AnalysisError('SQLDataStore.__init__: schema creation (create_all) not found')


def r7_engine_config(ctx, svc: Svc) -> None:
  n_engines = 0
  files = ['vizier/_src/service/vizier_service.py', 'vizier/_src/service/sql_datastore.py',
           'vizier/_src/service/vizier_server.py', 'vizier/_src/service/constants.py']
  for f in files:
    tree = ctx.src.parse(f)
    for c in ast.walk(tree):
      if not isinstance(c, ast.Call):
        continue
      d = dotted(c.func) or ''
      is_engine = d.endswith('create_engine')
      is_opts = isinstance(c.func, ast.Attribute) and c.func.attr in ('execution_options', 'connect')
      if not (is_engine or is_opts):
        continue
      if is_engine:
        n_engines += 1
      bad = None
      for k in c.keywords:
        txt = unparse(k.value, limit=0).upper()
        if k.arg in ('isolation_level', 'autocommit') and ('AUTOCOMMIT' in txt or txt == 'TRUE'):
          bad = k
        if k.arg in ('execution_options', 'connect_args') and 'AUTOCOMMIT' in txt:
          bad = k
      if is_engine and bad is None:
        # keyword arguments that are not spelled out (`**kwargs`) are followed to the dict they come from
        fn_ = next((a for a in ancestors(c) if isinstance(a, ast.FunctionDef)), tree)
        for k in c.keywords:
          if k.arg is not None:
            continue
          keys = set()
          if isinstance(k.value, ast.Dict):
            keys |= {x.value for x in k.value.keys if isinstance(x, ast.Constant)}
          elif isinstance(k.value, ast.Name):
            for x in ast.walk(fn_):
              if isinstance(x, ast.Assign) and any(isinstance(t, ast.Name) and t.id == k.value.id for t in x.targets) \
                  and isinstance(x.value, ast.Dict):
                keys |= {y.value for y in x.value.keys if isinstance(y, ast.Constant)}
                if any(y is None for y in x.value.keys):
                  keys.add('?')
              elif isinstance(x, ast.Assign) and any(isinstance(t, ast.Subscript) and isinstance(t.value, ast.Name)
                                                    and t.value.id == k.value.id for t in x.targets):
                for t in x.targets:
                  if isinstance(t, ast.Subscript):
                    keys.add(t.slice.value if isinstance(t.slice, ast.Constant) else '?')
              elif isinstance(x, ast.Call) and isinstance(x.func, ast.Attribute) and isinstance(x.func.value, ast.Name) \
                  and x.func.value.id == k.value.id and x.func.attr in ('update', 'setdefault'):
                keys.add('?')
          else:
            keys.add('?')
          if keys & {'isolation_level', 'autocommit', 'execution_options', '?'}:
            bad = k
      if is_engine or bad is not None:
        ctx.check(bad is None, 'R7', f'{f}: {d or c.func.attr}(...)', c,
                  'transactional (no autocommit)',
                  f'`{unparse(bad, limit=80) if bad else ""}` makes every statement commit on its own: '
                  'delete_study / update_metadata stop being atomic (a crash between two statements '
                  'leaves a torn update)', construct=bad if bad is not None else c, func=f)
  if n_engines < 1:
    raise AnalysisError('no sqlalchemy create_engine call found in the service package')
  # SQLite durability pragmas: the rollback journal / synchronous writes are what makes a multi-statement
  # transaction all-or-nothing across a crash
  import re as _re
  for f in files:
    tree = ctx.src.parse(f)
    for x in ast.walk(tree):
      if isinstance(x, ast.Constant) and isinstance(x.value, str) and 'pragma' in x.value.lower():
        m = _re.search(r'pragma\s+(journal_mode|synchronous|locking_mode)\s*=\s*(\w+)', x.value, _re.I)
        weak = m is not None and (
            (m.group(1).lower() == 'journal_mode' and m.group(2).upper() in ('MEMORY', 'OFF')) or
            (m.group(1).lower() == 'synchronous' and m.group(2).upper() in ('OFF', '0')))
        ctx.check(not weak, 'R7', f'{f}: `{x.value[:50]}`', x, 'durability-neutral pragma',
                  f'`{x.value[:60]}` removes the on-disk rollback journal / synchronous writes: a crash inside a transaction that has '
                  'already spilled pages to the database file (a large delete_study / update_metadata) leaves a torn, unrecoverable update',
                  construct=f'pragma:{x.value[:40]}', func=f)


def _short(n: cfgmod.Node) -> str:
  a = n.ast
  if isinstance(a, ast.Raise):
    e = a.exc.func if isinstance(a.exc, ast.Call) else a.exc
    return 'raise ' + (dotted(e) or '?') if e is not None else 'raise'
  calls = [dotted(c.func) or '?' for c in flow.node_calls(n)]
  return 'call ' + ','.join(calls[:2]) if calls else type(a).__name__


def _wrapper_rolls_back(ctx, wrapper: FuncInfo) -> bool:
  g = cfgmod.CFG(wrapper.node)

  def rm(n):
    out = []
    if n.kind == 'stmt' and isinstance(n.ast, ast.Raise):
      out.append('*')
    for c in flow.node_calls(n):
      if isinstance(c.func, ast.Attribute) and c.func.attr == 'execute':
        out.append('sqlalchemy.exc.DatabaseError')
    return out

  g.add_exception_edges(rm, lambda h, exc, node: ctx.lattice.catches(wrapper.module, h, exc))
  rb = [n for n in g.nodes if any((dotted(c.func) or '').endswith('.rollback') for c in flow.node_calls(n))]
  if not rb:
    return False
  # can the exceptional exit be reached from the execute without passing a rollback?
  reach = g.reachable([g.entry], blocked=rb, include_starts=True)
  return g.raise_exit not in reach


def r4_one_mutation(ctx, svc: Svc) -> None:
  for name, fi in svc.rpcs.items():
    if name in MULTI_CALL_RPCS:
      continue
    g = svc.rpc_cfg(fi)
    count: Dict[int, int] = {}

    def muts(n):
      return sum(1 for c in flow.node_calls(n) if svc.ds_call(c) and svc.is_mutator(svc.ds_call(c)))

    def transfer(node, st, succ, label):
      if node.kind in ('entry', 'exit', 'raise'):
        return st
      return min(st + muts(node), 2)

    state = cfgmod.forward(g, 0, transfer, max)
    worst = 0
    wn = None
    for n in g.nodes:
      if n.id in state and n.kind not in ('entry', 'exit', 'raise'):
        v = min(state[n.id] + muts(n), 2)
        if v > worst:
          worst, wn = v, n
    ctx.check(worst <= 1, 'R4', f'{name}: datastore mutations per path', wn.ast if wn is not None else fi.node,
              f'at most {worst} datastore mutator call on any path',
              'two datastore mutator calls can run in one call of a single-resource RPC: a crash '
              'between them applies the call partially', construct=wn.ast if wn is not None else name,
              func=fi.qualname)


def r6_ids(ctx, svc: Svc) -> None:
  # SQL max_trial_id returns a query result
  impl = svc.sql.methods.get('max_trial_id')
  if impl is None:
    raise AnalysisError('SQLDataStore.max_trial_id missing')
  g = cfgmod.CFG(impl.node)
  prov = flow.Provenance(g)
  ok = False
  for n in g.nodes:
    if n.kind == 'stmt' and isinstance(n.ast, ast.Return) and n.ast.value is not None:
      o = prov.origins(n.ast.value, n)
      if any(k == 'call' and (dotted(v.func) or '').endswith('_connection.execute') for k, v in o):
        ok = True
  ctx.check(ok, 'R6', 'SQL.max_trial_id is a table query', impl.node,
            'return value derives from connection.execute(max(trial_id))',
            'max_trial_id does not derive from a table query (an in-memory counter does not survive a restart)',
            construct='max_trial_id', func=impl.qualname)
  # every create_trial(x) in the servicer: x.id derives from max_trial_id in the same RPC
  n_sites = 0
  for name, fi in svc.rpcs.items():
    g = cfgmod.CFG(fi.node)
    rd = flow.ReachingDefs(g)
    prov = flow.Provenance(g, rd)
    for n in g.nodes:
      for c in flow.node_calls(n):
        if svc.ds_call(c) == 'create_trial' and c.args and isinstance(c.args[0], ast.Name):
          n_sites += 1
          x = c.args[0].id
          id_defs = [d for d in rd.at(n, x) if d.kind == 'attrstore'
                     and isinstance(g.nodes[d.node_id].ast, ast.Assign)
                     and any(isinstance(t, ast.Attribute) and t.attr == 'id' and isinstance(t.value, ast.Name)
                             and t.value.id == x for t in g.nodes[d.node_id].ast.targets)]
          good = bool(id_defs)
          for d in id_defs:
            o = prov.origins(d.value, g.nodes[d.node_id])
            if not any(k == 'call' and svc.ds_call(v) == 'max_trial_id' for k, v in o):
              good = False
          ctx.check(good, 'R6', f'{name}: id of created trial', where(fi, n),
                    'id = max_trial_id(study) + 1 read from the datastore in this RPC',
                    'id of a created trial does not derive from a datastore max_trial_id read',
                    construct=c, func=fi.qualname)
  if n_sites < 3:
    raise AnalysisError(f'only {n_sites} create_trial sites found in the servicer')


_SQL = 'vizier/_src/service/sql_datastore.py'
_SVC = 'vizier/_src/service/vizier_service.py'
VARIANTS = [
    Variant('commit-between-deletes', _SQL,
            '      self._write_or_rollback(dsq)\n      self._write_or_rollback(dtq)\n',
            '      self._write_or_rollback(dsq)\n      self._connection.commit()\n      self._write_or_rollback(dtq)\n',
            rule='R1'),
    Variant('drop-rollback-missing-trial', _SQL,
            "        if not row:\n          self._connection.rollback()\n          raise NotFoundError('No such trial:', trial_name)",
            "        if not row:\n          raise NotFoundError('No such trial:', trial_name)", rule='R2'),
    Variant('update-trial-no-commit', _SQL,
            "        raise NotFoundError('Trial %s does not exist.' % trial.name)\n      self._write_or_rollback(uq)\n      self._connection.commit()",
            "        raise NotFoundError('Trial %s does not exist.' % trial.name)\n      self._write_or_rollback(uq)",
            rule='R1'),
    Variant('commit-per-trial-metadata', _SQL,
            '        self._write_or_rollback(utq)\n',
            '        self._write_or_rollback(utq)\n        self._connection.commit()\n', rule='R1'),
    Variant('wrapper-no-rollback', _SQL,
            '    except sqla.exc.DatabaseError as e:\n      self._connection.rollback()\n      raise e',
            '    except sqla.exc.DatabaseError as e:\n      raise e', rule='R2'),
    Variant('second-mutator-complete', _SVC,
            '      self.datastore.update_trial(trial)\n    return trial\n\n  def DeleteTrial(',
            '      self.datastore.update_trial(trial)\n      self.datastore.update_metadata(study_name, [], [])\n    return trial\n\n  def DeleteTrial(',
            rule='R4'),
    Variant('id-from-counter', _SVC,
            '      trial.id = str(self.datastore.max_trial_id(request.parent) + 1)',
            '      self._next_id = getattr(self, "_next_id", 0) + 1\n      trial.id = str(self._next_id)', rule='R6'),
    Variant('engine-autocommit', _SVC,
            "          poolclass=sqla.pool.StaticPool,\n",
            "          poolclass=sqla.pool.StaticPool,\n          isolation_level='AUTOCOMMIT',\n", rule='R7'),
    Variant('benign-rename-query', _SQL, 'dsq', 'delete_study_query', expect='silent', count=4),
]
