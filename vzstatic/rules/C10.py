"""C10 — metadata is an exact last-writer-wins key-value store across namespaces.

Structural clauses decided:
  R1 namespace codec: the escape table covers the separator *and* the escape
     character (an escape-based encoding is injective only then); decode strips
     at most ONE leading separator; encode emits one separator per component
     through the same table;
  R2 upsert key: merge_study_metadata / merge_trial_metadata key both the
     existing and the new entries by the pair (ns, key) of the same element,
     existing first, new second, and write the result back once;
  R3 failed updates change nothing and are reported: RAM all-or-nothing
     (C07.R3), SQL rollback (C05.R2), UpdateMetadata turns the failure into
     error_details;
  R4 policies persist state only below their reserved namespace root;
  R5 namespaces cross the wire only through Namespace.encode / decode;
  R6 the servicer forwards every algorithm-issued metadata delta to the
     datastore unconditionally (no truthiness shortcut on the delta), and
     value assignment distinguishes str / Any / Message in that order.
"""

from __future__ import annotations

import ast
from typing import Dict, List, Optional, Set

from vzstatic import cfg as cfgmod
from vzstatic import flow
from vzstatic.index import FuncInfo, dotted
from vzstatic.rules import C05, C07
from vzstatic.selftest import Variant
from vzstatic.source import AnalysisError, ancestors, loc, unparse
from vzstatic.svc import Svc, where

MANIFEST = {
    'technique': ('escape-table completeness check on the namespace codec (class constant '
                  'evaluated from the source), structural upsert-key rule on the two merge '
                  'functions, reuse of the datastore atomicity analyses, namespace-root dataflow '
                  'in the designer policies, encode/decode pairing at every KeyValue.ns site'
                  '; keyed fill events of the merge dictionary (loops or dict comprehensions); scenario evaluation of the value-type dispatch; provenance of the forwarded algorithm delta (no filtering); shared C04.R1/R4'
                  '; presence-vs-truthiness lint for trial ids in metadata helpers; finite-model interpretation of Namespace.encode and _parse (string interpreter) over 170 component tuples: _parse(encode(t)) == t'),
    'level_text': (
        'Static: the namespace encoding escapes everything it must to be injective, metadata '
        'merges upsert by (namespace, key) with new-over-old order, failed updates are atomic '
        'and reported, algorithm state stays under reserved roots, and every wire crossing '
        'uses the codec. Each is necessary for "exactly the value written last per (namespace, '
        'key)". The map equality over all update sequences is not decided.'),
    'level_note': ('Concurrency of merges is C04; proto field coverage of KeyValue is C09. Trusted: '
                   'str.translate / dict assignment semantics.'),
}

COMMON = 'vizier._src.pyvizier.shared.common'
MDUTIL = 'vizier._src.pyvizier.oss.metadata_util'


def run(ctx) -> None:
  ctx.rule('R1', 'namespace codec: escape table covers separator and escape character; decode strips '
           'at most one leading separator; encode uses the table for every component', 3)
  ctx.rule('R2', 'merge functions upsert by (ns, key): existing entries first, new entries second, '
           'one write-back', 2)
  ctx.rule('R3', 'a metadata update naming a missing trial changes nothing and is reported', 3)
  ctx.rule('R4', 'designer policies write their state only under their reserved namespace root', 1)
  ctx.rule('R5', 'KeyValue.ns is written from Namespace.encode() and read through Namespace.decode()', 2)
  ctx.import_rules('C07', {'R8', 'R9'}, 'R10', 'metadata is written to the addressed study / trial only: exact key filters (owner, study, trial) in the SQL backend')
  ctx.import_rules('C05', {'R1', 'R2'}, 'R9', 'an acknowledged metadata update is committed whole on the SQL backend (no write of the call is rolled back or left pending)')
  ctx.import_rules('C04', {'R1', 'R4'}, 'R7', 'no lost metadata updates: whole-row read-modify-writes and metadata merges share a lock region')
  ctx.rule('R11', 'client handles read through: every materialize*() result comes from a service call made in that very call '
           '(no copy kept on the handle)', 3)
  ctx.rule('R8', 'whether a metadata update addresses a trial is decided by presence (`is None` / HasField), never by the truthiness '
           'of the trial id (trial id 0 is a valid id)', 1)
  ctx.rule('R6', 'algorithm-issued metadata deltas are always forwarded to the datastore; '
           '_assign_value tests str, then Any, then packs other messages', 3)
  r1_codec(ctx)
  r2_upsert(ctx)
  r2_every_new_entry(ctx)
  r3_atomic(ctx)
  r4_policy_ns(ctx)
  r5_pairing(ctx)
  r6_forwarding(ctx)
  r8_trial_id_presence(ctx)
  r11_clients_read_through(ctx)


# ----------------------------------------------------------------------- R1
def r1_codec(ctx) -> None:
  ns = ctx.index.need_class(f'{COMMON}.Namespace')
  cmod = ns.module

  def const_of(e):
    # a string constant, possibly through module-level / class-level names
    for _ in range(4):
      if isinstance(e, ast.Name) and e.id in cmod.assigns:
        e = cmod.assigns[e.id]
      elif isinstance(e, ast.Name) and e.id in ns.assigns:
        e = ns.assigns[e.id]
      elif isinstance(e, ast.Attribute) and isinstance(e.value, ast.Name) and e.value.id in ('self', 'cls', ns.name) and e.attr in ns.assigns:
        e = ns.assigns[e.attr]
      else:
        break
    if isinstance(e, ast.BinOp) and isinstance(e.op, ast.Add):
      l_, r_ = const_of(e.left), const_of(e.right)
      return l_ + r_ if l_ is not None and r_ is not None else None
    return e.value if isinstance(e, ast.Constant) and isinstance(e.value, str) else None
  # the escape table: a str.maketrans({...}) bound to a class attribute of Namespace or to a module-level name
  tables = {}
  for name, val in list(ns.assigns.items()) + list(cmod.assigns.items()):
    if isinstance(val, ast.Call) and (dotted(val.func) or '').endswith('maketrans') and val.args and isinstance(val.args[0], ast.Dict):
      tables[name] = val
  table_name, table = next(iter(tables.items()), (None, None))
  keys: Dict[str, str] = {}
  if table is not None:
    for k, v in zip(table.args[0].keys, table.args[0].values):
      kc, vc = const_of(k), const_of(v)
      if kc is not None and vc is not None:
        keys[kc] = vc
  if not keys or len(tables) != 1:
    raise AnalysisError('Namespace escape table (str.maketrans({...})) not found')
  enc = ns.methods.get('encode')
  if enc is None:
    raise AnalysisError('Namespace.encode not found')
  # separator = the constant prepended to each component in encode()
  sep = None

  def translated(e):
    """The `.translate(table)` call an operand denotes: directly, or as the element variable of a comprehension over a
    local list of translated components (`[sep + c for c in escaped]`, `escaped = [c.translate(t) for c in ...]`)."""
    if isinstance(e, ast.Call) and isinstance(e.func, ast.Attribute) and e.func.attr == 'translate':
      return e
    if isinstance(e, ast.Name):
      for comp in (x for x in ast.walk(enc.node) if isinstance(x, (ast.ListComp, ast.GeneratorExp))):
        for g_ in comp.generators:
          if isinstance(g_.target, ast.Name) and g_.target.id == e.id:
            src_ = flow.resolve_local(enc.node, g_.iter)
            if isinstance(src_, (ast.ListComp, ast.GeneratorExp)) and len(src_.generators) == 1 and not src_.generators[0].ifs \
                and not g_.ifs:
              return translated(src_.elt)
    return None
  for n in ast.walk(enc.node):
    if isinstance(n, ast.BinOp) and isinstance(n.op, ast.Add) and const_of(n.left) is not None and translated(n.right) is not None:
      sep = const_of(n.left)
      ok_table = any((dotted(a) or '').rsplit('.', 1)[-1] == table_name for a in translated(n.right).args)
      ctx.check(ok_table, 'R1', 'encode: every component goes through the escape table', n,
                'component.translate(_ns_repr_table) prefixed by the separator',
                'encode does not escape components with _ns_repr_table', construct=n, func=enc.qualname)
  if sep is None:
    ctx.bad('R1', 'encode: separator + escaped component', enc.node,
            'encode() does not build `<separator> + component.translate(table)` per component',
            construct='encode-shape', func=enc.qualname)
    return
  esc_chars = {v[0] for v in keys.values() if v}
  missing = [c for c in [sep] + sorted(esc_chars) if c not in keys]
  ctx.check(not missing, 'R1', 'escape table completeness', table,
            f'table escapes {sorted(keys)}',
            f'the escape table {keys!r} does not escape {missing!r}: with escape character '
            f'{sorted(esc_chars)!r} unescaped, a component ending in it followed by the separator encodes '
            "like an escaped separator — e.g. ('a\\\\', 'b') and ('a:b',) both encode to ':a\\\\:b', so "
            'two distinct namespaces collide and decode(encode(ns)) != ns',
            construct='escape-table', func=ns.qualname)
  _r1_codec_model(ctx, ns, cmod, enc, sep, keys)
  # decode strips at most one leading separator
  mod = ctx.index.need_module(COMMON)
  parse = mod.functions.get('_parse')
  if parse is None:
    raise AnalysisError('common._parse not found')
  bad = None
  for c in flow.calls_in(parse.node):
    if isinstance(c.func, ast.Attribute) and c.func.attr in ('lstrip', 'strip', 'rstrip') \
        and isinstance(c.func.value, ast.Name) and c.func.value.id in parse.params:
      bad = c
    if (dotted(c.func) or '').startswith('re.'):
      bad = bad or c
  ctx.check(bad is None, 'R1', 'decode strips at most one leading separator', parse.node,
            'prefix removal is a single-character slice / removeprefix',
            f'`{unparse(bad, limit=60) if bad else ""}` removes every leading separator: namespaces whose first '
            "components are empty (('', 'a') encodes to '::a') decode to a different namespace",
            construct=bad, func=parse.qualname)


def _r1_codec_model(ctx, ns, cmod, enc, sep: str, keys: Dict[str, str]) -> None:
  """Finite model of the codec: `encode` and `_parse` are interpreted on every tuple of up to two (some of three)
  components over {'', 'a', sep, 'a'+sep, sep+'a', sep+sep, 'a'+sep+'b'} (plus components with the escape character when
  the table escapes it); `_parse(encode(t)) == t` must hold for each.  Components containing an escape character the
  table does not escape are left out here: they are what the completeness obligation above reports."""
  import itertools as _it
  from vzstatic import pathcond
  parse = cmod.functions.get('_parse')
  if parse is None:
    raise AnalysisError('common._parse not found')
  base: Dict[str, object] = {}
  for st in cmod.tree.body:
    if isinstance(st, ast.Assign) and len(st.targets) == 1 and isinstance(st.targets[0], ast.Name):
      try:
        base[st.targets[0].id] = pathcond.neval(st.value, dict(base))
      except pathcond.NoValue:
        pass
  cls_env = dict(base)
  for k, v in ns.assigns.items():
    try:
      val = pathcond.neval(v, dict(cls_env))
    except pathcond.NoValue:
      continue
    for owner in ('self', 'cls', ns.name):
      cls_env[f'{owner}.{k}'] = val
    cls_env[k] = val
  esc = sorted({v[0] for v in keys.values() if v and v[0] != sep})
  comps = ['', 'a', sep, 'a' + sep, sep + 'a', sep + sep, 'a' + sep + 'b']
  for e_ in esc:
    if e_ in keys:
      comps += [e_, 'a' + e_, e_ + sep, e_ + e_, sep + e_]
  tuples = [()] + [(a,) for a in comps] + [(a, b) for a in comps for b in comps] + \
      [(a, b, c) for a in comps[:4] for b in comps[:4] for c in comps[:4]]
  self_tuple = next((unparse(x, 0) for x in ast.walk(enc.node) if isinstance(x, ast.Attribute) and isinstance(x.value, ast.Name)
                     and x.value.id == 'self' and 'tuple' in x.attr), 'self._as_tuple')
  helpers = {f.name: f.node for f in cmod.functions.values()}
  helpers.update({m.name: m.node for m in ns.methods.values()})
  bad = None
  for t in tuples:
    env = dict(cls_env)
    env[self_tuple] = tuple(t)
    env['__callhook__'] = pathcond.method_hook(helpers)
    try:
      code = pathcond.run_concrete(enc.node, env)
      env2 = dict(base)
      env2[parse.params[0]] = code
      env2['__callhook__'] = pathcond.method_hook(helpers)
      back = pathcond.run_concrete(parse.node, env2)
    except pathcond.LookupFailed as e:
      bad = (t, f'IndexError/KeyError at {e}')
      break
    except pathcond.Raised as e:
      bad = (t, f'raises {e}')
      break
    except pathcond.NoValue as e:
      raise AnalysisError(f'Namespace codec: outside the finite model ({e})')
    if not isinstance(code, str):
      raise AnalysisError('Namespace.encode does not evaluate to a string on the finite model')
    if tuple(back) if isinstance(back, (list, tuple)) else back != tuple(t):
      if (tuple(back) if isinstance(back, (list, tuple)) else back) != tuple(t):
        bad = (t, f'{code!r} -> {back!r}')
        break
  ctx.check(bad is None, 'R1', 'codec round trip on the finite component model', parse.node,
            f'_parse(encode(t)) == t for {len(tuples)} component tuples over {comps!r}',
            f'namespace {bad[0]!r} does not survive the round trip: {bad[1]}' if bad else '', construct='codec-model', func=parse.qualname)


# ----------------------------------------------------------------------- R2
def r2_upsert(ctx) -> None:
  mod = ctx.index.need_module(MDUTIL)
  for fname, elem_path in (('merge_study_metadata', ''), ('merge_trial_metadata', 'metadatum')):
    fi = mod.functions.get(fname)
    if fi is None:
      raise AnalysisError(f'{fname} not found')
    container = fi.params[0]
    newp = fi.params[1]
    # fill events of the merge dictionary, in source order: (line, iterated expr, key exprs, stored value, dict expr)
    stores = []
    for st in ast.walk(fi.node):
      if isinstance(st, ast.Assign) and len(st.targets) == 1 and isinstance(st.targets[0], ast.Subscript) \
          and isinstance(st.targets[0].slice, ast.Tuple):
        lp = next((a_ for a_ in ancestors(st) if isinstance(a_, ast.For)), None)
        if lp is not None:
          stores.append((st.lineno, lp.iter, st.targets[0].slice.elts, st.value, unparse(st.targets[0].value, 0)))
      if isinstance(st, (ast.Assign, ast.AnnAssign)) and isinstance(st.value, ast.DictComp) and isinstance(st.value.key, ast.Tuple) \
          and len(st.value.generators) == 1 and not st.value.generators[0].ifs:
        tgt = st.targets[0] if isinstance(st, ast.Assign) else st.target
        stores.append((st.lineno, st.value.generators[0].iter, st.value.key.elts, st.value.value, unparse(tgt, 0)))
      # D.update(((ns, key), kv) for kv in ITER) / D.update({(ns, key): kv for kv in ITER}) / D |= {...}
      upd = None
      if isinstance(st, ast.Expr) and isinstance(st.value, ast.Call) and isinstance(st.value.func, ast.Attribute) \
          and st.value.func.attr == 'update' and len(st.value.args) == 1:
        upd = (st.value.func.value, st.value.args[0])
      elif isinstance(st, ast.AugAssign) and isinstance(st.op, ast.BitOr):
        upd = (st.target, st.value)
      if upd is not None:
        dct, arg = upd
        if isinstance(arg, ast.DictComp) and isinstance(arg.key, ast.Tuple) and len(arg.generators) == 1 and not arg.generators[0].ifs:
          stores.append((st.lineno, arg.generators[0].iter, arg.key.elts, arg.value, unparse(dct, 0)))
        elif isinstance(arg, (ast.GeneratorExp, ast.ListComp)) and isinstance(arg.elt, ast.Tuple) and len(arg.elt.elts) == 2 \
            and isinstance(arg.elt.elts[0], ast.Tuple) and len(arg.generators) == 1 and not arg.generators[0].ifs:
          stores.append((st.lineno, arg.generators[0].iter, arg.elt.elts[0].elts, arg.elt.elts[1], unparse(dct, 0)))
    # one loop / comprehension over `itertools.chain(A, B)` fills the dictionary from A, then from B
    expanded = []
    for s_ in stores:
      it = s_[1]
      if isinstance(it, ast.Call) and (dotted(it.func) or '').endswith('chain') and it.args and not it.keywords \
          and not any(isinstance(a_, ast.Starred) for a_ in it.args):
        for k_, a_ in enumerate(it.args):
          expanded.append((s_[0] + k_ / 100.0, a_) + tuple(s_[2:]))
      else:
        expanded.append(s_)
    stores = expanded
    stores.sort(key=lambda x: x[0])
    problems = []
    if len(stores) < 2:
      problems.append('fewer than two keyed stores (existing entries, new entries)')
    else:
      (_, it0, k0, v0, d0), (_, it1, k1, v1, d1) = stores[0], stores[1]
      if d0 != d1:
        problems.append('the two loops fill different dictionaries')
      if not (dotted(it0) or '').startswith(container + '.'):
        problems.append('first loop does not iterate the existing metadata')
      if not (isinstance(it1, ast.Name) and it1.id == newp):
        problems.append('second loop does not iterate the new metadata (new must override old)')
      for which, (keys, val) in (('existing', (k0, v0)), ('new', (k1, v1))):
        kt = [unparse(k, 0) for k in keys]
        vt = unparse(val, 0)
        if len(kt) != 2 or not (kt[0] == f'{vt}.ns' and kt[1] == f'{vt}.key'):
          problems.append(f'{which} entries are keyed by ({", ".join(kt)}) instead of (<entry>.ns, <entry>.key) '
                          'of the stored entry itself')
    # one write-back: ClearField('metadata') then extend(...values())
    clears = [c for c in flow.calls_in(fi.node) if isinstance(c.func, ast.Attribute) and c.func.attr == 'ClearField'
              and c.args and isinstance(c.args[0], ast.Constant) and c.args[0].value == 'metadata']
    exts = [c for c in flow.calls_in(fi.node) if isinstance(c.func, ast.Attribute) and c.func.attr == 'extend'
            and (dotted(c.func.value) or '') == f'{container}.metadata']
    if len(clears) != 1 or len(exts) != 1:
      problems.append('metadata is not rewritten exactly once (ClearField + extend)')
    elif not any(isinstance(x, ast.Call) and isinstance(x.func, ast.Attribute) and x.func.attr == 'values'
                 for x in ast.walk(exts[0])):
      problems.append('write-back does not store the merged dictionary values')
    ctx.check(not problems, 'R2', fname, fi.node,
              'existing then new entries keyed by (ns, key); single write-back',
              '; '.join(problems) + ' — an update would overwrite or duplicate entries of other namespaces/keys',
              construct='; '.join(problems), func=fi.qualname)


# ----------------------------------------------------------------------- R3
def r3_atomic(ctx) -> None:
  svc = Svc(ctx)
  C07.r3_ram_atomic_metadata(_Relabel(ctx, 'R3'), svc)
  # SQL: reuse the transaction analysis on update_metadata only
  sql = svc.sql
  wrapper = svc.sql_wrapper().fi
  rolls = C05._wrapper_rolls_back(ctx, wrapper) if wrapper is not None else False
  impl = sql.methods['update_metadata']
  ta = C05.TxnAnalysis(ctx, svc, impl, rolls, svc.sql_wrapper().call_name).run()
  dirty_exit = None
  for p, lab in ta.g.raise_exit.preds:
    if p.id not in ta.state:
      continue
    evs = ta.node_ev.get(p.id, [])
    for st in ta.state[p.id]:
      if any(k == 'wwrite' for k, _ in evs) and lab[1] == 'sqlalchemy.exc.DatabaseError' and rolls:
        continue
      if st == C05.TxnAnalysis.DIRTY:
        dirty_exit = p
  ctx.check(dirty_exit is None, 'R3', 'SQL.update_metadata: failure rolls back', impl.node,
            'no exceptional exit leaves the study/trial writes pending',
            f'the raise at line {dirty_exit.lineno if dirty_exit else 0} leaves the already executed '
            'metadata writes pending on the shared connection: the failed update becomes visible and the '
            'next commit makes it durable', construct='dirty raise', func=impl.qualname)
  # servicer: UpdateMetadata reports the failure
  fi = svc.rpcs['UpdateMetadata']
  ok = False
  for t in ast.walk(fi.node):
    if isinstance(t, ast.Try) and any(svc.ds_call(c) == 'update_metadata' for st in t.body for c in flow.calls_in(st)):
      for h in t.handlers:
        if ctx.lattice.catches(fi.module, h, 'vizier._src.service.custom_errors.NotFoundError') == 'all':
          if any(isinstance(x, ast.keyword) and x.arg == 'error_details' for x in ast.walk(h)):
            ok = True
  ctx.check(ok, 'R3', 'UpdateMetadata reports a failed update', fi.node,
            'NotFoundError from the datastore becomes UpdateMetadataResponse.error_details',
            'a failed metadata update is not reported to the caller', construct='error_details', func=fi.qualname)


class _Relabel:
  """Context proxy that files obligations under another rule id."""

  def __init__(self, ctx, rule):
    self._ctx, self._rule = ctx, rule

  def __getattr__(self, name):
    return getattr(self._ctx, name)

  def ok(self, rule, *a, **k):
    return self._ctx.ok(self._rule, *a, **k)

  def bad(self, rule, *a, **k):
    return self._ctx.bad(self._rule, *a, **k)

  def check(self, cond, rule, *a, **k):
    return self._ctx.check(cond, self._rule, *a, **k)


# ----------------------------------------------------------------------- R4
def r4_policy_ns(ctx) -> None:
  mi = ctx.index.need_module('vizier._src.algorithms.policies.designer_policy')
  n = 0
  for ci in mi.classes.values():
    for m in ci.methods.values():
      deltas = set()
      for x in ast.walk(m.node):
        if isinstance(x, ast.Assign) and isinstance(x.value, ast.Call) and (dotted(x.value.func) or '').endswith('MetadataDelta'):
          for t in x.targets:
            if isinstance(t, ast.Name):
              deltas.add(t.id)
      for c in flow.calls_in(m.node):
        if not isinstance(c.func, ast.Attribute) or c.func.attr not in ('attach', 'update', '__setitem__', 'assign'):
          continue
        chain = unparse(c.func.value, 0)
        root = flow.root_name(c.func.value)
        if root not in deltas:
          continue
        n += 1
        ok = '.ns(self._ns_root)' in chain or '.ns(self._ns_root' in chain
        ctx.check(ok, 'R4', f'{ci.name}.{m.name}: write into the metadata delta', c,
                  'state is attached under .ns(self._ns_root)',
                  f'`{unparse(c, limit=80)}` writes algorithm state outside the reserved namespace root: it can '
                  'overwrite user entries of the root namespace', construct=c, func=m.qualname)
      for x in ast.walk(m.node):
        if isinstance(x, ast.Assign):
          for t in x.targets:
            if isinstance(t, ast.Subscript) and flow.root_name(t) in deltas:
              n += 1
              chain = unparse(t.value, 0)
              ctx.check('.ns(self._ns_root' in chain, 'R4', f'{ci.name}.{m.name}: item store into the delta', x,
                        'under the reserved root', 'item stored into the delta outside .ns(self._ns_root)',
                        construct=x, func=m.qualname)
    init = ci.methods.get('__init__')
    if init is not None:
      for a, d in zip(reversed(init.node.args.kwonlyargs), reversed(init.node.args.kw_defaults)):
        if a.arg == 'ns_root':
          if isinstance(d, ast.Name) and d.id in init.module.assigns:
            d = init.module.assigns[d.id]
          ok = isinstance(d, ast.Constant) and isinstance(d.value, str) and d.value != ''
          ctx.check(ok, 'R4', f'{ci.name}: default ns_root', init.node,
                    f'non-empty reserved root {d.value!r}' if ok else '',
                    'default namespace root of the policy state is empty (the user namespace)',
                    construct='ns_root default', func=init.qualname)
  if n < 1:
    raise AnalysisError('no write into a MetadataDelta found in designer_policy.py')


# ----------------------------------------------------------------------- R5
def r11_clients_read_through(ctx) -> None:
  from vzstatic import pathcond
  mod = ctx.index.need_module('vizier._src.service.clients')
  n = 0
  for ci in mod.classes.values():
    for m in ci.methods.values():
      if not m.name.startswith('materialize'):
        continue
      g = cfgmod.CFG(m.node)
      rets = [nd for nd in g.nodes if nd.kind == 'stmt' and isinstance(nd.ast, ast.Return) and nd.ast.value is not None]
      for r in rets:
        n += 1
        stale = None
        for pth in pathcond.paths(g, [g.entry], r):
          e = pathcond.substitute_on_path(pth, r.ast.value)
          if not any(isinstance(c, ast.Call) and (dotted(c.func) or '').startswith('self._client.') for c in ast.walk(e)):
            stale = stale or e
        ctx.check(stale is None, 'R11', f'{ci.name}.{m.name}: result read from the service', r.ast,
                  'on every path the returned value comes out of a self._client.* call',
                  f'on some path `{m.name}` returns `{unparse(stale, 60) if stale is not None else ""}`, a value kept on the handle: metadata (or anything else) '
                  'written to the trial / study by anyone since it was cached is not read back - the handle shows an older value than the last write',
                  construct=f'{ci.name}.{m.name}:cached', func=m.qualname)
  if n < 3:
    raise AnalysisError(f'only {n} materialize*() returns found in the client classes')


def r2_every_new_entry(ctx) -> None:
  """The merge stores every entry of the update: no entry is left out on its own content (size, namespace, value)."""
  mod = ctx.index.need_module(MDUTIL)
  n = 0
  for fname in ('merge_study_metadata', 'merge_trial_metadata'):
    fi = mod.functions.get(fname)
    if fi is None:
      raise AnalysisError(f'{fname} not found')
    newp = fi.params[1]
    g = cfgmod.CFG(fi.node)
    for lp in (x for x in ast.walk(fi.node) if isinstance(x, ast.For)):
      if not any(isinstance(y, ast.Name) and y.id == newp for y in ast.walk(lp.iter)):
        continue
      hdr = next((nd for nd in g.nodes if nd.kind == 'for' and nd.ast is lp), None)
      stores = [nd for nd in g.nodes if nd.loops and nd.loops[-1] is lp and nd.kind == 'stmt' and isinstance(nd.ast, ast.Assign)
                and any(isinstance(t, ast.Subscript) for t in nd.ast.targets)]
      if hdr is None or not stores:
        continue
      n += 1
      selecting = []
      for t in [nd for nd in g.nodes if nd.kind == 'test' and nd.loops and nd.loops[-1] is lp]:
        reach = {lab: any(s_ in g.reachable([m_ for m_, l2 in t.succs if l2 == lab], blocked=[hdr], include_starts=True) for s_ in stores)
                 for lab in ('T', 'F')}
        if reach['T'] != reach['F'] and 'trial_id' not in unparse(t.ast, 0):
          selecting.append(t)
      skipped = bool(selecting)
      ctx.check(not skipped, 'R2', f'{fname}: every entry of the update is stored', lp, 'each pass through the loop over the new entries stores one',
                'an entry of the update can be left out (a path through the loop stores nothing): the write is acknowledged but reading the '
                'key back gives the previous value', construct=f'{fname}:entry-skipped', func=fi.qualname)
    for x in ast.walk(fi.node):
      comp = x if isinstance(x, (ast.DictComp, ast.GeneratorExp, ast.ListComp)) else None
      if comp is not None and any(isinstance(y, ast.Name) and y.id == newp for gen in comp.generators for y in ast.walk(gen.iter)):
        n += 1
        filt = [gen for gen in comp.generators if gen.ifs]
        ctx.check(not filt, 'R2', f'{fname}: every entry of the update is stored (comprehension)', comp, 'no filter on the new entries',
                  f'`{unparse(comp, 70)}` filters the entries of the update: a filtered entry is acknowledged but never stored',
                  construct=f'{fname}:entry-filtered', func=fi.qualname)
  if n < 2:
    raise AnalysisError(f'merge functions: only {n} passes over the new entries found')


def r8_trial_id_presence(ctx) -> None:
  n = 0
  for q in ('vizier._src.pyvizier.oss.metadata_util', 'vizier._src.pyvizier.oss.proto_converters'):
    mi = ctx.index.need_module(q)
    fns = list(mi.functions.values()) + [m for ci in mi.classes.values() if 'Metadata' in ci.name for m in ci.methods.values()]
    for fi in fns:
      uses_id = any(isinstance(x, (ast.Name, ast.Attribute)) and 'trial_id' in (x.id if isinstance(x, ast.Name) else x.attr) for x in ast.walk(fi.node))
      if not uses_id:
        continue
      n += 1
      bad = None
      for x in ast.walk(fi.node):
        t = x.test if isinstance(x, (ast.If, ast.IfExp, ast.While)) else None
        if t is None:
          continue
        parts = t.values if isinstance(t, ast.BoolOp) else [t]
        for p_ in parts:
          q_ = p_.operand if isinstance(p_, ast.UnaryOp) and isinstance(p_.op, ast.Not) else p_
          nm = q_.id if isinstance(q_, ast.Name) else q_.attr if isinstance(q_, ast.Attribute) else ''
          if 'trial_id' in nm:
            # a string-typed proto field `x.trial_id` read from the wire is '' when unset: truthiness is presence there
            if isinstance(q_, ast.Attribute) and isinstance(q_.value, ast.Name) and any(
                isinstance(a, ast.arg) and a.arg == q_.value.id and a.annotation is not None and 'pb2' in unparse(a.annotation, 0)
                for a in ast.walk(fi.node)):
              continue
            bad = bad or p_
      ctx.check(bad is None, 'R8', f'{fi.qualname.rsplit(".", 2)[-1] if False else fi.name}: trial id presence', fi.node,
                '`is None` / HasField', f'`{unparse(bad, 40) if bad is not None else ""}` decides by truthiness whether an update addresses a trial: '
                'metadata written for trial id 0 is sent as study-level metadata and overwrites the study\'s entry of the same key',
                construct=f'{fi.name}:trial-id-truthiness', func=fi.qualname)
  if n < 1:
    raise AnalysisError('no metadata function handling a trial id found')


def r5_pairing(ctx) -> None:
  files = ['vizier/_src/pyvizier/oss/metadata_util.py', 'vizier/_src/pyvizier/oss/proto_converters.py',
           'vizier/_src/pyvizier/oss/study_config.py']
  n_w = n_r = 0
  for f in files:
    mi = ctx.index.module_of_file(f)
    funcs = list(mi.functions.values()) + [m for c in mi.classes.values() for m in c.methods.values()]
    for fi in funcs:
      if fi.name in ('assign', 'get', 'get_proto'):
        continue  # take/compare an already encoded ns string (documented parameter)
      for x in ast.walk(fi.node):
        # writers: KeyValue(ns=...), .ns = ...
        if isinstance(x, ast.Call) and (dotted(x.func) or '').endswith('KeyValue'):
          for k in x.keywords:
            if k.arg == 'ns':
              n_w += 1
              ok = isinstance(k.value, ast.Call) and isinstance(k.value.func, ast.Attribute) and k.value.func.attr == 'encode'
              ctx.check(ok, 'R5', f'{fi.name}: KeyValue(ns=...)', x, 'ns written as Namespace.encode()',
                        'KeyValue.ns is written from something other than Namespace.encode()', construct=k.value, func=fi.qualname)
        if isinstance(x, ast.Assign):
          for t in x.targets:
            if isinstance(t, ast.Attribute) and t.attr == 'ns':
              n_w += 1
              ok = isinstance(x.value, ast.Call) and isinstance(x.value.func, ast.Attribute) and x.value.func.attr == 'encode'
              ctx.check(ok, 'R5', f'{fi.name}: .ns = ...', x, 'ns written as Namespace.encode()',
                        'KeyValue.ns is assigned from something other than Namespace.encode()', construct=x, func=fi.qualname)
        # readers: anything using <kv>.ns to build Metadata must go through decode
        if isinstance(x, ast.Call) and isinstance(x.func, ast.Attribute) and x.func.attr in ('abs_ns', 'ns'):
          for a in x.args:
            uses_raw = any(isinstance(y, ast.Attribute) and y.attr == 'ns' for y in ast.walk(a))
            if uses_raw:
              n_r += 1
              ok = any(isinstance(y, ast.Call) and (dotted(y.func) or '').endswith('Namespace.decode') for y in ast.walk(a))
              ctx.check(ok, 'R5', f'{fi.name}: namespace from KeyValue.ns', x,
                        'wire string decoded with Namespace.decode',
                        'a KeyValue.ns string is used as a namespace without Namespace.decode',
                        construct=x, func=fi.qualname)
  if n_w < 1 or n_r < 1:
    raise AnalysisError(f'namespace wire sites recognised: {n_w} writers, {n_r} readers')


# ----------------------------------------------------------------------- R6
def r6_forwarding(ctx) -> None:
  svc = Svc(ctx)
  for name in ('SuggestTrials', 'CheckTrialEarlyStoppingState'):
    fi = svc.rpcs[name]
    for c in flow.calls_in(fi.node):
      if svc.ds_call(c) != 'update_metadata':
        continue
      cond = None
      for a in ancestors(c):
        if isinstance(a, (ast.FunctionDef, ast.Lambda)):
          break
        if isinstance(a, ast.If) and any('metadata' in unparse(x, 0) for x in [a.test]):
          cond = a
      ctx.check(cond is None, 'R6', f'{name}: algorithm metadata forwarded', c,
                'the delta is forwarded unconditionally (the datastore merge of an empty delta is a no-op)',
                f'the metadata write is skipped when `{unparse(cond.test, limit=60) if cond else ""}` is falsy: '
                'truthiness of a delta/Metadata only reflects part of its content (root namespace), so '
                'trial-only or non-root entries issued by the algorithm are silently dropped',
                construct=cond.test if cond else None, func=fi.qualname)
      # the forwarded delta is the algorithm's delta itself: both metadata arguments derive from
      # <decision>.metadata.on_study / .on_trials through the converter helpers only - no filtering
      g = cfgmod.CFG(fi.node)
      prov = flow.Provenance(g, on_call=lambda cc: 'args', on_attr=lambda a: 'stop')
      node = g.node_of(c)
      for idx, part in ((1, 'on_study'), (2, 'on_trials')):
        if len(c.args) <= idx:
          continue
        arg = c.args[idx]
        o = prov.origins(arg, node)
        attrs = {(dotted(v) or '') for k, v in o if k == 'attr'}
        direct = any(a.endswith(f'.metadata.{part}') or a.endswith(f'.metadata_delta.{part}') or a.endswith(f'.{part}') for a in attrs)
        filtered = [x for k, v in o if k == 'iter' for x in [v]] or [
            x for x in ast.walk(arg) if isinstance(x, (ast.DictComp, ast.ListComp, ast.GeneratorExp, ast.SetComp))]
        # a local built by a filtering comprehension
        comp_defs = []
        for nm in flow.names_in(arg):
          for d in prov.rd.at(node, nm):
            if d.value is not None and isinstance(d.value, (ast.DictComp, ast.ListComp, ast.SetComp, ast.GeneratorExp)) \
                and any(gen.ifs for gen in d.value.generators):
              comp_defs.append(d.value)
        ctx.check(direct and not comp_defs, 'R6', f'{name}: {part} forwarded as issued', c,
                  f'argument derives from the decision\'s metadata.{part} without filtering',
                  (f'the {part} delta handed to update_metadata is filtered first (`{unparse(comp_defs[0], 70)}`): entries naming a '
                   'missing trial are silently dropped and the rest is applied, instead of the update failing as a whole and '
                   'reporting the error') if comp_defs else
                  f'the {part} argument does not derive from the algorithm\'s metadata delta',
                  construct=f'{name}:{part}:filtered', func=fi.qualname)
  mod = ctx.index.need_module(MDUTIL)
  av = mod.functions.get('_assign_value')
  if av is None:
    raise AnalysisError('_assign_value not found')
  # type dispatch evaluated scenario by scenario (str / Any / any other Message); Any IS a Message
  from vzstatic import enumeval
  vpar = av.params[1] if len(av.params) > 1 else 'value'
  lattice = {'str': {'str'}, 'Any': {'Any', 'Message'}, 'Message': {'Message'}}

  def tester(scn):
    def ev(t):
      if isinstance(t, ast.Call) and dotted(t.func) == 'isinstance' and len(t.args) == 2 and unparse(t.args[0], 0) == vpar:
        cls_ = t.args[1].elts if isinstance(t.args[1], ast.Tuple) else [t.args[1]]
        names = {(dotted(c) or '?').rsplit('.', 1)[-1] for c in cls_}
        if not names <= {'str', 'Any', 'Message'}:
          return None
        return bool(names & lattice[scn])
      if isinstance(t, ast.UnaryOp) and isinstance(t.op, ast.Not):
        v = ev(t.operand)
        return None if v is None else not v
      if isinstance(t, ast.BoolOp):
        vs = [ev(x) for x in t.values]
        if any(v is None for v in vs):
          return None
        return all(vs) if isinstance(t.op, ast.And) else any(vs)
      return None
    return ev
  want = {'str': 'value-assign', 'Any': 'copy', 'Message': 'pack'}
  got = {}
  for scn in ('str', 'Any', 'Message'):
    tr = enumeval.trace(av.node.body, tester(scn))
    if tr is None:
      raise AnalysisError(f'_assign_value: dispatch not decidable for a {scn} value')
    acts = set()
    for st in tr:
      for x in ast.walk(st):
        if isinstance(x, ast.Assign) and any((dotted(t) or '').endswith('.value') for t in x.targets):
          acts.add('value-assign')
        if isinstance(x, ast.Call) and isinstance(x.func, ast.Attribute) and x.func.attr == 'CopyFrom':
          acts.add('copy')
        if isinstance(x, ast.Call) and isinstance(x.func, ast.Attribute) and x.func.attr == 'Pack':
          acts.add('pack')
    got[scn] = acts
  ok = all(got[k] == {v} for k, v in want.items())
  ctx.check(ok, 'R6', '_assign_value dispatch order', av.node,
            'str -> value, Any -> copied as is, other messages -> packed once',
            f'per value type the function performs {({k: sorted(v) for k, v in got.items()})}, expected {want}: an `Any` value is a '
            'Message, so testing Message first packs an Any inside another Any and a second conversion no longer returns the '
            'value written', construct='assign-dispatch', func=av.qualname)


VARIANTS = [
    Variant('parse-lstrip', 'vizier/_src/pyvizier/shared/common.py',
            "  if arg.startswith(':'):\n    arg = arg[1:]", "  arg = arg.lstrip(':')", rule='R1'),
    Variant('merge-key-only', 'vizier/_src/pyvizier/oss/metadata_util.py',
            "  for kv in new_metadata:\n    metadata_dict[(kv.ns, kv.key)] = kv",
            "  for kv in new_metadata:\n    metadata_dict[('', kv.key)] = kv", rule='R2'),
    Variant('merge-swapped-order', 'vizier/_src/pyvizier/oss/metadata_util.py',
            "  for kv in study_spec.metadata:\n    metadata_dict[(kv.ns, kv.key)] = kv\n  for kv in new_metadata:\n    metadata_dict[(kv.ns, kv.key)] = kv",
            "  for kv in new_metadata:\n    metadata_dict[(kv.ns, kv.key)] = kv\n  for kv in study_spec.metadata:\n    metadata_dict[(kv.ns, kv.key)] = kv",
            rule='R2'),
    Variant('policy-writes-root', 'vizier/_src/algorithms/policies/designer_policy.py',
            'metadata_delta.on_study.ns(self._ns_root).attach(self.dump())',
            'metadata_delta.on_study.attach(self.dump())', rule='R4'),
    Variant('kv-ns-not-encoded', 'vizier/_src/pyvizier/oss/metadata_util.py',
            'item = key_value_pb2.KeyValue(key=k, ns=ns.encode())',
            'item = key_value_pb2.KeyValue(key=k, ns=str(tuple(ns)))', rule='R5'),
    Variant('ns-not-decoded', 'vizier/_src/pyvizier/oss/metadata_util.py',
            'metadata.abs_ns(common.Namespace.decode(kv.ns))[kv.key]',
            'metadata.abs_ns(common.Namespace((kv.ns,)))[kv.key]', rule='R5'),
    Variant('sql-metadata-no-rollback', 'vizier/_src/service/sql_datastore.py',
            "        if not row:\n          self._connection.rollback()\n          raise NotFoundError('No such trial:', trial_name)",
            "        if not row:\n          raise NotFoundError('No such trial:', trial_name)", rule='R3'),
    Variant('benign-rename-dict', 'vizier/_src/pyvizier/oss/metadata_util.py', 'metadata_dict', 'merged', expect='silent', count=8),
]
